import json, os, time, glob, re, shutil
import core
from core import ROOT, WORK

# per property: suites per tier.  (suite, args)  — seeds are derived from VERIF_SEED
SEQ = lambda prof, q, t: {"quick": [("seq", {"profile": prof, "count": q})],
                          "thorough": [("seq", {"profile": prof, "count": t}), ("seq", {"profile": "ALL", "count": t // 4})]}

PROPS = {
    "C01": {"suites": {"quick": SEQ("C01", 1500, 60000)["quick"] + [("seq", {"profile": "C20", "count": 600}), ("conn", {"profile": "C11", "count": 12, "tier": "quick"})], "thorough": SEQ("C01", 1500, 60000)["thorough"] + [("seq", {"profile": "C20", "count": 30000}), ("conn", {"profile": "C11", "count": 100, "tier": "thorough"})]}, "design": "6/C01", "projection": core.framing_projection()},
    "C02": {"suites": {"quick": SEQ("C02", 1500, 60000)["quick"] + [("sched", {"profile": "C02", "count": 80, "per_case": 60}), ("stress", {"count": 800}), ("policy", {"profile": "C02", "count": 400})],
                       "thorough": SEQ("C02", 1500, 60000)["thorough"] + [("sched", {"profile": "C02", "count": 1500, "per_case": 2000}), ("stress", {"count": 20000}), ("policy", {"profile": "C02", "count": 20000})]}, "design": "6/C02", "projection": core.policy_projection()},
    "C05": {"suites": {"quick": SEQ("C05", 1500, 60000)["quick"] + [("sched", {"profile": "C05", "count": 80, "per_case": 60}), ("stress", {"count": 800}), ("config", {"tier": "quick"})],
                       "thorough": SEQ("C05", 1500, 60000)["thorough"] + [("sched", {"profile": "C05", "count": 1500, "per_case": 2000}), ("stress", {"count": 20000}), ("config", {"tier": "thorough"})]}, "design": "6/C05", "needs_memcrsd": True},
    "C06": {"suites": {"quick": SEQ("C06", 1500, 60000)["quick"] + [("sched", {"profile": "C06", "count": 100, "per_case": 60})],
                       "thorough": SEQ("C06", 1500, 60000)["thorough"] + [("sched", {"profile": "C06", "count": 1500, "per_case": 2000})]}, "design": "6/C06"},
    "C07": {"suites": {"quick": SEQ("C07", 1500, 60000)["quick"] + [("policy", {"profile": "C07", "count": 300})],
                       "thorough": SEQ("C07", 1500, 60000)["thorough"] + [("policy", {"profile": "C07", "count": 15000})]}, "design": "6/C07"},
    "C08": {"suites": {"quick": SEQ("C08", 1500, 60000)["quick"] + [("stress", {"count": 1000}), ("config", {"tier": "quick"})], "thorough": SEQ("C08", 1500, 60000)["thorough"] + [("stress", {"count": 20000}), ("config", {"tier": "thorough"})]}, "design": "6/C08", "needs_memcrsd": True},
    "C11": {"suites": {"quick": SEQ("C11", 1500, 60000)["quick"] + [("conn", {"profile": "C11", "count": 20, "tier": "quick"})],
                       "thorough": SEQ("C11", 1500, 60000)["thorough"] + [("conn", {"profile": "C11", "count": 400, "tier": "thorough"})]}, "design": "6/C11"},
    "C19": {"suites": {"quick": [("seq", {"profile": "C19", "count": 1000}), ("conn", {"profile": "C12", "count": 44, "tier": "quick"})],
                       "thorough": [("seq", {"profile": "C19", "count": 40000}), ("conn", {"profile": "C12", "count": 600, "tier": "thorough"})]}, "design": "6/C19",
            "projection": core.framing_projection(with_dump=True)},
}

STREAM = lambda prof, q, t: {"quick": [("codec", {"profile": prof, "count": q, "tier": "quick"}), ("conn", {"profile": prof, "count": max(q // 2, 10), "tier": "quick"})],
                             "thorough": [("codec", {"profile": prof, "count": t, "tier": "thorough"}), ("conn", {"profile": prof, "count": t // 2, "tier": "thorough"})]}
PROPS.update({
    "C09": {"suites": STREAM("C09", 120, 1500), "design": "6/C09", "projection": core.framing_projection()},
    "C12": {"suites": STREAM("C12", 120, 1500), "design": "6/C12", "projection": core.framing_projection(with_dump=True)},
    "C13": {"suites": {"quick": STREAM("C13", 120, 1500)["quick"] + [("config", {"tier": "quick"}), ("seq", {"profile": "C06", "count": 60})], "thorough": STREAM("C13", 120, 1500)["thorough"] + [("config", {"tier": "thorough"}), ("seq", {"profile": "C06", "count": 3000})]},
            "design": "6/C13", "projection": core.framing_projection(with_dump=True), "needs_memcrsd": True},
    "C18": {"suites": {"quick": STREAM("C18", 120, 1500)["quick"] + [("server", {"count": 16})], "thorough": STREAM("C18", 120, 1500)["thorough"] + [("server", {"count": 300})]},
            "design": "6/C18", "projection": core.framing_projection(with_dump=True)},
    "C10": {"suites": {"quick": STREAM("C10", 120, 1500)["quick"] + [("grid", {"count": 3000}), ("seq", {"profile": "C05", "count": 500}), ("seq", {"profile": "ALL", "count": 500}), ("policy", {"profile": "C14", "count": 150})],
                       "thorough": STREAM("C10", 120, 1500)["thorough"] + [("grid", {"count": 60000}), ("seq", {"profile": "C05", "count": 20000}), ("seq", {"profile": "ALL", "count": 20000}), ("policy", {"profile": "C14", "count": 5000})]},
            "design": "6/C10", "projection": core.framing_projection()},
})

POLICY = lambda prof, q, t: {"quick": [("policy", {"profile": prof, "count": q}), ("stress", {"count": 1000})], "thorough": [("policy", {"profile": prof, "count": t}), ("stress", {"count": 20000})]}
PROPS.update({
    "C14": {"suites": {"quick": POLICY("C14", 600, 30000)["quick"] + [("sched", {"profile": "C14", "count": 60, "per_case": 40}), ("sched", {"profile": "C14deep", "count": 60, "per_case": 40}), ("config", {"tier": "quick"})],
                       "thorough": POLICY("C14", 600, 30000)["thorough"] + [("sched", {"profile": "C14", "count": 2000, "per_case": 400}), ("sched", {"profile": "C14deep", "count": 3000, "per_case": 300}), ("config", {"tier": "thorough"})]},
            "design": "6/C14", "projection": core.policy_projection(), "needs_memcrsd": True},
    "C15": {"suites": {"quick": POLICY("C15", 300, 10000)["quick"] + [("sched", {"profile": "C14", "count": 40, "per_case": 40}), ("sched", {"profile": "C14deep", "count": 40, "per_case": 40}), ("config", {"tier": "quick"})],
                       "thorough": POLICY("C15", 300, 10000)["thorough"] + [("sched", {"profile": "C14", "count": 1500, "per_case": 300}), ("sched", {"profile": "C14deep", "count": 2000, "per_case": 300}), ("config", {"tier": "thorough"})]},
            "design": "6/C15", "projection": core.policy_projection(), "needs_memcrsd": True},
})

RULE_POLICY = ("policy: programs of 10-120 commands (stores, overwrites, appends, counter updates, deletes, flushes, TTLs and clock advances) over 2-8 keys "
               "run through BinaryHandler/MemcStore/RandomPolicy with memory limits from 10 bytes (below one record) to a few records (C14) or far above the "
               "live set (C15); a recording Cache between RandomPolicy and MemoryStore observes the victims, which are fed to the Lean model as the choice "
               "tape (the model validates every choice); accounted usage (hook), stored bytes and content are compared after every command.")

PROPS.update({
    "C17": {"suites": {"quick": [("server", {"count": 32}), ("config", {"tier": "quick"})], "thorough": [("server", {"count": 600}), ("config", {"tier": "thorough"})]}, "design": "6/C17", "needs_memcrsd": True},
})

RULE_SERVER = ("server: scripted connection life-cycles against a real MemcacheTcpServer (limits 1-4, idle timeout 1 s, many more connections than the limit): "
               "connections are opened and ended by client close, quit, quitq, disconnect in the middle of a request, protocol error, oversized item then close, "
               "and idle timeout (with some connections kept alive); after every event each open connection is probed with a noop to see who is served; every script "
               "ends by closing everything and opening limit+1 fresh connections. Scripts run in parallel, each against its own server; the served sets are compared "
               "with the Lean model of the accept loop and checked against the limit directly.")

PROPS.update({
    "C03": {"suites": {"quick": [("sched", {"profile": "C03", "count": 150, "per_case": 60}), ("stress", {"count": 1500}), ("sched", {"profile": "C03deep", "count": 60, "per_case": 40})],
                       "thorough": [("sched", {"profile": "C03", "count": 1500, "per_case": 2000}), ("stress", {"count": 30000}), ("sched", {"profile": "C03deep", "count": 1500, "per_case": 400})]}, "design": "6/C03"},
    "C04": {"suites": {"quick": [("sched", {"profile": "C04", "count": 150, "per_case": 60}), ("stress", {"count": 1000})],
                       "thorough": [("sched", {"profile": "C04", "count": 1500, "per_case": 2000}), ("stress", {"count": 20000})]}, "design": "6/C04"},
    "C16": {"suites": {"quick": [("sched", {"profile": "C04", "count": 60, "per_case": 40}), ("stress", {"count": 600}), ("seq", {"profile": "C05", "count": 600}), ("policy", {"profile": "C14", "count": 200}), ("sched", {"profile": "C14deep", "count": 30, "per_case": 30}), ("codec", {"profile": "C10", "count": 120, "tier": "quick"}), ("grid", {"count": 3000})],
                       "thorough": [("sched", {"profile": "C04", "count": 1000, "per_case": 500}), ("stress", {"count": 20000}), ("seq", {"profile": "C05", "count": 20000}), ("policy", {"profile": "C14", "count": 10000}), ("sched", {"profile": "C14deep", "count": 1000, "per_case": 200}), ("codec", {"profile": "C10", "count": 1500, "tier": "thorough"}), ("grid", {"count": 60000})]},
            "design": "6/C16", "only_hangs": True},
})

PROPS.update({
    "C20": {"suites": {"quick": [("config", {"tier": "quick"}), ("seq", {"profile": "C20", "count": 800}), ("sched", {"profile": "C03deep", "count": 40, "per_case": 40})], "thorough": [("config", {"tier": "thorough"}), ("seq", {"profile": "C20", "count": 40000}), ("sched", {"profile": "C03deep", "count": 1000, "per_case": 300})]}, "design": "6/C20", "needs_memcrsd": True},
})

RULE_CONFIG = ("config: the real memcrsd binary (built from /repo's working tree) is started as a child process under {current-thread, multi-thread} x threads {1,2,8} x "
               "eviction {none, random 64 MiB} with varying --item-size-limit, --connection-limit and --port; every configuration is driven with the same generated "
               "single-connection programs (fresh process per program), whose response bytes are compared with the Lean model and with every other configuration; "
               "probes: body = limit accepted and limit+1 refused with 'too large' (also for a limit above 1 MiB that is not a whole KiB), exactly --connection-limit of limit+2 "
               "simultaneous connections served, --memory-limit in several spellings (half the limit in fresh records all kept, after twice the limit the survivors fit "
               "limit + one record), an item with TTL 6 s hit after 3.3 s and gone 1.25 s after a 5 s SIGSTOP of the server.")

RULE_SCHED = ("sched: 2-3 real client threads, each issuing 1-2 commands on one key through BinaryHandler/MemcStore over a gate-controlled Cache: a schedule grants one "
              "trait call at a time (get_by_key, check_if_expired, set, delete, flush). For every generated (initial state absent/present/present-but-expired x programs) "
              "all interleavings of the calls are enumerated (or sampled when above the per-case cap) and run on the real code and on the Lean micro-step model under the "
              "same schedule; each outcome is checked for linearizability against one-at-a-time executions of the real code (with the collection of an expired record "
              "optionally postponed, as the specification allows). stress: 8 OS threads per round - same-token CAS stores (winner count), readers collecting an expired "
              "predecessor vs. an acknowledged store, fresh stores and deletes under RandomPolicy (accounting at rest).")

RULE_STREAM = ("codec/conn: pipelined request streams (standard loud and quiet commands of every opcode, unimplemented opcodes, frames with "
               "unexpected extras/value, bodies above the item limit for any opcode, quit/quitq at any position, optionally a truncated or "
               "invalid-header tail) are cut into consecutive reads: every single cut (or a directed sample around header and frame boundaries), "
               "pairs of cuts, random cuts and byte-at-a-time; each segmentation is fed to the real Decoder on a caller-owned BytesMut (codec) "
               "and to a real MemcacheTcpServer over loopback with enforced read boundaries (conn), and to the Lean model. Distinct = distinct "
               "(frame kind, opcode) sequences of the streams. Fixed cases of the conn level, by profile: large response read 1.6 s late, value sizes "
               "around 4/64/128 KiB, bodies of limit-0/1/23/24/25 under limits 20000 and 65536 (limit-edge), clients that half-close without reading, "
               "a sender stalling inside an oversized body beyond and within the idle timeout, a reset behind quit/quitq, a client sending only quiet "
               "commands every 400 ms under a 2 s idle timeout, and `tcase` arrival plans in real time compared with the timed model.")

RULE = ("seq: programs of 5-40 commands over 1-6 colliding keys generated from the protocol vocabulary (pools of keys, binary and decimal "
        "values, flags, TTLs, boundary-directed clock advances, CAS tokens learnt from the implementation's own acknowledgements); "
        "each request goes through the real decoder, handler and encoder and through the compiled Lean model; the store is dumped and "
        "compared after every request. A program counts as distinct+non-trivial when its (opcode,status) sequence was not seen before "
        "in this run and it contains at least one successful mutation and one hit.")


def setup():
    core.gen_tables()
    rc, out = core.sh(["lake", "build"], cwd=core.LEAN, timeout=3400)
    print(out[-3000:])
    if rc != 0:
        return 1
    rc, out = core.sh(["lake", "build", "driver"], cwd=core.LEAN, timeout=3400)
    print(out[-2000:])
    if rc != 0:
        return 1
    ok, out = core.harness_build()
    print(out[-2000:])
    if not ok:
        return 1
    ok, out = core.memcrsd_build()
    print(out[-1000:])
    return 0 if ok else 1


def known_match(known, prop, msg, ops):
    for k in known:
        if k.get("property") != prop or k.get("status") != "known":
            continue
        pat = k.get("match")
        if pat and re.search(pat, msg):
            return k
    return None


def program_payload(run, a, b):
    return {"ops": run.ops[a:b], "impl": run.impl[a:b], "model": run.model[a:b] if run.model else []}


def run_check(prop, tier, seed, replay):
    t0 = time.time()
    cfg = PROPS[prop]
    known = core.load_known()
    work = os.path.join(WORK, prop)
    os.makedirs(work, exist_ok=True)
    problems = []       # (kind, text, replay_payload, has_input)
    known_hits = {}

    # a. obligations
    lean = core.lean_obligations(prop, recheck=(tier == "thorough"))
    scan = core.scan_sources()
    n_obl = len(lean["obligations"])
    n_dis = sum(1 for o in lean["obligations"] if o["ok"]) if lean["build_ok"] else 0
    if scan:
        lean["ok"] = False

    # b. harness
    ok, blog = core.harness_build()
    if not ok:
        p = core.write_replay(prop, f"{seed}-build", {"kind": "harness-build-failed", "log": blog[-8000:]})
        print(f"VIOLATION property={prop} replay={p} no-failing-input-found")
        finish(prop, tier, seed, t0, lean, n_obl, n_dis, [], 1, {}, scan)
        return 1

    if cfg.get("needs_memcrsd"):
        okb, blog2 = core.memcrsd_build()
        if not okb:
            p = core.write_replay(prop, f"{seed}-build", {"kind": "memcrsd-build-failed", "log": blog2[-8000:]})
            print(f"VIOLATION property={prop} replay={p} no-failing-input-found")
            finish(prop, tier, seed, t0, lean, n_obl, n_dis, [], 1, {}, scan)
            return 1

    reduced = core.HARNESS_MODE == "reduced"
    if reduced:
        payload = {"kind": "harness-build-failed", "property": prop,
                   "what": "the harness does not compile against this tree with its Cache-trait wrappers (recording cache, gate-controlled caches): "
                           "the policy and sched suites cannot run, so that part of the correspondence is not checked; the remaining suites were run "
                           "with a harness built without them", "log": blog[-6000:]}
        problems.append(("correspondence", payload["what"], payload, False))
    runs = []
    hang = None
    # c. corpus / replay
    if replay:
        payload = json.load(open(replay))
        opsf = os.path.join(work, "replay.ops")
        with open(opsf, "w") as f:
            f.write("\n".join(payload.get("ops", [])) + "\n")
        lines0 = payload.get("ops", [])
        rsuite = "sched" if any(l.startswith(("cnew", "pcnew")) for l in lines0) else ("server" if any(l.startswith("srv ") for l in lines0) else "replay")
        runs.append(("replay", core.run_harness(rsuite, os.path.join(work, "replay"), {"ops": opsf})))
    else:
        for cf in sorted(glob.glob(os.path.join(ROOT, "corpus", prop, "*.ops"))):
            name = os.path.basename(cf)[:-4]
            runs.append((f"corpus/{name}", core.run_harness("replay", os.path.join(work, f"corpus-{name}"), {"ops": cf})))
        for cf in ([] if reduced else sorted(glob.glob(os.path.join(ROOT, "corpus", prop, "*.sched")))):
            name = os.path.basename(cf)[:-6]
            runs.append((f"corpus/{name}", core.run_harness("sched", os.path.join(work, f"corpus-{name}"), {"ops": cf})))
        for cf in sorted(glob.glob(os.path.join(ROOT, "corpus", prop, "*.srv"))):
            name = os.path.basename(cf)[:-4]
            runs.append((f"corpus/{name}", core.run_harness("server", os.path.join(work, f"corpus-{name}"), {"ops": cf})))
        # d. suites
        for n, (suite, args) in enumerate(cfg["suites"][tier]):
            if reduced and suite in ("policy", "sched"):
                continue
            a = dict(args)
            a["seed"] = seed * 1000 + n
            if suite == "config":
                a["bin"] = os.path.join(core.MEMCRSD_TARGET, "debug", "memcrsd")
            try:
                runs.append((f"{suite}:{a.get('profile', '')}", core.run_harness(suite, os.path.join(work, f"{suite}{n}"), a,
                                                                                 timeout=240 if tier == "quick" else 3000)))
            except core.HarnessHang as h:
                hang = h
                break
            except core.HarnessCrash as c:
                if "cannot connect to the in-process server" in c.out:
                    starts = [i for i, l in enumerate(c.lines) if l.startswith(("new", "conn"))]
                    prog_lines = c.lines[(starts[-2] if len(starts) > 1 else 0):]
                    payload = {"kind": "counterexample", "property": prop, "suite": c.suite, "seed": seed,
                               "oracle": "the in-process server stopped accepting connections (connect refused) while the last of these lines ran: "
                                         "a fault on one connection must not stop the server from serving the others",
                               "ops": prog_lines[-60:]}
                    problems.append(("counterexample", payload["oracle"], payload, True))
                    break
                payload = {"kind": "harness-crash", "property": prop, "suite": c.suite, "seed": seed, "rc": c.rc,
                           "output": c.out[-3000:], "last_lines": c.lines[-40:]}
                problems.append(("harness", f"the harness process for suite {c.suite} exited with {c.rc}: {c.out[-200:]}", payload, False))
                break

    # e/f. verdict
    violations = 0
    stats = []
    samples = []
    foreign = 0
    for (name, run) in runs:
        stats.append(run.stats)
        progs = run.programs()
        if progs and not samples:
            a, b = progs[min(len(progs) - 1, 3)]
            samples.append({"suite": name, "ops": run.ops[a:min(b, a + 12)], "impl": run.impl[a:min(b, a + 12)]})
        reported_programs = set()
        for v in run.viol:
            if prop not in v["props"]:
                continue
            k = known_match(known, prop, v["msg"], run.ops[v["start"]:v["end"]])
            if k:
                known_hits.setdefault(k["id"], k)
                continue
            if v["start"] in reported_programs:
                continue
            reported_programs.add(v["start"])
            payload = {"kind": "counterexample", "property": prop, "suite": name, "seed": seed, "oracle": v["msg"], "line_in_program": v["line"] - v["start"]}
            payload.update(program_payload(run, v["start"], v["end"]))
            problems.append(("counterexample", v["msg"], payload, True))
        stream_suite = name.startswith("codec") or name.startswith("conn") or name.startswith("grid")
        proj = core.policy_projection() if name.startswith("policy") else (cfg.get("projection") if stream_suite else None)
        for (a, b, i) in ([] if cfg.get("only_hangs") else run.divergences(proj)):
            if name.startswith("corpus") or name == "replay" or name.startswith("policy") or name.startswith("server") or name.startswith("sched") or name.startswith("stress") or name.startswith("config"):
                own, why = {prop}, f"witness replay differs at '{run.ops[i][:40]}'"
            elif stream_suite:
                own, why = {prop}, f"framing differs at '{run.ops[i][:40]}'"
            else:
                own, why = core.owners(run, a, b, i)
            if prop not in own:
                foreign += 1
                continue
            if a in reported_programs:
                continue
            # a known finding explains divergences of its own class
            kk = [k for k in known if k.get("property") == prop and k.get("status") == "known" and k.get("divergence_match") and re.search(k["divergence_match"], why)]
            if kk:
                known_hits.setdefault(kk[0]["id"], kk[0])
                continue
            reported_programs.add(a)
            mline = run.model[i] if i < len(run.model) else ""
            if "tape=bad" in mline and prop in ("C14", "C15"):
                payload = {"kind": "counterexample", "property": prop, "suite": name, "seed": seed,
                           "oracle": "the implementation's eviction at this request is not one the accounting rule allows (victims evicted while the "
                                     "accounted usage was within the limit, a needed eviction skipped, or a victim that is not stored): " + mline[-120:],
                           "line_in_program": i - a}
                payload.update(program_payload(run, a, b))
                problems.append(("counterexample", payload["oracle"], payload, True))
                continue
            payload = {"kind": "broken-correspondence", "property": prop, "suite": name, "seed": seed,
                       "what": f"implementation and model differ at line {i - a} of the program ({why})",
                       "impl_line": run.impl[i] if i < len(run.impl) else None, "model_line": run.model[i] if i < len(run.model) else None,
                       "note": "the property oracle found no failing input in this program"}
            payload.update(program_payload(run, a, b))
            problems.append(("correspondence", payload["what"], payload, False))

    if hang is not None:
        prog = hang.program()
        payload = {"kind": "counterexample", "property": prop, "suite": hang.suite, "seed": seed,
                   "oracle": f"the implementation did not return within {hang.timeout}s while executing the last line of this program",
                   "ops": prog, "last_line": prog[-1] if prog else None}
        problems.append(("counterexample", f"command does not return (hang) at: {(prog[-1] if prog else '?')[:120]}", payload, True))

    if not lean["ok"]:
        bad = [o["name"] for o in lean["obligations"] if not o["ok"]]
        payload = {"kind": "broken-obligation", "property": prop, "module": lean["module"], "undischarged_or_unaudited": bad,
                   "source_scan": scan, "log": lean["log"][-6000:]}
        problems.append(("obligation", f"obligations of {lean['module']} do not check", payload, False))

    for kid, k in known_hits.items():
        print(f"KNOWN-FINDING: property={prop} {k['what']}")

    rc = 0
    if problems:
        # concrete counterexamples first; at most a handful of lines
        problems.sort(key=lambda p: 0 if p[3] else 1)
        have_input = any(p[3] for p in problems)
        shown = 0
        for n, (kind, text, payload, has_input) in enumerate(problems):
            if have_input and not has_input:
                continue
            if shown >= 5:
                break
            p = core.write_replay(prop, f"{seed}-{n}", payload)
            tail = "" if has_input else " no-failing-input-found"
            print(f"VIOLATION property={prop} replay={p}{tail}")
            print(f"  {kind}: {text[:300]}")
            shown += 1
        violations = len(problems)
        rc = 1
    finish(prop, tier, seed, t0, lean, n_obl, n_dis, stats, violations, known_hits, scan, samples, foreign)
    if tier == "thorough" and rc == 0 and not replay:
        # the thorough suites leave gigabytes of operation / output files behind: keep them only when there is something to look at
        shutil.rmtree(work, ignore_errors=True)
    if replay:
        print("replay: " + ("violation reproduced" if rc else "no violation on this input"))
    return rc


def finish(prop, tier, seed, t0, lean, n_obl, n_dis, stats, violations, known_hits, scan, samples=None, foreign=0):
    evals = sum(s.get("cases", s.get("programs", 0)) for s in stats)
    dn = sum(s.get("distinct_nontrivial", 0) for s in stats)
    ev = {
        "property_id": prop, "tier": tier, "seed": seed, "level": "proof",
        "coverage": {
            "obligations": n_obl, "discharged": n_dis,
            "checker_cmd": lean.get("checker_cmd", "") + ("; lake env leanchecker (independent re-check of the compiled module): " + lean["leanchecker"] if lean.get("leanchecker") else ""),
            "trusted_base": core.TRUSTED,
            "obligation_list": [{"name": o["name"], "axioms": o["axioms"]} for o in lean["obligations"]],
            "tables_regenerated_from_source": lean.get("tables", {}),
            "source_scan_hits": scan,
            "evaluations": evals, "distinct_nontrivial": dn, "rule": RULE_STREAM if any(s.get("suite") in ("codec", "conn", "grid") for s in stats) else (RULE_POLICY if any(s.get("suite") == "policy" for s in stats) else (RULE_SERVER if any(s.get("suite") == "server" for s in stats) else (RULE_SCHED if any(s.get("suite") in ("sched", "stress") for s in stats) else (RULE_CONFIG if any(s.get("suite") == "config" for s in stats) else RULE)))),
            "samples": samples or [],
            "correspondence_runs": stats,
            "lines_compared": sum(s.get("lines", 0) for s in stats),
            "divergences_owned_by_other_properties": foreign,
            "known_findings_hit": sorted(known_hits.keys()),
        },
        "assumptions": ["clock monotone; counters stay below 2^64 within a history; value lengths below 2^32-300"],
        "wall_s": round(time.time() - t0, 2),
        "violations": violations,
    }
    core.write_evidence(prop, ev)
