import json, os, subprocess, sys, time, re, shutil, glob

ROOT = os.path.dirname(os.path.dirname(os.path.abspath(__file__)))
LEAN = os.path.join(ROOT, "lean")
HARNESS = os.path.join(ROOT, "harness")
WORK = os.path.join(ROOT, ".work")
BIN = os.path.join(WORK, "target", "debug", "harness")
DRIVER = os.path.join(LEAN, ".lake", "build", "bin", "driver")
REPO = os.path.realpath(os.environ.get("VERIF_REPO", "/repo"))
ALLOWED_AXIOMS = {"propext", "Classical.choice", "Quot.sound"}
TRUSTED = [
    "Lean 4.33 kernel; axioms of every obligation printed by `#print axioms` and required to be within {propext, Classical.choice, Quot.sound}",
    "no sorry/admit/native_decide/bv_decide/implemented_by/unsafe/own axioms (source scan on every run)",
    "the model is hand-written; its tie to /repo is the correspondence run of this check (sampling + small-scope enumeration)",
    "harness, oracle and diff (Rust/Python) are trusted to report differences",
    "modelled, not verified: DashMap (atomic per call), Bytes/BytesMut (lists), tokio, kernel TCP, SmallRng, clap",
]


def sh(cmd, cwd=None, timeout=3600, env=None, stdin=None):
    e = dict(os.environ)
    e["CARGO_NET_OFFLINE"] = "true"
    if env:
        e.update(env)
    p = subprocess.run(cmd, cwd=cwd, shell=isinstance(cmd, str), stdout=subprocess.PIPE, stderr=subprocess.STDOUT,
                       timeout=timeout, env=e, stdin=stdin)
    return p.returncode, p.stdout.decode("utf-8", "replace")


# ------------------------------------------------------------------------------------------------
# Lean side
# ------------------------------------------------------------------------------------------------

FORBIDDEN = re.compile(r"\b(sorry|admit|native_decide|bv_decide|implemented_by|unsafe)\b|^\s*axiom\s|maxHeartbeats\s+0")


def strip_comments(src):
    src = re.sub(r"/-.*?-/", "", src, flags=re.S)
    src = re.sub(r"--.*", "", src)
    return src


class build_lock:
    """serialises the build steps (lake, cargo) of checks that run at the same time: they share lean/.lake and the
    harness target directory"""
    def __enter__(self):
        import fcntl
        os.makedirs(WORK, exist_ok=True)
        self.f = open(os.path.join(WORK, "build.lock"), "w")
        fcntl.flock(self.f, fcntl.LOCK_EX)
        return self

    def __exit__(self, *a):
        import fcntl
        fcntl.flock(self.f, fcntl.LOCK_UN)
        self.f.close()


def scan_sources():
    hits = []
    for f in glob.glob(os.path.join(LEAN, "**", "*.lean"), recursive=True):
        if "/.lake/" in f:
            continue
        body = strip_comments(open(f).read())
        for i, line in enumerate(body.splitlines()):
            if FORBIDDEN.search(line):
                hits.append(f"{os.path.relpath(f, LEAN)}: {line.strip()[:100]}")
    return hits


def lean_obligations(prop, recheck=False):
    """build the property's theorem module and the driver, then re-elaborate the property file to get
    the axioms of every obligation. Returns dict(ok, obligations=[{name, axioms, ok}], log)"""
    mod = f"MemcVerif.Props.{prop}"
    path = os.path.join(LEAN, "MemcVerif", "Props", f"{prop}.lean")
    res = {"ok": False, "obligations": [], "log": "", "module": mod, "build_ok": False, "driver_ok": False}
    if not os.path.exists(path):
        res["log"] = f"{path} missing"
        return res
    with build_lock():
        res["tables"] = gen_tables()
        rc, out = sh(["lake", "build", "driver"], cwd=LEAN, timeout=3000)
        res["driver_ok"] = rc == 0
        if rc != 0:
            res["log"] += out[-4000:]
        rc, out = sh(["lake", "build", mod], cwd=LEAN, timeout=3000)
        res["build_ok"] = rc == 0
        if rc != 0:
            res["log"] += out[-6000:]
        if rc == 0 and recheck:
            # independent re-check of the compiled module by the toolchain's kernel re-checker
            rc3, out3 = sh(["lake", "env", "leanchecker", mod], cwd=LEAN, timeout=3000)
            res["leanchecker"] = "ok" if rc3 == 0 else "FAILED"
            if rc3 != 0:
                res["build_ok"] = False
                res["log"] += "leanchecker: " + out3[-3000:]
    rc2, out2 = sh(["lake", "env", "lean", path], cwd=LEAN, timeout=3000)
    obligations = []
    for m in re.finditer(r"'([^']+)' depends on axioms: \[([^\]]*)\]", out2.replace("\n", " ")):
        ax = [a.strip() for a in m.group(2).split(",") if a.strip()]
        obligations.append({"name": m.group(1), "axioms": ax, "ok": set(ax) <= ALLOWED_AXIOMS})
    for m in re.finditer(r"'([^']+)' does not depend on any axioms", out2):
        obligations.append({"name": m.group(1), "axioms": [], "ok": True})
    # theorems declared in the file (every one must be printed)
    declared = re.findall(r"^theorem\s+([A-Za-z0-9_.']+)", strip_comments(open(path).read()), flags=re.M)
    printed = {o["name"].split(".")[-1] for o in obligations}
    missing = [d for d in declared if d.split(".")[-1] not in printed]
    for d in missing:
        obligations.append({"name": d, "axioms": ["<not checked>"], "ok": False})
    if rc2 != 0:
        res["log"] += out2[-6000:]
    res["obligations"] = obligations
    res["ok"] = res["build_ok"] and rc2 == 0 and all(o["ok"] for o in obligations) and len(obligations) > 0
    res["checker_cmd"] = f"cd lean && lake build {mod} && lake env lean MemcVerif/Props/{prop}.lean  (#print axioms of every theorem)"
    return res


MEMCRSD_TARGET = os.path.join(WORK, "memcrsd-target")


def link_repo():
    """.work/repo -> the repository under test ($VERIF_REPO, default /repo); the harness depends on it by path"""
    os.makedirs(WORK, exist_ok=True)
    ln = os.path.join(WORK, "repo")
    if not (os.path.islink(ln) and os.path.realpath(ln) == REPO):
        had = os.path.islink(ln) or os.path.exists(ln)
        if had:
            os.remove(ln)
        os.symlink(REPO, ln)
        if had:
            # another tree under the same path: cargo's mtime fingerprints cannot be trusted, rebuild the crate under test
            sh(["cargo", "clean", "--offline", "-p", "memcrs"], cwd=HARNESS, timeout=600)
            shutil.rmtree(MEMCRSD_TARGET, ignore_errors=True)


def gen_tables():
    """translator half of the tie: rewrite lean/MemcVerif/Generated/Tables.lean from the source under test (call under build_lock)"""
    rc, out = sh([sys.executable, os.path.join(ROOT, "tools", "gentables.py"), REPO], timeout=120)
    try:
        return json.loads(out.strip().splitlines()[-1])
    except Exception:
        return {"error": out[-500:]}


HARNESS_MODE = "full"


def harness_build():
    """full harness; if it does not compile against the tree under test (the Cache trait changed under the wrappers the
    policy / sched suites need), a reduced one without them: the other suites can still look for a failing input"""
    global HARNESS_MODE
    with build_lock():
        link_repo()
        rc, out = sh(["cargo", "build", "--offline"], cwd=HARNESS, timeout=3000)
        HARNESS_MODE = "full"
        if rc != 0:
            rc2, out2 = sh(["cargo", "build", "--offline", "--no-default-features"], cwd=HARNESS, timeout=3000)
            if rc2 == 0:
                HARNESS_MODE = "reduced"
                return True, out
    return rc == 0, out


MEMCRSD_TARGET = os.path.join(WORK, "memcrsd-target")


def memcrsd_build():
    """the real server binary, built from /repo's working tree into a scratch target directory"""
    with build_lock():
        rc, out = sh(["cargo", "build", "--manifest-path", os.path.join(REPO, "memcrs", "Cargo.toml"), "--bin", "memcrsd", "--target-dir", MEMCRSD_TARGET, "--offline"], timeout=3000)
    return rc == 0, out


# ------------------------------------------------------------------------------------------------
# suites
# ------------------------------------------------------------------------------------------------

def read_lines(p):
    with open(p) as f:
        return f.read().split("\n")[:-1]


def run_model(ops_path, out_path):
    """run the Lean driver on the ops file. Large files are cut at lines that reset the driver's whole state
    (`new`, `newp`, `cnew`, `pcnew`) and the pieces run in parallel; the outputs are concatenated in order."""
    data = open(ops_path, "rb").read()
    pieces = [data]
    if len(data) > 4_000_000:
        lines = data.split(b"\n")
        if lines and lines[-1] == b"":
            lines.pop()
        starts = [i for i, l in enumerate(lines) if l.startswith((b"new ", b"newp ", b"cnew ", b"pcnew "))]
        if len(starts) > 32:
            want = 16
            per = len(lines) // want + 1
            cuts, nxt = [0], per
            for i in starts:
                if i >= nxt:
                    cuts.append(i)
                    nxt = i + per
            cuts.append(len(lines))
            pieces = [b"\n".join(lines[a:b]) + b"\n" for a, b in zip(cuts, cuts[1:]) if b > a]
    procs = []
    for pc in pieces:
        pr = subprocess.Popen([DRIVER], stdin=subprocess.PIPE, stdout=subprocess.PIPE, stderr=subprocess.PIPE)
        procs.append(pr)
    import threading
    outs = [None] * len(pieces)
    rcs = [0] * len(pieces)

    def feed(i):
        o, _ = procs[i].communicate(pieces[i], timeout=7200)
        outs[i] = o
        rcs[i] = procs[i].returncode
    ths = [threading.Thread(target=feed, args=(i,)) for i in range(len(pieces))]
    for t in ths:
        t.start()
    for t in ths:
        t.join()
    with open(out_path, "wb") as f:
        for o in outs:
            f.write(o or b"")
    return max(abs(r) for r in rcs) if rcs else 0


class Run:
    def __init__(self, d):
        self.dir = d
        self.ops = read_lines(os.path.join(d, "ops.txt"))
        self.impl = read_lines(os.path.join(d, "impl.txt"))
        self.model = read_lines(os.path.join(d, "model.txt")) if os.path.exists(os.path.join(d, "model.txt")) else []
        self.stats = json.load(open(os.path.join(d, "stats.json")))
        self.viol = []
        for l in read_lines(os.path.join(d, "oracle.txt")):
            m = re.match(r"VIOL props=(\S+) start=(\d+) end=(\d+) line=(\d+) msg=(.*)", l)
            if m:
                self.viol.append({"props": m.group(1).split(","), "start": int(m.group(2)), "end": int(m.group(3)),
                                  "line": int(m.group(4)), "msg": m.group(5)})

    def programs(self):
        starts = [i for i, l in enumerate(self.ops) if l.startswith("new") or l.startswith("prog") or l.startswith("srv ") or l.startswith("cnew") or l.startswith("stress") or l.startswith("ext ") or l.startswith("note ")]
        if not starts:
            starts = [0]
        bounds = starts + [len(self.ops)]
        return [(bounds[i], bounds[i + 1]) for i in range(len(starts))]

    def divergences(self, project=None):
        """first line in each program where implementation and model differ (after an optional projection)"""
        out = []
        n = min(len(self.impl), len(self.model))
        pj = project or (lambda op, l: l)
        for (a, b) in self.programs():
            for i in range(a, min(b, n)):
                if self.impl[i] != self.model[i] and pj(self.ops[i], self.impl[i]) != pj(self.ops[i], self.model[i]):
                    out.append((a, b, i))
                    break
            else:
                if b > n:
                    out.append((a, b, n))
        return out


def split_frames(hexs):
    """response stream -> [(opcode, opaque, status)] using only header lengths; None if it does not split"""
    try:
        b = bytes.fromhex(hexs) if hexs not in ("-", "") else b""
    except ValueError:
        return None
    out = []
    while b:
        if len(b) < 24 or b[0] != 0x81:
            return None
        bl = int.from_bytes(b[8:12], "big")
        if len(b) < 24 + bl:
            return None
        out.append((b[1], int.from_bytes(b[12:16], "big"), int.from_bytes(b[6:8], "big")))
        b = b[24 + bl:]
    return out


def policy_projection():
    """what C14/C15 constrain: which keys are stored with how many bytes, the accounted usage, and whether the
    evictions were ones the accounting rule allows — not values, flags, CAS or responses"""
    def pj(op, line):
        if op.startswith("dump") and " | " in line:
            body, tail = line[5:].split(" | ", 1)
            ents = []
            for e in body.split(";"):
                if e:
                    f = dict(x.split("=", 1) for x in e.split(" "))
                    ents.append(f"{f['k']}:{0 if f['v'] == '-' else len(f['v']) // 2}")
            return "dump " + ",".join(sorted(ents)) + " | " + tail
        if op.startswith("req ") or op.startswith("evict"):
            return "-"
        return line
    return pj


def framing_projection(with_dump=False, with_status=False):
    """what the framing properties (C09, C12, C13, C18) constrain: which requests were answered, in what order,
    whether the connection closed — not the store-level content of the answers (other properties own that)"""
    def st(x):
        return x[2] if with_status else (3 if x[2] == 3 else 0)

    def pj(op, line):
        if op.startswith("dump"):
            if not with_dump:
                return "dump"
            return "dump " + ";".join(sorted(e.split(" ")[0] for e in line[5:].split(";") if e))
        if line.startswith("out "):
            parts = line.split(" ")
            fr = split_frames(parts[1])
            if fr is None:
                return line
            return "out " + ",".join(f"{o:02x}:{q:08x}:{st((o, q, s))}" for (o, q, s) in fr) + " " + parts[-1]
        if line.startswith("dec"):
            toks = []
            for t in line.split(" ")[1:]:
                if t.startswith("F") and t != "Fsilent":
                    fr = split_frames(t[1:])
                    toks.append("F?" if not fr else f"F{fr[0][0]:02x}:{fr[0][1]:08x}:{st(fr[0])}")
                else:
                    toks.append(t)
            return "dec " + " ".join(toks)
        return line
    return pj


class HarnessCrash(Exception):
    """the harness process itself died: reported, with the trace, as 'no longer shown to hold'"""
    def __init__(self, suite, outdir, rc, out):
        self.suite, self.outdir, self.rc, self.out = suite, outdir, rc, out
        tr = os.path.join(outdir, "trace.txt")
        self.lines = read_lines(tr) if os.path.exists(tr) else []


class HarnessHang(Exception):
    """the implementation did not return: the trace holds every line up to the one that hangs"""
    def __init__(self, suite, outdir, timeout):
        self.suite, self.outdir, self.timeout = suite, outdir, timeout
        tr = os.path.join(outdir, "trace.txt")
        self.lines = read_lines(tr) if os.path.exists(tr) else []

    def program(self):
        starts = [i for i, l in enumerate(self.lines) if l.startswith("new") or l.startswith("cnew") or l.startswith("stress") or l.startswith("srv ")]
        a = starts[-1] if starts else 0
        return self.lines[a:]


def run_harness(suite, outdir, args, timeout=3000):
    shutil.rmtree(outdir, ignore_errors=True)
    os.makedirs(outdir, exist_ok=True)
    cmd = [BIN, suite, "--out", outdir]
    for k, v in args.items():
        cmd += [f"--{k}", str(v)]
    try:
        rc, out = sh(cmd, timeout=timeout)
    except subprocess.TimeoutExpired:
        raise HarnessHang(suite, outdir, timeout)
    if rc != 0:
        raise HarnessCrash(suite, outdir, rc, out)
    rcm = run_model(os.path.join(outdir, "ops.txt"), os.path.join(outdir, "model.txt"))
    if rcm != 0:
        raise RuntimeError(f"model driver failed rc={rcm}")
    return Run(outdir)


# ------------------------------------------------------------------------------------------------
# attribution of a divergence to the properties whose obligations speak about the diverging command
# ------------------------------------------------------------------------------------------------

def parse_req(line):
    if not line.startswith("req "):
        return None
    hx = line[4:].strip()
    try:
        b = bytes.fromhex(hx) if hx != "-" else b""
    except ValueError:
        return None
    if len(b) < 24:
        return None
    h = {"magic": b[0], "opcode": b[1], "keylen": int.from_bytes(b[2:4], "big"), "extras": b[4], "dtype": b[5],
         "body": int.from_bytes(b[8:12], "big"), "opaque": int.from_bytes(b[12:16], "big"), "cas": int.from_bytes(b[16:24], "big")}
    el, kl = h["extras"], h["keylen"]
    h["key"] = b[24 + el:24 + el + kl].hex() if len(b) >= 24 + el + kl else ""
    h["len"] = len(b)
    return h


STD_EXTRAS = {0x00: 0, 0x09: 0, 0x0c: 0, 0x0d: 0, 0x01: 8, 0x02: 8, 0x03: 8, 0x11: 8, 0x12: 8, 0x13: 8, 0x04: 0, 0x14: 0,
              0x05: 20, 0x06: 20, 0x15: 20, 0x16: 20, 0x0e: 0, 0x0f: 0, 0x19: 0, 0x1a: 0, 0x0a: 0, 0x0b: 0, 0x10: 0,
              0x07: 0, 0x17: 0}
QUIET = {0x09, 0x0d, 0x11, 0x12, 0x13, 0x14, 0x15, 0x16, 0x17, 0x18, 0x19, 0x1a}


def parse_dump(line):
    d = {}
    if not line.startswith("dump"):
        return d
    body = line[4:].strip()
    if not body:
        return d
    for ent in body.split(";"):
        f = dict(x.split("=", 1) for x in ent.split(" "))
        d[f["k"]] = f
    return d


def owners(run, a, b, i):
    """which properties' obligations mention what diverged at line i of program [a,b)"""
    own = set()
    ops = run.ops
    # culprit: the request at i, or the last request before a diverging dump
    j = i
    while j > a and not ops[j].startswith("req "):
        j -= 1
    r = parse_req(ops[j]) if ops[j].startswith("req ") else None
    if r is None:
        return {"C01"}, "no request precedes the divergence"
    opc = r["opcode"]
    std = (r["magic"] == 0x80 and r["dtype"] == 0 and r["len"] == 24 + r["body"]
           and ((opc in STD_EXTRAS and r["extras"] == STD_EXTRAS[opc]) or (opc in (0x08, 0x18) and r["extras"] in (0, 4))))
    impl_i = run.impl[i] if i < len(run.impl) else ""
    model_i = run.model[i] if i < len(run.model) else ""
    if impl_i.startswith("panic"):
        own.add("C10")
    if not std:
        own |= {"C09", "C10"}
        if 0x1c <= opc <= 0x24:
            own.add("C12")
        return own, f"non-standard or unsupported frame opcode {opc:#x}"
    if opc in (0x00, 0x09, 0x0c, 0x0d, 0x01, 0x11):
        own.add("C01")
    if opc in (0x02, 0x12, 0x03, 0x13, 0x0e, 0x0f, 0x19, 0x1a):
        own.add("C06")
    if opc in (0x05, 0x06, 0x15, 0x16):
        own.add("C07")
    if opc in (0x04, 0x14, 0x08, 0x18):
        own.add("C08")
    if opc in (0x0a, 0x0b, 0x10, 0x07, 0x17):
        own |= {"C11", "C12"}
    if r["cas"] != 0 and opc not in (0x00, 0x09, 0x0c, 0x0d):
        own.add("C02")
    if opc in QUIET:
        own.add("C19")
    # what differs
    kind_own = set(own)
    if ops[i].startswith("dump"):
        di, dm = parse_dump(impl_i), parse_dump(model_i)
        fields = set()
        for k in set(di) | set(dm):
            x, y = di.get(k), dm.get(k)
            if x == y:
                continue
            if k != r["key"] and opc not in (0x08, 0x18):
                own.add("C01")  # a command changed another key
                fields.add("other-key")
            if x is None or y is None:
                fields.add("presence")
                if (x or y).get("ttl", "0") != "0":
                    own.add("C05")
                continue
            for fld in ("v", "f", "c", "ts", "ttl"):
                if x[fld] != y[fld]:
                    fields.add(fld)
        if fields and fields <= {"c"}:
            return {"C02"}, f"only CAS values differ after opcode {opc:#x} key {r['key'][:16]}"
        if fields and fields <= {"ts", "ttl", "c"}:
            own = (own - kind_own) | {"C05"} | ({"C02"} if "c" in fields else set())
            return own, f"only expiry bookkeeping differs after opcode {opc:#x} key {r['key'][:16]}"
        if "c" in fields:
            own.add("C02")
        if "ts" in fields or "ttl" in fields:
            own.add("C05")
    else:
        # response differs: was the addressed item expired at that moment (model's view)?
        now = 0
        for l in ops[a:i]:
            if l.startswith("now "):
                now = int(l[4:])
        prev_dump = None
        for jj in range(i - 1, a, -1):
            if ops[jj].startswith("dump"):
                prev_dump = parse_dump(run.model[jj]) if jj < len(run.model) else None
                break
        if prev_dump and r["key"] in prev_dump:
            e = prev_dump[r["key"]]
            if e["ttl"] != "0" and int(e["ts"]) + int(e["ttl"]) <= now:
                own.add("C05")
        if impl_i.startswith("resp ") and model_i.startswith("resp "):
            bi, bm = impl_i[5:].split(" ")[0], model_i[5:].split(" ")[0]
            if len(bi) >= 48 and len(bm) >= 48 and bi[:32] == bm[:32] and bi[32:48] != bm[32:48] and bi[48:] == bm[48:]:
                return {"C02"}, f"only the CAS in the response differs, opcode {opc:#x} key {r['key'][:16]}"
            if len(bi) >= 48 and len(bm) >= 48 and bi[12:16] == bm[12:16] and bi[32:] == bm[32:]:
                # same status, cas and payload: only layout/correlation fields of the header differ
                return {"C11"}, f"only header layout fields of the response differ, opcode {opc:#x} key {r['key'][:16]}"
            if (len(bi) >= 48) != (len(bm) >= 48):
                own |= {"C12", "C19"}
            if len(bi) >= 48 and len(bm) >= 48 and bi[:4] != bm[:4]:
                own.add("C11")
    return own, f"opcode {opc:#x} cas {r['cas']} key {r['key'][:16]}"


# ------------------------------------------------------------------------------------------------
# known findings, corpus, replay files, evidence
# ------------------------------------------------------------------------------------------------

def load_known():
    p = os.path.join(ROOT, "known_findings.json")
    if not os.path.exists(p):
        return []
    return json.load(open(p)).get("findings", [])


def write_replay(prop, tag, payload):
    d = os.path.join(ROOT, "replays")
    os.makedirs(d, exist_ok=True)
    p = os.path.join(d, f"{prop}-{tag}.json")
    with open(p, "w") as f:
        json.dump(payload, f, indent=1)
    return p


def write_evidence(prop, ev):
    d = os.path.join(ROOT, "evidence")
    os.makedirs(d, exist_ok=True)
    with open(os.path.join(d, f"{prop}.json"), "w") as f:
        json.dump(ev, f, indent=1)


def main(argv):
    import props
    if not argv:
        print(__doc__)
        return 2
    prop = argv[0]
    tier = os.environ.get("VERIF_TIER", "quick")
    replay = None
    i = 1
    while i < len(argv):
        if argv[i] == "--tier":
            tier = argv[i + 1]
            i += 2
        elif argv[i] == "--replay":
            replay = argv[i + 1]
            i += 2
        else:
            i += 1
    seed = int(os.environ.get("VERIF_SEED", "1"))
    if prop == "setup":
        return props.setup()
    if prop not in props.PROPS:
        print(f"unknown property {prop}")
        return 2
    # two runs of ONE check share .work/<id> and replays/<id>-*: the second waits for the first
    os.makedirs(WORK, exist_ok=True)
    import fcntl
    own = open(os.path.join(WORK, f"{prop}.run.lock"), "w")
    fcntl.flock(own, fcntl.LOCK_EX)
    try:
        return props.run_check(prop, tier, seed, replay)
    finally:
        fcntl.flock(own, fcntl.LOCK_UN)
        own.close()
