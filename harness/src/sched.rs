//! Suite `sched`: real threads over a gate-controlled `Cache`: a schedule grants one trait call at a time.
//! Every interleaving of small programs at the granularity of the store's internal steps
//! (get_by_key / check_if_expired / set / delete / flush).
use crate::sut::Clock;
use crate::wire::{self, hex};
use bytes::BytesMut;
use memcrs::cache::cache::{impl_details::CacheImplDetails, Cache, CacheMetaData, CachePredicate, CacheReadOnlyView, KeyType, Record, RemoveIfResult, SetStatus};
use memcrs::cache::error::Result as CResult;
use memcrs::memcache::random_policy::RandomPolicy;
use memcrs::memcache::store::MemcStore;
use memcrs::memcache_server::handler::BinaryHandler;
use memcrs::memory_store::store::MemoryStore;
use memcrs::protocol::binary_codec::MemcacheBinaryCodec;
use std::cell::Cell;
use std::sync::atomic::AtomicU64;
use std::sync::{Arc, Condvar, Mutex};
use std::time::{Duration, Instant};
use tokio_util::codec::{Decoder, Encoder};

thread_local! {
    pub static TID: Cell<Option<usize>> = const { Cell::new(None) };
}

#[derive(Clone, Copy, PartialEq, Debug)]
pub enum TState {
    Starting,
    Parked,
    Running,
    Done,
}

pub struct GateState {
    pub turn: Option<usize>,
    pub st: Vec<TState>,
    pub log: Vec<(usize, &'static str)>,
    pub at: Vec<&'static str>,
}

pub struct Gate {
    pub mu: Mutex<GateState>,
    pub cv: Condvar,
}

impl Gate {
    pub fn new(n: usize) -> Gate {
        Gate { mu: Mutex::new(GateState { turn: None, st: vec![TState::Starting; n], log: vec![], at: vec![""; n] }), cv: Condvar::new() }
    }
    /// called by a client thread before every gated call
    pub fn enter(&self, what: &'static str) {
        let id = match TID.with(|t| t.get()) {
            Some(i) => i,
            None => return,
        };
        let mut g = self.mu.lock().unwrap();
        g.st[id] = TState::Parked;
        g.at[id] = what;
        self.cv.notify_all();
        while g.turn != Some(id) {
            g = self.cv.wait(g).unwrap();
        }
        g.turn = None;
        g.st[id] = TState::Running;
        g.log.push((id, what));
    }
    pub fn done_pub(&self, id: usize) {
        self.done(id)
    }
    fn done(&self, id: usize) {
        let mut g = self.mu.lock().unwrap();
        g.st[id] = TState::Done;
        self.cv.notify_all();
    }
    /// scheduler: let thread `i` make one call; false if it did not come back before the watchdog
    pub fn grant(&self, i: usize, watchdog: Duration) -> Option<bool> {
        let mut g = self.mu.lock().unwrap();
        // wait for the thread to be parked or done
        let t0 = Instant::now();
        while !(g.st[i] == TState::Parked || g.st[i] == TState::Done) {
            let (ng, to) = self.cv.wait_timeout(g, Duration::from_millis(50)).unwrap();
            g = ng;
            if to.timed_out() && t0.elapsed() > watchdog {
                return None;
            }
        }
        if g.st[i] == TState::Done {
            return Some(false);
        }
        g.turn = Some(i);
        self.cv.notify_all();
        while g.turn.is_some() || g.st[i] == TState::Running {
            let (ng, to) = self.cv.wait_timeout(g, Duration::from_millis(50)).unwrap();
            g = ng;
            if to.timed_out() && t0.elapsed() > watchdog {
                return None;
            }
        }
        Some(true)
    }
}

/// the gated `Cache`: every call of a registered client thread waits for its turn
pub struct Gated {
    pub inner: Arc<dyn Cache + Send + Sync>,
    pub gate: Arc<Gate>,
}

impl CacheImplDetails for Gated {
    fn get_by_key(&self, key: &KeyType) -> CResult<Record> {
        self.gate.enter("get_by_key");
        self.inner.get_by_key(key)
    }
    fn check_if_expired(&self, key: &KeyType, record: &Record) -> bool {
        self.gate.enter("check_if_expired");
        self.inner.check_if_expired(key, record)
    }
}

impl Cache for Gated {
    // `get` is the trait's default method: get_by_key, then check_if_expired — two gated calls
    fn set(&self, key: KeyType, record: Record) -> CResult<SetStatus> {
        self.gate.enter("set");
        self.inner.set(key, record)
    }
    fn delete(&self, key: KeyType, header: CacheMetaData) -> CResult<Record> {
        self.gate.enter("delete");
        self.inner.delete(key, header)
    }
    fn flush(&self, header: CacheMetaData) {
        self.gate.enter("flush");
        self.inner.flush(header)
    }
    fn len(&self) -> usize {
        self.inner.len()
    }
    fn is_empty(&self) -> bool {
        self.inner.is_empty()
    }
    fn as_read_only(&self) -> Box<dyn CacheReadOnlyView> {
        self.inner.as_read_only()
    }
    fn remove_if(&self, f: &mut CachePredicate) -> RemoveIfResult {
        self.inner.remove_if(f)
    }
    fn remove(&self, key: &KeyType) -> Option<(KeyType, Record)> {
        self.inner.remove(key)
    }
}

pub struct World {
    pub clock: Arc<Clock>,
    pub mem: Arc<MemoryStore>,
    pub policy: Option<Arc<RandomPolicy>>,
    pub limit: u32,
}

impl World {
    pub fn new(limit: u32, policy: Option<u64>) -> World {
        let clock = Arc::new(Clock(AtomicU64::new(0)));
        let mem = Arc::new(MemoryStore::new(clock.clone()));
        let policy = policy.map(|l| Arc::new(RandomPolicy::new(mem.clone(), l)));
        World { clock, mem, policy, limit }
    }
    fn base(&self) -> Arc<dyn Cache + Send + Sync> {
        match &self.policy {
            Some(p) => p.clone(),
            None => self.mem.clone(),
        }
    }
    /// sequential request (setup)
    pub fn req(&self, frame: &[u8]) -> String {
        let h = BinaryHandler::new(Arc::new(MemcStore::new(self.base())));
        canon(frame, &run_one(&h, self.limit, frame))
    }
    pub fn dump(&self) -> String {
        let sut_like = crate::sut::Sut::dump_of(&self.mem);
        sut_like
    }
}

pub fn run_one_pub(h: &BinaryHandler, limit: u32, frame: &[u8]) -> Option<Vec<u8>> {
    run_one(h, limit, frame)
}

fn run_one(h: &BinaryHandler, limit: u32, frame: &[u8]) -> Option<Vec<u8>> {
    let mut codec = MemcacheBinaryCodec::new(limit);
    let mut buf = BytesMut::from(frame);
    match codec.decode(&mut buf) {
        Ok(Some(req)) => h.handle_request(req).map(|r| {
            let mut d = BytesMut::new();
            codec.encode(r, &mut d).unwrap();
            d.to_vec()
        }),
        _ => None,
    }
}

/// canonical result of one command, from its response bytes
pub fn canon(frame: &[u8], resp: &Option<Vec<u8>>) -> String {
    let opc = frame[1];
    match resp {
        None => "silent".to_string(),
        Some(b) => match wire::parse_resp(b) {
            Err(_) => "malformed".to_string(),
            Ok(r) => {
                if r.status != 0 {
                    format!("err:{}", r.status)
                } else if matches!(opc, 0x00 | 0x09 | 0x0c | 0x0d) {
                    let fl = if r.extras.len() == 4 { u32::from_be_bytes(r.extras[..].try_into().unwrap()) } else { 0 };
                    format!("hit:{}:{}:{}", wire::hexd(&r.value), fl, r.cas)
                } else if matches!(opc, 0x05 | 0x06 | 0x15 | 0x16) && r.value.len() == 8 {
                    format!("cnt:{}:{}", r.cas, u64::from_be_bytes(r.value[..].try_into().unwrap()))
                } else {
                    format!("ok:{}", r.cas)
                }
            }
        },
    }
}

pub struct Outcome {
    pub results: Vec<Vec<String>>,
    pub dump: String,
    pub steps: Vec<(usize, &'static str)>,
    pub hung: Option<String>,
    pub usage: Option<u64>,
}

/// a running concurrent phase: threads parked at the gate, driven call by call
pub struct Exec<'a> {
    pub world: &'a World,
    pub gate: Arc<Gate>,
    pub results: Arc<Mutex<Vec<Vec<String>>>>,
    pub handles: Vec<std::thread::JoinHandle<()>>,
    pub n: usize,
    pub hung: Option<String>,
}

impl<'a> Exec<'a> {
    pub fn start(world: &'a World, programs: &[Vec<Vec<u8>>]) -> Exec<'a> {
        let n = programs.len();
        let gate = Arc::new(Gate::new(n));
        let gated: Arc<dyn Cache + Send + Sync> = Arc::new(Gated { inner: world.base(), gate: gate.clone() });
        let memc = Arc::new(MemcStore::new(gated));
        let results: Arc<Mutex<Vec<Vec<String>>>> = Arc::new(Mutex::new(vec![vec![]; n]));
        let mut handles = vec![];
        for (i, prog) in programs.iter().enumerate() {
            let prog = prog.clone();
            let memc = memc.clone();
            let gate = gate.clone();
            let results = results.clone();
            let limit = world.limit;
            handles.push(std::thread::spawn(move || {
                TID.with(|t| t.set(Some(i)));
                crate::sut::CLOCK_TID.with(|t| t.set(Some(i)));
                let h = BinaryHandler::new(memc);
                for f in &prog {
                    let r = std::panic::catch_unwind(std::panic::AssertUnwindSafe(|| run_one(&h, limit, f)));
                    let c = match r {
                        Ok(x) => canon(f, &x),
                        Err(_) => "panic".to_string(),
                    };
                    results.lock().unwrap()[i].push(c);
                }
                gate.done(i);
            }));
        }
        Exec { world, gate, results, handles, n, hung: None }
    }
    /// let thread i make one call; Some(false) if it had already finished
    pub fn grant(&mut self, i: usize) -> Option<bool> {
        if self.hung.is_some() || i >= self.n {
            return None;
        }
        let r = self.gate.grant(i, Duration::from_secs(4));
        if r.is_none() {
            self.hung = Some(format!("the call granted to thread {} (after calls {:?}) did not return within 4 s", i, self.gate.mu.lock().unwrap().log));
        }
        r
    }
    /// the same, but the clock reads of this call return the value from before the last tick
    pub fn grant_stale(&mut self, i: usize) -> Option<bool> {
        crate::sut::STALE_TID.store(i as i64, std::sync::atomic::Ordering::SeqCst);
        let r = self.grant(i);
        // the thread is parked again (or done) when grant returns
        crate::sut::STALE_TID.store(-1, std::sync::atomic::Ordering::SeqCst);
        r
    }
    pub fn tick(&mut self) {
        self.world.clock.0.fetch_add(1, std::sync::atomic::Ordering::SeqCst);
    }
    pub fn completed(&self, i: usize) -> usize {
        self.results.lock().unwrap()[i].len()
    }
    /// wait until thread i is parked or done, then say where
    pub fn parked_at(&mut self, i: usize) -> Option<&'static str> {
        let mut g = self.gate.mu.lock().unwrap();
        let t0 = Instant::now();
        while !(g.st[i] == TState::Parked || g.st[i] == TState::Done) {
            let (ng, _) = self.gate.cv.wait_timeout(g, Duration::from_millis(50)).unwrap();
            g = ng;
            if t0.elapsed() > Duration::from_secs(4) {
                return None;
            }
        }
        if g.st[i] == TState::Done {
            None
        } else {
            Some(g.at[i])
        }
    }
    /// run thread i until one more of its commands has completed
    pub fn run_command(&mut self, i: usize) {
        let before = self.completed(i);
        for _ in 0..8 {
            match self.grant(i) {
                Some(true) => {
                    // wait for the thread to park again so that `completed` is up to date
                    let _ = self.parked_at(i);
                    if self.completed(i) > before {
                        return;
                    }
                }
                _ => return,
            }
        }
    }
    pub fn finish(mut self) -> Outcome {
        if self.hung.is_none() {
            for _ in 0..12 {
                for i in 0..self.n {
                    if self.grant(i).is_none() {
                        break;
                    }
                }
            }
        }
        if self.hung.is_none() {
            for h in self.handles.drain(..) {
                let _ = h.join();
            }
        }
        let steps = self.gate.mu.lock().unwrap().log.clone();
        let results = self.results.lock().unwrap().clone();
        Outcome { results, dump: self.world.dump(), steps, hung: self.hung.clone(), usage: self.world.policy.as_ref().map(|p| p.verif_usage()) }
    }
}

/// one step of a schedule: thread i makes its next call; the one-second clock ticks; thread i makes its next call with
/// the clock reading from before the last tick (written `i~`)
#[derive(Clone, Copy, PartialEq, Debug)]
pub enum Tok {
    Grant(usize),
    Tick,
    Stale(usize),
}

pub fn fmt_toks(t: &[Tok]) -> String {
    t.iter().map(|x| match x { Tok::Grant(i) => i.to_string(), Tok::Tick => "T".to_string(), Tok::Stale(i) => format!("{}~", i) }).collect::<Vec<_>>().join(" ")
}

pub fn parse_toks(ids: &[&str]) -> Vec<Tok> {
    ids.iter().filter_map(|x| {
        if *x == "T" { Some(Tok::Tick) } else if let Some(p) = x.strip_suffix('~') { p.parse().ok().map(Tok::Stale) } else { x.parse().ok().map(Tok::Grant) }
    }).collect()
}

/// run `programs` (one list of request frames per thread) under `sched` (+ completion), on top of `world`
pub fn run_schedule(world: &World, programs: &[Vec<Vec<u8>>], sched: &[Tok]) -> Outcome {
    let mut ex = Exec::start(world, programs);
    for t in sched {
        match t {
            Tok::Tick => ex.tick(),
            Tok::Grant(i) | Tok::Stale(i) => {
                if *i >= ex.n {
                    continue;
                }
                let r = if matches!(t, Tok::Stale(_)) { ex.grant_stale(*i) } else { ex.grant(*i) };
                if r.is_none() {
                    break;
                }
            }
        }
    }
    ex.finish()
}

pub fn fmt_results(r: &[Vec<String>]) -> String {
    r.iter().enumerate().map(|(i, v)| format!("t{}={}", i, v.join(","))).collect::<Vec<_>>().join(" ")
}

pub fn hexes(p: &[Vec<u8>]) -> String {
    p.iter().map(|f| hex(f)).collect::<Vec<_>>().join(" ")
}

// ------------------------------------------------------------------------------------------------
// the suite: programs x initial states x schedules, linearizability oracle, known-finding classes
// ------------------------------------------------------------------------------------------------

use crate::rng::Rng;
use crate::wire::op;

#[derive(Clone, Debug)]
pub struct Case {
    pub init: &'static str, // absent | present | expired
    pub setup: Vec<String>, // op lines run sequentially before the concurrent phase
    pub programs: Vec<Vec<Vec<u8>>>,
}

const KEY: &[u8] = b"k";

/// command pool on one key; `tok` = CAS of the initial item (1 if present), `numeric` initial value for counters
fn pool(profile: &str, rng: &mut Rng, tok: u64) -> Vec<u8> {
    let opq = rng.next() as u32;
    let cas_choices = [0u64, 0, tok, tok, 99];
    let cas = *rng.pick(&cas_choices);
    // 3 and 5: shorter than the age (10) of the expired initial item, yet live when stored now
    let ttl = *rng.pick(&[0u32, 0, 0, 50, 3, 5]);
    let base: usize = if matches!(profile, "C03" | "C02" | "C05") { 4 } else if profile == "C06" { 8 } else { 10 };
    if profile == "C02" {
        // every mutation carries a CAS: the item's current one (mostly) or a stale one
        let c = *rng.pick(&[tok, tok, tok, 99]);
        return match rng.below(4) {
            0 => wire::key_only(op::GET, KEY, 0, opq).bytes(),
            1 | 2 => wire::set_like(op::SET, KEY, &rng.bytes(2), 1, ttl, c, opq).bytes(),
            _ => wire::key_only(op::DELETE, KEY, c, opq).bytes(),
        };
    }
    match rng.below(base as u64) {
        0 => wire::key_only(op::GET, KEY, 0, opq).bytes(),
        // now and then the very bytes the initial item holds (a same-value refresh)
        1 => wire::set_like(op::SET, KEY, &(if rng.chance(1, 3) { b"5".to_vec() } else { rng.bytes(2) }), rng.next() as u32 % 8, ttl, 0, opq).bytes(),
        2 => wire::set_like(op::SET, KEY, &(if rng.chance(1, 3) { b"5".to_vec() } else { rng.bytes(2) }), 1, ttl, if cas == 0 { tok } else { cas }, opq).bytes(),
        3 => wire::key_only(op::DELETE, KEY, *rng.pick(&[0u64, 0, tok, 99]), opq).bytes(),
        4 => wire::set_like(op::ADD, KEY, b"7", 2, ttl, 0, opq).bytes(),
        5 => wire::set_like(op::REPLACE, KEY, b"8", 3, ttl, cas, opq).bytes(),
        6 => wire::append_like(op::APPEND, KEY, &[b'a' + rng.below(26) as u8], cas, opq).bytes(),
        7 => wire::append_like(op::PREPEND, KEY, &[b'A' + rng.below(26) as u8], cas, opq).bytes(),
        8 => wire::delta(op::INCR, KEY, *rng.pick(&[1u64, 2, 10]), 100, *rng.pick(&[0u32, 0, 0xffff_ffff]), cas, opq).bytes(),
        _ => wire::delta(op::DECR, KEY, 1, 50, 0, cas, opq).bytes(),
    }
}

pub fn gen_case(profile: &str, rng: &mut Rng) -> Case {
    // "expired-cas": the expired item was created by a CAS-store on a missing key (client CAS 6, so it carries CAS 7 — a
    // CAS the counter did not issue and that the same store would produce again)
    let init = if profile == "C05" { *rng.pick(&["expired", "expired", "expired", "present"]) } else { *rng.pick(&["absent", "present", "expired", "expired-cas"]) };
    let mut setup = vec!["cnew 4096".to_string()];
    match init {
        "present" => {
            setup.push(format!("creq {}", hex(&wire::set_like(op::SET, KEY, b"5", 9, 0, 0, 1).bytes())));
            setup.push("cnow 10".into());
        }
        "expired" => {
            setup.push(format!("creq {}", hex(&wire::set_like(op::SET, KEY, b"5", 9, 3, 0, 1).bytes())));
            setup.push("cnow 10".into());
        }
        "expired-cas" => {
            setup.push(format!("creq {}", hex(&wire::set_like(op::SET, KEY, b"5", 9, 3, 6, 1).bytes())));
            setup.push("cnow 10".into());
        }
        _ => setup.push("cnow 10".into()),
    }
    let tok = if init == "expired-cas" { 6 } else { 1 };
    let nthreads = if rng.chance(1, 3) || (init == "expired-cas" && rng.chance(1, 2)) { 3 } else { 2 };
    let init_label = init;
    let init = if init == "expired-cas" { "expired" } else { init };
    let mut programs = vec![];
    for _ in 0..nthreads {
        let ncmd = if nthreads == 2 && rng.chance(1, 3) { 2 } else { 1 };
        programs.push((0..ncmd).map(|_| pool(profile, rng, tok)).collect());
    }
    if init_label == "expired-cas" && rng.chance(1, 2) {
        // two readers of the expired item and a client that repeats the CAS-store which created it
        programs = vec![
            vec![wire::key_only(op::GET, KEY, 0, 1).bytes()],
            vec![wire::key_only(op::GET, KEY, 0, 2).bytes()],
            vec![wire::set_like(op::SET, KEY, &rng.bytes(2), 1, *rng.pick(&[0u32, 50]), 6, 3).bytes()],
        ];
    }
    Case { init, setup, programs }
}

/// all interleavings of `counts[i]` steps of thread i (multiset permutations), capped
pub fn interleavings(counts: &[usize], cap: usize, rng: &mut Rng) -> Vec<Vec<usize>> {
    fn rec(counts: &mut Vec<usize>, cur: &mut Vec<usize>, out: &mut Vec<Vec<usize>>, cap: usize) {
        if out.len() >= cap {
            return;
        }
        if counts.iter().all(|c| *c == 0) {
            out.push(cur.clone());
            return;
        }
        for i in 0..counts.len() {
            if counts[i] > 0 {
                counts[i] -= 1;
                cur.push(i);
                rec(counts, cur, out, cap);
                cur.pop();
                counts[i] += 1;
            }
        }
    }
    let total: usize = counts.iter().sum();
    // number of interleavings = total! / prod(counts!)
    let mut num: f64 = 1.0;
    let mut k = 0usize;
    for c in counts {
        for j in 1..=*c {
            k += 1;
            num = num * k as f64 / j as f64;
        }
    }
    if num <= cap as f64 {
        let mut out = vec![];
        rec(&mut counts.to_vec(), &mut vec![], &mut out, cap);
        out
    } else {
        // random sample of distinct interleavings
        let mut out: std::collections::BTreeSet<Vec<usize>> = Default::default();
        let mut tries = 0;
        while out.len() < cap && tries < cap * 20 {
            tries += 1;
            let mut left = counts.to_vec();
            let mut v = Vec::with_capacity(total);
            for _ in 0..total {
                let alive: Vec<usize> = (0..left.len()).filter(|i| left[*i] > 0).collect();
                let i = *rng.pick(&alive);
                left[i] -= 1;
                v.push(i);
            }
            out.insert(v);
        }
        out.into_iter().collect()
    }
}

/// which `MemcStore` get->set windows of the schedule contain a foreign mutating call (known C04 findings)
pub fn windows(steps: &[(usize, &'static str)], programs: &[Vec<Vec<u8>>]) -> Vec<String> {
    let mut out = vec![];
    let n = programs.len();
    let is_rmw = |opc: u8| matches!(opc, 0x02 | 0x03 | 0x0e | 0x0f | 0x05 | 0x06);
    for t in 0..n {
        let mut cur: Option<usize> = None; // position of the open command's get_by_key
        let mut cmd_idx = 0usize;
        for (pos, (who, what)) in steps.iter().enumerate() {
            if *who != t {
                continue;
            }
            match *what {
                "get_by_key" => {
                    if cur.is_some() {
                        cmd_idx += 1; // the previous command ended without a store call
                    }
                    cur = Some(pos);
                }
                "check_if_expired" => {}
                _ => {
                    let opc = programs[t].get(cmd_idx).map(|f| f[1]).unwrap_or(0xff);
                    if let (Some(a), true) = (cur, is_rmw(opc)) {
                        // the store call of a get-then-set command: anything foreign in its window?
                        let foreign = steps[a + 1..pos].iter().any(|(w, x)| *w != t && matches!(*x, "set" | "delete" | "flush"));
                        if foreign {
                            let name = match opc {
                                0x02 => "add",
                                0x03 => "replace",
                                0x0e => "append",
                                0x0f => "prepend",
                                _ => "add_delta",
                            };
                            out.push(format!("window:{}", name));
                        }
                        cur = None;
                        cmd_idx += 1;
                    } else {
                        if cur.take().is_some() {
                            cmd_idx += 1; // a plain get ended
                        }
                        cmd_idx += 1; // this call is a command of its own
                    }
                }
            }
        }
    }
    out.sort();
    out.dedup();
    out
}

/// is there a one-at-a-time order of the commands (respecting each thread's own order) that gives the same
/// results and the same final content on the real code run sequentially?
pub fn linearizable(case: &Case, replay_setup: &dyn Fn() -> World, outcome: &Outcome, ticked: bool) -> bool {
    reference_set(case, replay_setup, ticked).contains(&(outcome.results.clone(), strip_ts(&outcome.dump)))
}

/// every (results, content) a legal one-at-a-time execution of the case can end in — it depends on the case only, so the
/// suite computes it once per case and looks every schedule's outcome up
///
/// `ticked`: the concurrent phase contained one tick of the clock. A command that overlaps the tick may take effect before
/// or after it, so the tick is one more unit of the order (a client of its own); every command runs at the clock value of
/// its place.
pub fn reference_set(case: &Case, replay_setup: &dyn Fn() -> World, ticked: bool) -> std::collections::HashSet<(Vec<Vec<String>>, String)> {
    let mut set: std::collections::HashSet<(Vec<Vec<String>>, String)> = Default::default();
    // one-at-a-time orders of the commands (each thread's own order respected), run on the real code through the
    // same gate with each command's calls contiguous. Looseness of the specification (DESIGN.md section 11):
    // an expired record may vanish at any time, so the collection half (`check_if_expired`) of a get that found an
    // expired record may happen later than the command's place in the order — at any point before the same client's
    // next command — provided the command makes no further call after it (its answer was decided by the first call).
    // A command so split contributes two units, First and Rest, to the order.
    #[derive(Clone, Copy, PartialEq, Debug)]
    enum Unit {
        Whole,
        First,
        Rest,
        Tick,
    }
    let n = case.programs.len();
    let cmds: Vec<(usize, usize)> = case.programs.iter().enumerate().flat_map(|(t, p)| (0..p.len()).map(move |j| (t, j))).collect();
    let nmask: u32 = if case.init == "expired" { 1u32 << cmds.len() } else { 1 };
    for mask in 0..nmask {
        // a set or delete is a single call: nothing to split
        if cmds.iter().enumerate().any(|(b, (t, j))| (mask >> b) & 1 == 1 && matches!(case.programs[*t][*j][1], 0x01 | 0x11 | 0x04 | 0x14 | 0x08 | 0x18)) {
            continue;
        }
        let units: Vec<Vec<Unit>> = (0..n)
            .map(|t| {
                let mut v = vec![];
                for (b, (tt, _)) in cmds.iter().enumerate() {
                    if *tt == t {
                        if (mask >> b) & 1 == 1 {
                            v.push(Unit::First);
                            v.push(Unit::Rest);
                        } else {
                            v.push(Unit::Whole);
                        }
                    }
                }
                v
            })
            .collect();
        let mut units = units;
        if ticked {
            units.push(vec![Unit::Tick]); // pseudo-client n
        }
        let counts: Vec<usize> = units.iter().map(|u| u.len()).collect();
        let mut orders: Vec<Vec<usize>> = vec![];
        fn perms(counts: &[usize], idx: &mut Vec<usize>, cur: &mut Vec<usize>, out: &mut Vec<Vec<usize>>, total: usize) {
            if cur.len() == total {
                out.push(cur.clone());
                return;
            }
            for t in 0..counts.len() {
                if idx[t] < counts[t] {
                    idx[t] += 1;
                    cur.push(t);
                    perms(counts, idx, cur, out, total);
                    cur.pop();
                    idx[t] -= 1;
                }
            }
        }
        let nu = units.len();
        perms(&counts, &mut vec![0; nu], &mut vec![], &mut orders, counts.iter().sum());
        for order in &orders {
            // a Rest directly behind its First is the unsplit command: covered by the mask without that bit
            let mut pos = vec![0usize; nu];
            let mut redundant = false;
            let mut prev: Option<(usize, Unit)> = None;
            for t in order {
                let u = units[*t][pos[*t]];
                pos[*t] += 1;
                if u == Unit::Rest && prev == Some((*t, Unit::First)) {
                    redundant = true;
                    break;
                }
                prev = Some((*t, u));
            }
            if redundant {
                continue;
            }
            let w = replay_setup();
            let mut ex = Exec::start(&w, &case.programs);
            let mut pos = vec![0usize; nu];
            let mut legal = true;
            for t in order {
                let u = units[*t][pos[*t]];
                pos[*t] += 1;
                match u {
                    Unit::Tick => ex.tick(),
                    Unit::Whole => ex.run_command(*t),
                    Unit::First => {
                        let before = ex.completed(*t);
                        if ex.parked_at(*t) != Some("get_by_key") {
                            legal = false;
                            break;
                        }
                        // only a command that finds an EXPIRED record may have its collection postponed
                        let now = w.clock.0.load(std::sync::atomic::Ordering::SeqCst);
                        let found_expired = crate::sut::Sut::records_of(&w.mem).iter().any(|(k, r)| k.as_slice() == KEY && r.ttl != 0 && r.ts + r.ttl as u64 <= now);
                        if !found_expired {
                            legal = false;
                            break;
                        }
                        ex.grant(*t);
                        if !(ex.parked_at(*t) == Some("check_if_expired") && ex.completed(*t) == before) {
                            legal = false; // nothing to postpone
                            break;
                        }
                    }
                    Unit::Rest => {
                        let before = ex.completed(*t);
                        // the late collection may only make an EXPIRED record vanish: that is all the specification's
                        // looseness allows (the reference must not inherit a defect of the collector itself)
                        let recs_before = crate::sut::Sut::records_of(&w.mem);
                        ex.grant(*t);
                        let _ = ex.parked_at(*t);
                        if ex.completed(*t) == before {
                            legal = false; // the command went on to a store call: not a one-at-a-time execution
                            break;
                        }
                        // its answer was decided when it found the expired record: the key counts as absent
                        let last = ex.results.lock().unwrap()[*t].last().cloned().unwrap_or_default();
                        if !(last == "err:1" || last == "silent") {
                            legal = false;
                            break;
                        }
                        let recs_after = crate::sut::Sut::records_of(&w.mem);
                        let now = w.clock.0.load(std::sync::atomic::Ordering::SeqCst);
                        for (k, r) in &recs_before {
                            let still = recs_after.iter().any(|(k2, r2)| k2 == k && r2 == r);
                            let expired = r.ttl != 0 && r.ts + r.ttl as u64 <= now;
                            if !still && !expired {
                                legal = false;
                            }
                        }
                        if recs_after.iter().any(|(k2, r2)| !recs_before.iter().any(|(k, r)| k == k2 && r == r2)) {
                            legal = false;
                        }
                        if !legal {
                            break;
                        }
                    }
                }
            }
            let o = ex.finish();
            if legal && o.hung.is_none() {
                set.insert((o.results.clone(), strip_ts(&o.dump)));
            }
        }
    }
    set
}

/// CAS numbers are opaque tokens: compare dumps and results up to the numbering of counter-issued values
fn strip_ts(d: &str) -> String {
    d.to_string()
}

pub struct SchedRunner {
    pub world: World,
    pub programs: Vec<Vec<Vec<u8>>>,
    pub setup: Vec<String>,
}

pub fn apply_setup(lines: &[String]) -> World {
    let mut w = World::new(4096, None);
    for l in lines {
        let p: Vec<&str> = l.split(' ').collect();
        match p.as_slice() {
            ["cnew", l] => w = World::new(l.parse().unwrap(), None),
            ["cnow", t] => w.clock.0.store(t.parse().unwrap(), std::sync::atomic::Ordering::SeqCst),
            ["creq", hx] => {
                w.req(&wire::unhex(hx).unwrap());
            }
            _ => {}
        }
    }
    w
}

impl SchedRunner {
    pub fn new() -> SchedRunner {
        SchedRunner { world: World::new(4096, None), programs: vec![], setup: vec![] }
    }
    /// returns (output line, outcome of a `sched` line)
    pub fn exec(&mut self, line: &str) -> (String, Option<Outcome>) {
        let p: Vec<&str> = line.split(' ').collect();
        match p.as_slice() {
            ["cnew", l] => {
                self.world = World::new(l.parse().unwrap(), None);
                self.programs.clear();
                self.setup = vec![line.to_string()];
                ("ok".into(), None)
            }
            ["cnow", t] => {
                self.world.clock.0.store(t.parse().unwrap(), std::sync::atomic::Ordering::SeqCst);
                self.setup.push(line.to_string());
                ("ok".into(), None)
            }
            ["creq", hx] => {
                self.setup.push(line.to_string());
                (self.world.req(&wire::unhex(hx).unwrap()), None)
            }
            [th, i, frames @ ..] if *th == "thread" => {
                let i: usize = i.parse().unwrap();
                while self.programs.len() <= i {
                    self.programs.push(vec![]);
                }
                self.programs[i] = frames.iter().map(|f| wire::unhex(f).unwrap()).collect();
                ("ok".into(), None)
            }
            [sc, ids @ ..] if *sc == "sched" => {
                let sched: Vec<Tok> = parse_toks(ids);
                let o = run_schedule(&self.world, &self.programs, &sched);
                (format!("res {} | {}", fmt_results(&o.results), o.dump), Some(o))
            }
            _ => ("bad-op".into(), None),
        }
    }
}

pub struct SchedStats {
    pub cases: u64,
    pub schedules: u64,
    pub nonlinearizable_known: std::collections::BTreeMap<String, u64>,
    pub distinct_outcomes: std::collections::HashSet<String>,
    pub samples: Vec<String>,
}

/// generate cases, enumerate (or sample) their interleavings, run each on the real code
#[allow(clippy::type_complexity)]
pub fn run_suite(profile: &str, seed: u64, count: u64, per_case: usize, mut trace: Option<std::fs::File>) -> (Vec<String>, Vec<String>, Vec<(usize, usize, Vec<&'static str>, String)>, SchedStats) {
    let mut master = Rng::new(seed ^ 0x5c4ed);
    let mut ops: Vec<String> = vec![];
    let mut outs: Vec<String> = vec![];
    let mut viols: Vec<(usize, usize, Vec<&'static str>, String)> = vec![]; // (start, end, props, msg)
    let mut st = SchedStats { cases: 0, schedules: 0, nonlinearizable_known: Default::default(), distinct_outcomes: Default::default(), samples: vec![] };
    for _ in 0..count {
        let mut rng = master.fork();
        let case = gen_case(profile, &mut rng);
        st.cases += 1;
        // upper bound of calls per command: 3 (get_by_key, check_if_expired, set)
        let counts: Vec<usize> = case.programs.iter().map(|p| p.len() * 3).collect();
        let scheds = interleavings(&counts, per_case, &mut rng);
        let setup0 = case.setup.clone();
        let refs = reference_set(&case, &|| apply_setup(&setup0), false);
        let mut refs_ticked: Option<std::collections::HashSet<(Vec<Vec<String>>, String)>> = None;
        for sched in scheds {
            // one schedule in four: the clock ticks somewhere inside the phase, and (half of those) the first call granted to
            // some client after the tick still carries the clock reading from before it
            let mut sched: Vec<Tok> = sched.into_iter().map(Tok::Grant).collect();
            let mut ticked = false;
            if matches!(profile, "C03" | "C05" | "C02" | "C06") && !sched.is_empty() && rng.chance(1, 4) {
                let p = rng.below(sched.len() as u64 + 1) as usize;
                sched.insert(p, Tok::Tick);
                ticked = true;
                if rng.chance(1, 2) {
                    let who = rng.below(case.programs.len() as u64) as usize;
                    if let Some(q) = sched.iter().enumerate().position(|(ix, t)| ix > p && *t == Tok::Grant(who)) {
                        sched[q] = Tok::Stale(who);
                    }
                }
                if refs_ticked.is_none() {
                    refs_ticked = Some(reference_set(&case, &|| apply_setup(&setup0), true));
                }
            }
            let refs = if ticked { refs_ticked.as_ref().unwrap() } else { &refs };
            st.schedules += 1;
            let start = ops.len();
            if let Some(f) = &mut trace {
                use std::io::Write;
                let _ = writeln!(f, "cnew 4096");
                for l in case.setup.iter().skip(1) {
                    let _ = writeln!(f, "{}", l);
                }
                for (i, p) in case.programs.iter().enumerate() {
                    let _ = writeln!(f, "thread {} {}", i, hexes(p));
                }
                let _ = writeln!(f, "sched {}", fmt_toks(&sched));
                let _ = f.flush();
            }
            let mut r = SchedRunner::new();
            for l in &case.setup {
                let (o, _) = r.exec(l);
                ops.push(l.clone());
                outs.push(o);
            }
            for (i, p) in case.programs.iter().enumerate() {
                let l = format!("thread {} {}", i, hexes(p));
                let (o, _) = r.exec(&l);
                ops.push(l);
                outs.push(o);
            }
            let l = format!("sched {}", fmt_toks(&sched));
            let (o, outcome) = r.exec(&l);
            ops.push(l);
            outs.push(o.clone());
            let outcome = outcome.unwrap();
            st.distinct_outcomes.insert(format!("{}|{}|{}", case.init, hexes(&case.programs.concat()), o));
            if st.samples.len() < 3 {
                st.samples.push(format!("init {} programs {:?} sched {:?} -> {}", case.init, case.programs.iter().map(|p| p.iter().map(|f| format!("{:#04x}", f[1])).collect::<Vec<_>>()).collect::<Vec<_>>(), sched, &o[..o.len().min(140)]));
            }
            let end = ops.len();
            if let Some(h) = &outcome.hung {
                viols.push((start, end, vec!["C16"], h.clone()));
                return (ops, outs, viols, st);
            }
            if outcome.results.iter().flatten().any(|x| x == "panic") {
                viols.push((start, end, vec!["C10"], "a command panicked under this schedule".to_string()));
            }
            let lin = refs.contains(&(outcome.results.clone(), strip_ts(&outcome.dump)));
            if !lin {
                let ws = windows(&outcome.steps, &case.programs);
                let only_c03_cmds = case.programs.iter().flatten().all(|f| matches!(f[1], 0x00 | 0x01 | 0x04));
                let msg = format!(
                    "not linearizable: init {} programs [{}] calls {:?} -> {} ; classes [{}]",
                    case.init,
                    case.programs.iter().map(|p| hexes(p)).collect::<Vec<_>>().join(" | "),
                    outcome.steps,
                    fmt_results(&outcome.results),
                    ws.join(",")
                );
                for w in &ws {
                    *st.nonlinearizable_known.entry(w.clone()).or_insert(0) += 1;
                }
                let mut props: Vec<&'static str> = if only_c03_cmds { vec!["C03", "C04"] } else { vec!["C04"] };
                if only_c03_cmds {
                    props.extend(also_broken(&case.programs, &outcome));
                } else if ws.is_empty() {
                    props.extend(also_broken_rmw(&case.programs, case.init));
                }
                viols.push((start, end, props, msg));
            }
        }
    }
    (ops, outs, viols, st)
}

/// a non-linearizable outcome of programs with read-modify-write commands that NO get->set window explains (no foreign
/// mutating call inside any of them): the presence test or the write-back of a conditional store / counter command went
/// wrong by itself — C06 / C07 for the command kinds involved, C05 when the item the commands found was an expired one
pub fn also_broken_rmw(programs: &[Vec<Vec<u8>>], init: &str) -> Vec<&'static str> {
    let mut out = vec![];
    let opcs: Vec<u8> = programs.iter().flatten().map(|f| f[1]).collect();
    if opcs.iter().any(|o| matches!(o, 0x02 | 0x03 | 0x0e | 0x0f | 0x12 | 0x13 | 0x19 | 0x1a)) {
        out.push("C06");
    }
    if opcs.iter().any(|o| matches!(o, 0x05 | 0x06 | 0x15 | 0x16)) {
        out.push("C07");
    }
    if init == "expired" {
        out.push("C05");
    }
    out
}

/// which other properties a non-linearizable outcome of get/set/delete programs also breaks:
/// C02 (and C08 for deletes) when an acknowledged mutation carried a CAS — the CAS guard let it through although no
/// one-at-a-time order allows it; C05 when the last mutating call was an acknowledged store and the item is
/// nevertheless gone at rest — it vanished before its deadline without being deleted or overwritten
pub fn also_broken(programs: &[Vec<Vec<u8>>], o: &Outcome) -> Vec<&'static str> {
    let mut out = vec![];
    let cas_of = |f: &Vec<u8>| u64::from_be_bytes(f[16..24].try_into().unwrap());
    for (t, p) in programs.iter().enumerate() {
        for (i, f) in p.iter().enumerate() {
            let acked = o.results.get(t).and_then(|r| r.get(i)).map(|r| r.starts_with("ok")).unwrap_or(false);
            if acked && cas_of(f) != 0 && matches!(f[1], 0x01 | 0x04) {
                if !out.contains(&"C02") {
                    out.push("C02");
                }
                if f[1] == 0x04 && !out.contains(&"C08") {
                    out.push("C08");
                }
            }
        }
    }
    // command index of every call: a get_by_key, set or delete call begins a command of its thread
    let mut idx = vec![0usize; programs.len()];
    let mut last: Option<(usize, usize, &'static str)> = None;
    for (who, what) in &o.steps {
        if matches!(*what, "get_by_key" | "set" | "delete") {
            if matches!(*what, "set" | "delete") {
                last = Some((*who, idx[*who], *what));
            }
            idx[*who] += 1;
        }
    }
    if let Some((t, i, "set")) = last {
        let acked = o.results.get(t).and_then(|r| r.get(i)).map(|r| r.starts_with("ok")).unwrap_or(false);
        if acked && !o.dump.contains("k=") {
            out.push("C05");
        }
    }
    out
}

/// C14, concurrent clause, at the granularity of RandomPolicy's trait calls: small programs of stores,
/// deletes and reads (some of expired items) under every interleaving; at rest the accounting must still
/// cover what is stored, and the stored bytes must be within limit + the records written concurrently
pub fn run_policy_suite(seed: u64, count: u64, per_case: usize, mut trace: Option<std::fs::File>) -> (Vec<String>, Vec<String>, Vec<(usize, usize, Vec<&'static str>, String)>, SchedStats) {
    let mut master = Rng::new(seed ^ 0xb01);
    let mut ops: Vec<String> = vec![];
    let mut outs: Vec<String> = vec![];
    let mut viols: Vec<(usize, usize, Vec<&'static str>, String)> = vec![];
    let mut st = SchedStats { cases: 0, schedules: 0, nonlinearizable_known: Default::default(), distinct_outcomes: Default::default(), samples: vec![] };
    for _ in 0..count {
        let mut rng = master.fork();
        let limit: u64 = *rng.pick(&[150u64, 300, 1000]);
        let keys: Vec<Vec<u8>> = vec![b"a".to_vec(), b"b".to_vec(), b"c".to_vec()];
        // setup: a few items, some with a TTL that will have passed
        let mut setup_frames: Vec<Vec<u8>> = vec![];
        for k in &keys {
            if rng.chance(2, 3) {
                let ttl = *rng.pick(&[0u32, 3, 3]);
                setup_frames.push(wire::set_like(op::SET, k, &rng.bytes(rng.clone().below(40) as usize + 1), 0, ttl, 0, 1).bytes());
            }
        }
        let nthreads = if rng.chance(1, 2) { 3 } else { 2 };
        let programs: Vec<Vec<Vec<u8>>> = (0..nthreads)
            .map(|_| {
                (0..rng.range(1, 2))
                    .map(|_| {
                        let k = rng.pick(&keys).clone();
                        match rng.below(5) {
                            0 | 1 => wire::key_only(op::GET, &k, 0, 2).bytes(),
                            2 => wire::key_only(op::DELETE, &k, 0, 3).bytes(),
                            _ => wire::set_like(op::SET, &k, &rng.bytes(rng.clone().below(60) as usize + 1), 0, 0, 0, 4).bytes(),
                        }
                    })
                    .collect()
            })
            .collect();
        st.cases += 1;
        let written: u64 = programs.iter().flatten().filter(|f| f[1] == op::SET).map(|f| f.len() as u64 - 24 - 8 - 1 + 24).sum();
        let counts: Vec<usize> = programs.iter().map(|p| p.len() * 2).collect();
        for sched in interleavings(&counts, per_case, &mut rng) {
            st.schedules += 1;
            let desc = format!("note policy-sched limit={} setup=[{}] programs=[{}] sched={:?}", limit, hexes(&setup_frames), programs.iter().map(|p| hexes(p)).collect::<Vec<_>>().join(" | "), sched).replace(", ", ",");
            if let Some(f) = &mut trace {
                use std::io::Write;
                let _ = writeln!(f, "{}", desc);
                let _ = f.flush();
            }
            let start = ops.len();
            let w = World::new(4096, Some(limit));
            for f in &setup_frames {
                w.req(f);
            }
            w.clock.0.store(10, std::sync::atomic::Ordering::SeqCst);
            let o = run_schedule(&w, &programs, &sched.iter().map(|i| Tok::Grant(*i)).collect::<Vec<_>>());
            ops.push(desc);
            outs.push("ok".into());
            let end = ops.len();
            if let Some(h) = &o.hung {
                viols.push((start, end, vec!["C16", "C14"], h.clone()));
                return (ops, outs, viols, st);
            }
            let stored: u64 = crate::sut::Sut::records_of(&w.mem).iter().map(|(_, r)| 24 + r.value.len() as u64).sum();
            let usage = o.usage.unwrap_or(0);
            st.distinct_outcomes.insert(format!("{}|{}|{}", stored, usage, fmt_results(&o.results)));
            if usage < stored {
                viols.push((start, end, vec!["C14", "C15"], format!("at rest after a concurrent phase the accounted usage {} is below the {} bytes stored (calls {:?}): later stores will not evict although the limit {} is exceeded", usage, stored, o.steps, limit)));
            }
            if stored > limit + written {
                viols.push((start, end, vec!["C14"], format!("{} bytes stored at rest under limit {} although only {} bytes were written by the concurrent stores", stored, limit, written)));
            }
        }
    }
    (ops, outs, viols, st)
}
