//! Suite `server`: a real MemcacheTcpServer with a small connection limit and a short idle timeout,
//! scripted connection life-cycles, "who is served" probed with noops.
use crate::net;
use crate::rng::Rng;
use crate::wire::{self, op};
use memcrs::cache::cache::Cache;
use memcrs::memory_store::store::MemoryStore;
use std::collections::BTreeMap;
use std::io::{Read, Write};
use std::net::{Shutdown, TcpStream};
use std::sync::Arc;
use std::time::{Duration, Instant};

pub const ITEM_LIMIT: u32 = 1024;
const PROBE_MS: u64 = 220;

pub struct Script {
    pub server: Option<net::Server>,
    pub conns: BTreeMap<usize, TcpStream>,
    pub timeout_ms: u64,
    pub probe_id: u32,
    pub notes: Vec<String>,
    pub stalled: std::collections::BTreeSet<usize>,
    /// client sockets of connections the server has ended, deliberately left open
    pub lingering: Vec<TcpStream>,
    pub last_served: Vec<usize>,
    /// servers with an even limit sit on a store behind RandomPolicy with a small memory limit; its clock
    pub policy_clock: Option<Arc<crate::sut::Clock>>,
}

fn noop(opaque: u32) -> Vec<u8> {
    wire::bare(op::NOOP, opaque).bytes()
}

fn read_for(s: &mut TcpStream, ms: u64) -> (Vec<u8>, bool) {
    let mut out = vec![];
    let mut buf = [0u8; 4096];
    let t0 = Instant::now();
    let mut eof = false;
    s.set_read_timeout(Some(Duration::from_millis(10))).ok();
    while t0.elapsed() < Duration::from_millis(ms) {
        match s.read(&mut buf) {
            Ok(0) => {
                eof = true;
                break;
            }
            Ok(n) => out.extend_from_slice(&buf[..n]),
            Err(e) if e.kind() == std::io::ErrorKind::WouldBlock || e.kind() == std::io::ErrorKind::TimedOut => {}
            Err(_) => {
                eof = true;
                break;
            }
        }
    }
    (out, eof)
}

impl Script {
    pub fn new() -> Script {
        Script { server: None, conns: BTreeMap::new(), timeout_ms: 1000, probe_id: 0, notes: vec![], stalled: Default::default(), lingering: vec![], last_served: vec![], policy_clock: None }
    }

    pub fn exec(&mut self, line: &str) -> String {
        let p: Vec<&str> = line.split(' ').collect();
        match p.as_slice() {
            ["srv", limit, timeout] => {
                let clock = Arc::new(crate::sut::Clock(std::sync::atomic::AtomicU64::new(0)));
                let lim: u32 = limit.parse().unwrap();
                // every other server: behind the eviction policy with a memory limit that the connections' work reaches —
                // a connection's slot comes back whatever the store had to do for it (evict, collect expired items)
                let store: Arc<dyn Cache + Send + Sync> = if lim % 2 == 0 {
                    self.policy_clock = Some(clock.clone());
                    Arc::new(memcrs::memcache::random_policy::RandomPolicy::new(Arc::new(MemoryStore::new(clock)), 2000))
                } else {
                    self.policy_clock = None;
                    Arc::new(MemoryStore::new(clock))
                };
                let t: u32 = timeout.parse().unwrap();
                self.timeout_ms = t as u64 * 1000;
                self.conns.clear();
                self.lingering.clear();
                self.server = Some(net::start_server(store, ITEM_LIMIT, limit.parse().unwrap(), t));
                "ok".into()
            }
            ["open", i] => {
                let port = self.server.as_ref().unwrap().port;
                let s = match TcpStream::connect(("127.0.0.1", port)) {
                    Ok(s) => s,
                    Err(e) => {
                        self.notes.push(format!("server-dead: connection {} cannot be opened ({}): the server has stopped accepting connections at this point of the script", i, e));
                        return "connect-failed".into();
                    }
                };
                s.set_nodelay(true).ok();
                self.conns.insert(i.parse().unwrap(), s);
                std::thread::sleep(Duration::from_millis(15));
                "ok".into()
            }
            ["probe"] => {
                self.probe_id += 1;
                let pid = self.probe_id;
                // a connection stalled in the middle of a request cannot be probed (the noop would become part of it)
                let ids: Vec<usize> = self.conns.keys().cloned().filter(|i| !self.stalled.contains(i)).collect();
                for i in &ids {
                    let _ = self.conns.get_mut(i).unwrap().write_all(&noop((pid << 8) | *i as u32));
                }
                let mut served: Vec<usize> = vec![];
                let t0 = Instant::now();
                let mut pending: Vec<usize> = ids.clone();
                let mut acc: BTreeMap<usize, Vec<u8>> = BTreeMap::new();
                while !pending.is_empty() && t0.elapsed() < Duration::from_millis(PROBE_MS) {
                    let mut still = vec![];
                    for i in pending {
                        let s = self.conns.get_mut(&i).unwrap();
                        let (b, eof) = read_for(s, 5);
                        let a = acc.entry(i).or_default();
                        a.extend(b);
                        let want = (pid << 8) | i as u32;
                        let got = wire::split_resps(a).ok().map_or(false, |fr| fr.iter().any(|f| wire::parse_resp(f).map_or(false, |r| r.opaque == want)));
                        if got {
                            served.push(i);
                        } else if !eof {
                            still.push(i);
                        }
                    }
                    pending = still;
                }
                served.sort();
                self.last_served = served.clone();
                format!("served {}", served.iter().map(|i| i.to_string()).collect::<Vec<_>>().join(" ")).trim_end().to_string()
            }
            ["stall", i, how] => {
                // part of a request, then silence: only the idle timeout can end this connection
                let i: usize = i.parse().unwrap();
                if !self.last_served.contains(&i) {
                    return "ok".into(); // only a served connection can stall in the middle of a request
                }
                if let Some(s) = self.conns.get_mut(&i) {
                    let b = match *how {
                        "oversize" => {
                            let mut f = wire::set_like(op::SET, b"k", b"", 0, 0, 0, 5);
                            f.body_len = Some(ITEM_LIMIT + 500);
                            let mut b = f.bytes();
                            b.extend(vec![7u8; 100]);
                            b
                        }
                        "header" => wire::set_like(op::SET, b"k", b"0123456789", 0, 0, 0, 5).bytes()[..10].to_vec(),
                        _ => wire::set_like(op::SET, b"k", b"0123456789", 0, 0, 0, 5).bytes()[..30].to_vec(),
                    };
                    let _ = s.write_all(&b);
                    self.stalled.insert(i);
                }
                std::thread::sleep(Duration::from_millis(5));
                "ok".into()
            }
            ["end", i, how] => {
                let i: usize = i.parse().unwrap();
                self.stalled.remove(&i);
                if let Some(mut s) = self.conns.remove(&i) {
                    match *how {
                        "close" => {
                            // before closing, an even-numbered connection of a policy-backed server works: an item with a
                            // TTL, the clock passes its deadline, then stores that take the memory beyond its limit
                            if let (Some(clock), true) = (&self.policy_clock, i % 2 == 0) {
                                let mut b = wire::set_like(op::SET, format!("e{}", i).as_bytes(), &vec![b'e'; 100], 0, 1, 0, 1).bytes();
                                let _ = s.write_all(&b);
                                read_for(&mut s, 30);
                                clock.0.fetch_add(5, std::sync::atomic::Ordering::SeqCst);
                                b.clear();
                                for j in 0..14 {
                                    b.extend(wire::set_like(op::SET, format!("w{}_{}", i, j).as_bytes(), &vec![b'w'; 200], 0, 0, 0, 2 + j).bytes());
                                }
                                let _ = s.write_all(&b);
                                read_for(&mut s, 60);
                            }
                        }
                        "quit" => {
                            let _ = s.write_all(&wire::bare(op::QUIT, 1).bytes());
                            read_for(&mut s, 250);
                        }
                        "quitq" => {
                            let _ = s.write_all(&wire::bare(op::QUITQ, 1).bytes());
                            read_for(&mut s, 250);
                        }
                        // the server ends these connections itself; the client never closes its socket (kept until the
                        // script is over): the slot must come back all the same
                        "quit-open" | "quitq-open" | "proto-open" => {
                            let mut f = wire::bare(if *how == "quitq-open" { op::QUITQ } else if *how == "quit-open" { op::QUIT } else { op::NOOP }, 1).bytes();
                            if *how == "proto-open" {
                                f[0] = 0x55;
                            }
                            let _ = s.write_all(&f);
                            read_for(&mut s, 250);
                            self.lingering.push(s);
                            std::thread::sleep(Duration::from_millis(40));
                            return "ok".into();
                        }
                        "mid" => {
                            let f = wire::set_like(op::SET, b"k", b"0123456789", 0, 0, 0, 5).bytes();
                            let _ = s.write_all(&f[..30]);
                        }
                        "proto" => {
                            let mut f = wire::bare(op::NOOP, 1).bytes();
                            f[0] = 0x55;
                            let _ = s.write_all(&f);
                            read_for(&mut s, 250);
                        }
                        "oversize" => {
                            let mut f = wire::set_like(op::SET, b"k", b"", 0, 0, 0, 5);
                            f.body_len = Some(ITEM_LIMIT + 500);
                            let mut b = f.bytes();
                            b.extend(vec![7u8; 100]);
                            let _ = s.write_all(&b);
                            std::thread::sleep(Duration::from_millis(20));
                        }
                        _ => {}
                    }
                    let _ = s.shutdown(Shutdown::Both);
                    drop(s);
                }
                std::thread::sleep(Duration::from_millis(40));
                "ok".into()
            }
            [idle, keep @ ..] if *idle == "idle" => {
                // everybody stays silent for longer than the idle timeout, except the connections kept alive
                let keep: Vec<usize> = keep.iter().filter_map(|k| k.parse().ok()).collect();
                // long enough for every connection served at the start to time out (their timers started at most a probe
                // earlier), short enough that none picked up meanwhile does (its timer starts when it is served)
                let total = self.timeout_ms + 150;
                let slice = self.timeout_ms / 3;
                let t0 = Instant::now();
                while (t0.elapsed().as_millis() as u64) < total {
                    for k in &keep {
                        if let Some(s) = self.conns.get_mut(k) {
                            self.probe_id += 1;
                            let _ = s.write_all(&noop((self.probe_id << 8) | *k as u32));
                            read_for(s, 20);
                        }
                    }
                    let left = total.saturating_sub(t0.elapsed().as_millis() as u64);
                    std::thread::sleep(Duration::from_millis(slice.min(left).max(1)));
                }
                // connections the server timed out have been closed by it
                let ids: Vec<usize> = self.conns.keys().cloned().collect();
                for i in ids {
                    if keep.contains(&i) {
                        continue;
                    }
                    let s = self.conns.get_mut(&i).unwrap();
                    let (_, eof) = read_for(s, 5);
                    if eof {
                        self.conns.remove(&i);
                        self.stalled.remove(&i);
                    } else if self.stalled.contains(&i) {
                        self.notes.push(format!("connection {} was served, sent part of a request and then stayed silent for {} ms (idle timeout {} ms): the server has not closed it, its slot is not returned", i, total, self.timeout_ms));
                    }
                }
                "ok".into()
            }
            _ => "bad-op".into(),
        }
    }
}

/// one generated life-cycle script
pub fn gen_script(rng: &mut Rng) -> Vec<String> {
    let limit = rng.range(1, 4);
    let mut ops = vec![format!("srv {} 1", limit)];
    let mut open: Vec<u64> = vec![];
    let mut next = 0u64;
    let mut idles = 0;
    let steps = rng.range(6, 14);
    for _ in 0..steps {
        let k = rng.below(10);
        if (k < 5 && (open.len() as u64) < limit + 3) || open.is_empty() {
            ops.push(format!("open {}", next));
            open.push(next);
            next += 1;
        } else if k < 9 {
            let idx = rng.below(open.len() as u64) as usize;
            let i = open.remove(idx);
            let how = *rng.pick(&["close", "close", "quit", "quitq", "mid", "proto", "oversize", "quit-open", "quitq-open", "proto-open"]);
            ops.push(format!("end {} {}", i, how));
        } else if idles < 1 && !open.is_empty() {
            idles += 1;
            ops.push("probe".into());
            for i in open.iter() {
                if rng.chance(1, 3) {
                    ops.push(format!("stall {} {}", i, rng.pick(&["mid", "oversize", "header"])));
                }
            }
            // keep a random subset alive
            let stalled_now: Vec<u64> = ops.iter().filter_map(|o| o.strip_prefix("stall ").and_then(|r| r.split(' ').next().unwrap().parse().ok())).collect();
            let keep: Vec<u64> = open.iter().cloned().filter(|i| !stalled_now.contains(i) && rng.chance(1, 3)).collect();
            ops.push(format!("idle {}", keep.iter().map(|k| k.to_string()).collect::<Vec<_>>().join(" ")).trim_end().to_string());
            ops.push("probe".into());
            // the harness learns who is still open from the probe; the generator keeps everyone nominally open:
            // ending an already timed-out connection is a no-op on both sides
        }
        ops.push("probe".into());
    }
    // all connections end, then `limit` fresh ones must be served and one more must wait
    for i in open.drain(..) {
        ops.push(format!("end {} close", i));
    }
    ops.push("probe".into());
    for _ in 0..=limit {
        ops.push(format!("open {}", next));
        next += 1;
    }
    ops.push("probe".into());
    ops
}
