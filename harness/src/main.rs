mod gen;
mod net;
mod oracle;
mod rng;
mod seq;
mod stream;
mod sut;
mod wire;

use std::collections::HashMap;

fn args() -> (String, HashMap<String, String>) {
    let a: Vec<String> = std::env::args().collect();
    let cmd = a.get(1).cloned().unwrap_or_default();
    let mut m = HashMap::new();
    let mut i = 2;
    while i + 1 < a.len() {
        m.insert(a[i].trim_start_matches("--").to_string(), a[i + 1].clone());
        i += 2;
    }
    (cmd, m)
}

fn main() {
    let (cmd, m) = args();
    let get = |k: &str, d: &str| m.get(k).cloned().unwrap_or(d.to_string());
    let seed: u64 = get("seed", "1").parse().unwrap();
    let count: u64 = get("count", "100").parse().unwrap();
    let out = get("out", "/verif/.work/run");
    let profile = get("profile", "ALL");
    sut::quiet_panics();
    std::fs::create_dir_all(&out).ok();
    let trace = || std::fs::File::create(format!("{}/trace.txt", out)).ok();
    match cmd.as_str() {
        "seq" => {
            let mut r = seq::Runner::new();
            r.trace = trace();
            r.generate(&profile, seed, count);
            r.write(&out, "seq", &profile, seed);
        }
        "codec" | "conn" => {
            let mut r = seq::Runner::new();
            r.trace = trace();
            let st = stream::run(&mut r, &cmd, &profile, seed, count, get("tier", "quick") == "thorough");
            let kinds: Vec<String> = st.kinds.iter().map(|(k, v)| format!("\"{}\":{}", k, v)).collect();
            let samples: Vec<String> = st.samples.iter().map(|s| format!("\"{}\"", s.replace('\\', "/").replace('"', "'"))).collect();
            r.extra = format!(",\"streams\":{},\"cases\":{},\"distinct_streams\":{},\"frame_kinds\":{{{}}},\"stream_samples\":[{}]", st.streams, st.cases, st.distinct.len(), kinds.join(","), samples.join(","));
            r.nontrivial = st.distinct.len() as u64;
            r.write(&out, &cmd, &profile, seed);
        }
        "policy" => {
            let mut r = seq::Runner::new();
            r.trace = trace();
            r.generate_policy(&profile, seed, count);
            let dh: Vec<String> = r.drift_hist.iter().map(|(k, v)| format!("\"{}\":{}", k, v)).collect();
            r.extra = format!(",\"evictions\":{},\"drift_classes\":{{{}}}", r.evictions, dh.join(","));
            r.write(&out, "policy", &profile, seed);
        }
        "grid" => {
            let mut r = seq::Runner::new();
            r.trace = trace();
            let st = stream::run_grid(&mut r, seed, count);
            let samples: Vec<String> = st.samples.iter().map(|s| format!("\"{}\"", s)).collect();
            r.extra = format!(",\"streams\":{},\"cases\":{},\"distinct_streams\":{},\"stream_samples\":[{}]", st.streams, st.cases, st.distinct.len(), samples.join(","));
            r.nontrivial = st.distinct.len() as u64;
            r.write(&out, "grid", &profile, seed);
        }
        "replay" => {
            // re-run literal op lines (a replay file's program, or a corpus entry) on the real code
            let ops = std::fs::read_to_string(get("ops", "")).expect("ops file");
            let mut r = seq::Runner::new();
            r.trace = trace();
            for l in ops.lines() {
                if !l.trim().is_empty() {
                    r.exec(l.trim());
                }
            }
            r.finish();
            r.write(&out, "replay", &profile, seed);
        }
        _ => {
            eprintln!("usage: harness <seq|replay> --profile P --seed S --count N --out DIR");
            std::process::exit(2);
        }
    }
}
