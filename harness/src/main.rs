mod config;
mod gen;
mod net;
mod oracle;
#[cfg(feature = "wrappers")]
mod psched;
mod rng;
#[cfg(feature = "wrappers")]
mod sched;
mod seq;
mod stress;
mod server;
mod stream;
mod sut;
mod wire;

use std::collections::HashMap;

fn args() -> (String, HashMap<String, String>) {
    let a: Vec<String> = std::env::args().collect();
    let cmd = a.get(1).cloned().unwrap_or_default();
    let mut m = HashMap::new();
    let mut i = 2;
    while i + 1 < a.len() {
        m.insert(a[i].trim_start_matches("--").to_string(), a[i + 1].clone());
        i += 2;
    }
    (cmd, m)
}

fn main() {
    let (cmd, m) = args();
    let get = |k: &str, d: &str| m.get(k).cloned().unwrap_or(d.to_string());
    let seed: u64 = get("seed", "1").parse().unwrap();
    let count: u64 = get("count", "100").parse().unwrap();
    let out = get("out", "/verif/.work/run");
    let profile = get("profile", "ALL");
    sut::quiet_panics();
    std::fs::create_dir_all(&out).ok();
    let trace = || std::fs::File::create(format!("{}/trace.txt", out)).ok();
    match cmd.as_str() {
        "seq" => {
            let mut r = seq::Runner::new();
            r.trace = trace();
            r.generate(&profile, seed, count);
            r.write(&out, "seq", &profile, seed);
        }
        "codec" | "conn" => {
            let mut r = seq::Runner::new();
            r.trace = trace();
            let st = stream::run(&mut r, &cmd, &profile, seed, count, get("tier", "quick") == "thorough");
            let kinds: Vec<String> = st.kinds.iter().map(|(k, v)| format!("\"{}\":{}", k, v)).collect();
            let samples: Vec<String> = st.samples.iter().map(|s| format!("\"{}\"", s.replace('\\', "/").replace('"', "'"))).collect();
            r.extra = format!(",\"streams\":{},\"cases\":{},\"distinct_streams\":{},\"frame_kinds\":{{{}}},\"stream_samples\":[{}]", st.streams, st.cases, st.distinct.len(), kinds.join(","), samples.join(","));
            r.nontrivial = st.distinct.len() as u64;
            r.write(&out, &cmd, &profile, seed);
        }
        #[cfg(feature = "wrappers")]
        "policy" => {
            let mut r = seq::Runner::new();
            r.trace = trace();
            r.generate_policy(&profile, seed, count);
            let dh: Vec<String> = r.drift_hist.iter().map(|(k, v)| format!("\"{}\":{}", k, v)).collect();
            r.extra = format!(",\"evictions\":{},\"drift_classes\":{{{}}}", r.evictions, dh.join(","));
            r.write(&out, "policy", &profile, seed);
        }
        "server" => {
            // scripts run in parallel, each against its own server; results are written in script order
            let mut master = rng::Rng::new(seed ^ 0x5e7);
            let scripts: Vec<Vec<String>> = if let Some(f) = m.get("ops") {
                let txt = std::fs::read_to_string(f).expect("ops file");
                let mut v: Vec<Vec<String>> = vec![];
                for l in txt.lines().filter(|l| !l.trim().is_empty()) {
                    if l.starts_with("srv ") || v.is_empty() {
                        v.push(vec![]);
                    }
                    v.last_mut().unwrap().push(l.trim().to_string());
                }
                v
            } else {
                (0..count).map(|_| server::gen_script(&mut master.fork())).collect()
            };
            let results_notes: Vec<(Vec<String>, Vec<String>)> = std::thread::scope(|sc| {
                let hs: Vec<_> = scripts.iter().map(|ops| sc.spawn(move || {
                    let mut s = server::Script::new();
                    let outs = ops.iter().map(|l| s.exec(l)).collect::<Vec<String>>();
                    (outs, s.notes.clone())
                })).collect();
                hs.into_iter().map(|h| h.join().unwrap()).collect()
            });
            let results: Vec<Vec<String>> = results_notes.iter().map(|x| x.0.clone()).collect();
            let mut r = seq::Runner::new();
            let mut ends: std::collections::BTreeMap<String, u64> = Default::default();
            for (ops, outs) in scripts.iter().zip(results.iter()) {
                r.prog_start.push(r.ops.len());
                // P17 on the implementation's own answers
                let prog = r.prog_start.len() - 1;
                for n in &results_notes[prog].1 {
                    r.violations.push((prog, if n.starts_with("server-dead") { vec!["C17", "C18"] } else { vec!["C17"] }, r.ops.len(), n.clone()));
                }
                let mut limit = 0usize;
                let mut open: std::collections::BTreeSet<usize> = Default::default();
                let mut last_served: Vec<usize> = vec![];
                for (n, (o, x)) in ops.iter().zip(outs.iter()).enumerate() {
                    let f: Vec<&str> = o.split(' ').collect();
                    match f[0] {
                        "srv" => limit = f[1].parse().unwrap(),
                        "open" => { open.insert(f[1].parse().unwrap()); }
                        "end" => { open.remove(&f[1].parse().unwrap()); }
                        "probe" => {
                            let served: Vec<usize> = x.split(' ').skip(1).filter_map(|t| t.parse().ok()).collect();
                            if served.len() > limit {
                                r.violations.push((prog, vec!["C17"], r.ops.len() + n, format!("{} connections are served at once ({:?}) under a connection limit of {}", served.len(), served, limit)));
                            }
                            last_served = served;
                        }
                        _ => {}
                    }
                }
                // the script ends with: everybody closed, then limit+1 fresh connections
                if last_served.len() != limit.min(open.len()) {
                    r.violations.push((prog, vec!["C17", "C18"], r.ops.len() + ops.len() - 1, format!("after all earlier connections ended, {} of {} fresh connections are served under a limit of {} (slots lost or over-released)", last_served.len(), open.len(), limit)));
                }
                for (o, x) in ops.iter().zip(outs.iter()) {
                    if let Some(h) = o.split(' ').nth(2) { if o.starts_with("end ") { *ends.entry(h.to_string()).or_insert(0) += 1; } }
                    if o.starts_with("idle") { *ends.entry("idle-timeout".to_string()).or_insert(0) += 1; }
                    r.ops.push(o.clone());
                    r.outs.push(x.clone());
                }
            }
            let e: Vec<String> = ends.iter().map(|(k, v)| format!("\"{}\":{}", k, v)).collect();
            r.nontrivial = scripts.len() as u64;
            r.extra = format!(",\"cases\":{},\"endings\":{{{}}}", scripts.len(), e.join(","));
            r.write(&out, "server", &profile, seed);
        }
        #[cfg(feature = "wrappers")]
        "sched" => {
            let per_case: usize = get("per_case", "60").parse().unwrap();
            let (ops, outs, viols, st) = if m.get("ops").map(|f| std::fs::read_to_string(f).map(|t| t.contains("pcnew ")).unwrap_or(false)).unwrap_or(false) {
                psched::replay(&std::fs::read_to_string(m.get("ops").unwrap()).expect("ops file"))
            } else if let Some(f) = m.get("ops") {
                // replay literal lines (corpus witnesses, replay files), with the same oracle
                let txt = std::fs::read_to_string(f).expect("ops file");
                let mut r = sched::SchedRunner::new();
                let mut ops = vec![];
                let mut outs = vec![];
                let mut viols: Vec<(usize, usize, Vec<&'static str>, String)> = vec![];
                let mut start = 0usize;
                let mut n = 0u64;
                for l in txt.lines().filter(|l| !l.trim().is_empty()) {
                    let l = l.trim();
                    if l.starts_with("cnew") {
                        start = ops.len();
                    }
                    let setup = r.setup.clone();
                    let programs = r.programs.clone();
                    let (o, outcome) = r.exec(l);
                    ops.push(l.to_string());
                    outs.push(o);
                    if let Some(outcome) = outcome {
                        n += 1;
                        if let Some(h) = &outcome.hung {
                            viols.push((start, ops.len(), vec!["C16"], h.clone()));
                            break;
                        }
                        let case = sched::Case { init: "expired", setup: setup.clone(), programs: programs.clone() };
                        let ticked = l.split(' ').any(|t| t == "T");
                        if !sched::linearizable(&case, &|| sched::apply_setup(&setup), &outcome, ticked) {
                            let ws = sched::windows(&outcome.steps, &programs);
                            let only_c03 = programs.iter().flatten().all(|f| matches!(f[1], 0x00 | 0x01 | 0x04));
                            let mut props: Vec<&'static str> = if only_c03 { vec!["C03", "C04"] } else { vec!["C04"] };
                            if only_c03 {
                                props.extend(sched::also_broken(&programs, &outcome));
                            } else if ws.is_empty() {
                                props.extend(sched::also_broken_rmw(&programs, "expired"));
                            }
                            viols.push((start, ops.len(), props,
                                format!("not linearizable: calls {:?} -> {} ; classes [{}]", outcome.steps, sched::fmt_results(&outcome.results), ws.join(","))));
                        }
                    }
                }
                (ops, outs, viols, sched::SchedStats { cases: n, schedules: n, nonlinearizable_known: Default::default(), distinct_outcomes: Default::default(), samples: vec![] })
            } else {
                if profile == "C14deep" || profile == "C03deep" { psched::run_suite_profile(&profile, seed, count, per_case, trace()) } else if profile == "C14" { sched::run_policy_suite(seed, count, per_case, trace()) } else { sched::run_suite(&profile, seed, count, per_case, trace()) }
            };
            std::fs::write(format!("{}/ops.txt", out), ops.join("\n") + "\n").unwrap();
            std::fs::write(format!("{}/impl.txt", out), outs.join("\n") + "\n").unwrap();
            let mut o = String::new();
            for (a, b, props, msg) in &viols {
                o.push_str(&format!("VIOL props={} start={} end={} line={} msg={}\n", props.join(","), a, b, b - 1, msg));
            }
            std::fs::write(format!("{}/oracle.txt", out), o).unwrap();
            let kn: Vec<String> = st.nonlinearizable_known.iter().map(|(k, v)| format!("\"{}\":{}", k, v)).collect();
            let samples: Vec<String> = st.samples.iter().map(|s| format!("\"{}\"", s.replace('"', "'"))).collect();
            std::fs::write(format!("{}/stats.json", out), format!("{{\"suite\":\"sched\",\"profile\":\"{}\",\"seed\":{},\"programs\":{},\"cases\":{},\"lines\":{},\"distinct_nontrivial\":{},\"nonlinearizable_by_window\":{{{}}},\"oracle_violations\":{},\"stream_samples\":[{}]}}\n", profile, seed, st.cases, st.schedules, ops.len(), st.distinct_outcomes.len(), kn.join(","), viols.len(), samples.join(","))).unwrap();
        }
        #[cfg(not(feature = "wrappers"))]
        "sched" | "policy" => {
            eprintln!("suite not available: the harness was built without the Cache wrappers");
            std::process::exit(3);
        }
        "stress" => {
            // watchdog: the whole suite must finish; a hang leaves the trace for the check script
            if let Some(mut f) = trace() { use std::io::Write; let _ = writeln!(f, "stress seed {} rounds {}", seed, count); }
            let o = stress::run(seed, count);
            std::fs::write(format!("{}/ops.txt", out), format!("stress {} {}\n", seed, count)).unwrap();
            std::fs::write(format!("{}/impl.txt", out), "ok\n").unwrap();
            let mut v = String::new();
            for (props, msg) in &o.violations {
                v.push_str(&format!("VIOL props={} start=0 end=1 line=0 msg={}\n", props.join(","), msg));
            }
            std::fs::write(format!("{}/oracle.txt", out), v).unwrap();
            let kinds: Vec<String> = o.kinds.iter().map(|(k, n)| format!("\"{}\":{}", k, n)).collect();
            std::fs::write(format!("{}/stats.json", out), format!("{{\"suite\":\"stress\",\"profile\":\"{}\",\"seed\":{},\"programs\":{},\"cases\":{},\"lines\":1,\"distinct_nontrivial\":{},\"round_kinds\":{{{}}},\"oracle_violations\":{}}}\n", profile, seed, o.rounds, o.rounds, o.kinds.len(), kinds.join(","), o.violations.len())).unwrap();
        }
        "config" => {
            let bin = get("bin", "/verif/.work/memcrsd-target/debug/memcrsd");
            let o = config::run(&bin, seed, get("tier", "quick") == "thorough");
            std::fs::write(format!("{}/ops.txt", out), o.ops.join("\n") + "\n").unwrap();
            std::fs::write(format!("{}/impl.txt", out), o.outs.join("\n") + "\n").unwrap();
            let mut v = String::new();
            for (a, b, props, msg) in &o.viols {
                v.push_str(&format!("VIOL props={} start={} end={} line={} msg={}\n", props.join(","), a, b, a, msg));
            }
            std::fs::write(format!("{}/oracle.txt", out), v).unwrap();
            let cfgs: Vec<String> = o.configs.iter().map(|c| format!("\"{}\"", c)).collect();
            std::fs::write(format!("{}/stats.json", out), format!("{{\"suite\":\"config\",\"profile\":\"{}\",\"seed\":{},\"programs\":{},\"cases\":{},\"lines\":{},\"distinct_nontrivial\":{},\"configurations\":[{}],\"oracle_violations\":{}}}\n", profile, seed, o.ops.iter().filter(|l| l.starts_with("ext ")).count(), o.ops.iter().filter(|l| l.starts_with("ext ")).count(), o.ops.len(), o.configs.len(), cfgs.join(","), o.viols.len())).unwrap();
        }
        "grid" => {
            let mut r = seq::Runner::new();
            r.trace = trace();
            let st = stream::run_grid(&mut r, seed, count);
            let samples: Vec<String> = st.samples.iter().map(|s| format!("\"{}\"", s)).collect();
            r.extra = format!(",\"streams\":{},\"cases\":{},\"distinct_streams\":{},\"stream_samples\":[{}]", st.streams, st.cases, st.distinct.len(), samples.join(","));
            r.nontrivial = st.distinct.len() as u64;
            r.write(&out, "grid", &profile, seed);
        }
        "replay" => {
            // re-run literal op lines (a replay file's program, or a corpus entry) on the real code
            let ops = std::fs::read_to_string(get("ops", "")).expect("ops file");
            let mut r = seq::Runner::new();
            r.trace = trace();
            // the fixed cases of the connection suite leave only a `note <case>: …` line behind: replaying such a line runs the case
            // again (each case writes its own note line and judges itself)
            let mut ran: std::collections::BTreeSet<&str> = Default::default();
            for l in ops.lines() {
                let l = l.trim();
                if l.is_empty() {
                    continue;
                }
                let case = l.strip_prefix("note ").map(|x| x.split(|c| c == ':' || c == ' ').next().unwrap_or(""));
                match case {
                    Some(c @ ("reset-after-quit" | "quiet-keepalive" | "limit-edge" | "stalled-oversized" | "unread-close" | "big-response" | "tcp-value-sizes")) => {
                        if ran.insert(c) {
                            match c {
                                "reset-after-quit" => stream::reset_after_quit(&mut r),
                                "quiet-keepalive" => stream::quiet_keepalive(&mut r),
                                "limit-edge" => stream::limit_edge(&mut r),
                                "stalled-oversized" => stream::stalled_oversized(&mut r),
                                "unread-close" => stream::unread_close(&mut r),
                                "big-response" => stream::big_response(&mut r),
                                _ => stream::tcp_value_sizes(&mut r),
                            }
                        }
                    }
                    _ => {
                        r.exec(l);
                    }
                }
            }
            r.finish();
            r.write(&out, "replay", &profile, seed);
        }
        _ => {
            eprintln!("usage: harness <seq|replay> --profile P --seed S --count N --out DIR");
            std::process::exit(2);
        }
    }
}
