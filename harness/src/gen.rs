//! Structured, mostly-valid program generator built from the protocol's vocabulary.
use crate::rng::Rng;
use crate::wire::{self, op, Frame};
use std::collections::HashMap;

#[derive(Clone, Debug)]
pub struct Profile {
    pub name: &'static str,
    /// weights: set add replace append prepend incr decr get delete flush misc clock nonstd unsupported
    pub w: [u32; 14],
    pub keys: (u64, u64),
    pub ttl_pct: u64,
    pub cas_pct: u64,
    pub quiet_pct: u64,
    pub numeric_pct: u64,
    pub len: (u64, u64),
}

pub fn profile(name: &str) -> Profile {
    //                         set add rep app pre inc dec get del flu mis clk non uns
    let base = Profile { name: "ALL", w: [14, 6, 6, 6, 6, 7, 5, 22, 6, 2, 2, 12, 2, 1], keys: (2, 5), ttl_pct: 35, cas_pct: 30, quiet_pct: 25, numeric_pct: 35, len: (5, 40) };
    match name {
        "C01" => Profile { name: "C01", w: [22, 4, 4, 4, 4, 4, 3, 30, 4, 1, 1, 10, 0, 0], keys: (3, 6), ttl_pct: 30, cas_pct: 15, quiet_pct: 20, numeric_pct: 20, ..base },
        "C02" => Profile { name: "C02", w: [24, 5, 6, 6, 4, 6, 4, 22, 8, 1, 0, 6, 0, 0], keys: (1, 3), ttl_pct: 20, cas_pct: 75, quiet_pct: 15, numeric_pct: 40, ..base },
        "C05" => Profile { name: "C05", w: [16, 6, 6, 6, 5, 6, 5, 22, 4, 4, 0, 26, 0, 0], keys: (2, 4), ttl_pct: 85, cas_pct: 15, quiet_pct: 15, numeric_pct: 35, ..base },
        "C06" => Profile { name: "C06", w: [10, 14, 14, 14, 14, 1, 1, 20, 6, 2, 0, 8, 0, 0], keys: (2, 4), ttl_pct: 30, cas_pct: 25, quiet_pct: 25, numeric_pct: 5, ..base },
        "C07" => Profile { name: "C07", w: [16, 1, 1, 3, 3, 26, 20, 18, 4, 1, 0, 6, 0, 0], keys: (1, 3), ttl_pct: 25, cas_pct: 20, quiet_pct: 20, numeric_pct: 85, ..base },
        "C08" => Profile { name: "C08", w: [22, 3, 3, 2, 2, 3, 2, 24, 16, 10, 0, 14, 0, 0], keys: (3, 6), ttl_pct: 40, cas_pct: 35, quiet_pct: 20, numeric_pct: 20, ..base },
        "C11" => Profile { name: "C11", w: [12, 6, 6, 6, 6, 8, 6, 20, 6, 3, 8, 6, 4, 3], keys: (2, 4), ttl_pct: 30, cas_pct: 35, quiet_pct: 30, numeric_pct: 40, ..base },
        "C19" => Profile { name: "C19", w: [14, 7, 7, 7, 7, 8, 6, 20, 8, 4, 4, 10, 0, 0], keys: (2, 4), ttl_pct: 30, cas_pct: 25, quiet_pct: 50, numeric_pct: 40, ..base },
        "C20" => Profile { name: "C20", w: [16, 6, 6, 7, 6, 8, 6, 18, 9, 6, 1, 10, 1, 1], keys: (2, 5), ttl_pct: 30, cas_pct: 25, quiet_pct: 25, numeric_pct: 30, ..base },
        "C14" => Profile { name: "C14", w: [30, 5, 5, 6, 5, 7, 4, 14, 8, 2, 0, 8, 0, 0], keys: (3, 8), ttl_pct: 20, cas_pct: 15, quiet_pct: 20, numeric_pct: 15, len: (10, 60), ..base },
        "C15" => Profile { name: "C15", w: [22, 6, 6, 8, 6, 10, 6, 16, 10, 3, 0, 8, 0, 0], keys: (2, 5), ttl_pct: 25, cas_pct: 25, quiet_pct: 20, numeric_pct: 30, len: (40, 120), ..base },
        _ => base,
    }
}

#[derive(Default, Clone)]
pub struct KeyInfo {
    pub cas_seen: Vec<u64>,
    pub deadline: Option<u64>,
    /// value and flags of the last store generated for this key (re-stored now and then with another TTL / flags)
    pub last_store: Option<(Vec<u8>, u32)>,
    /// clock reading when the last store for this key was generated
    pub stored_at: Option<u64>,
}

pub struct GenState {
    /// deadlines of delayed flushes generated so far (targets of the boundary-directed clock)
    pub flush_deadlines: Vec<u64>,
    pub now: u64,
    pub keys: Vec<Vec<u8>>,
    pub info: HashMap<Vec<u8>, KeyInfo>,
    pub item_limit: u32,
}

pub enum GenOp {
    Now(u64),
    Req(Vec<u8>),
}

pub fn key_pool(rng: &mut Rng, n: usize) -> Vec<Vec<u8>> {
    let mut keys: Vec<Vec<u8>> = vec![];
    while keys.len() < n {
        let k = match rng.below(8) {
            0 => vec![rng.next() as u8],
            1 => {
                let mut k = vec![b'k'; 250];
                k[249] = rng.next() as u8;
                k
            }
            2 => vec![0x00, 0xff, rng.next() as u8],
            3 => {
                let mut k = b"prefix/".to_vec();
                k.push(b'a' + rng.below(4) as u8);
                k
            }
            _ => {
                let l = rng.range(1, 12) as usize;
                (0..l).map(|_| b'a' + rng.below(26) as u8).collect()
            }
        };
        if !keys.contains(&k) {
            keys.push(k);
        }
    }
    // every other pool holds a *relative* of its first key: the same bytes plus one trailing byte (NUL, LF, CR, blank,
    // 0xff), minus the last byte, or differing in the last byte only — keys are opaque byte strings, none is another
    if n >= 2 && rng.chance(1, 2) {
        let k0 = keys[0].clone();
        let rel: Vec<u8> = match rng.below(4) {
            0 | 1 if k0.len() < 250 => {
                let mut k = k0.clone();
                k.push(*rng.pick(&[0x00u8, 0x0a, 0x0d, 0x20, 0xff, 0x00, 0x0a]));
                k
            }
            2 if k0.len() > 1 => k0[..k0.len() - 1].to_vec(),
            _ => {
                let mut k = k0.clone();
                let l = k.len() - 1;
                k[l] ^= *rng.pick(&[0x01u8, 0x20, 0x80]);
                k
            }
        };
        if !keys.contains(&rel) {
            let l = keys.len() - 1;
            keys[l] = rel;
        }
    }
    keys
}

pub const DECIMALS: &[&str] = &[
    "0", "1", "9", "10", "42", "255", "9223372036854775807", "9223372036854775808", "18446744073709551614",
    "18446744073709551615", "18446744073709551616", "99999999999999999999", "007", "0000000000000000000000012", "+5", "-1", " 5", "5 ",
    "", "+", "12a", "1e3", "0x10",
];

pub fn value(rng: &mut Rng, p: &Profile, limit: u32) -> Vec<u8> {
    if rng.chance(p.numeric_pct, 100) {
        if rng.chance(3, 4) {
            return rng.pick(DECIMALS).as_bytes().to_vec();
        }
        return rng.next().to_string().into_bytes();
    }
    match rng.below(12) {
        0 => vec![],
        1 => vec![rng.next() as u8],
        2 => vec![0xff, 0xfe, 0x80, 0x00],
        4 => {
            // valid UTF-8 text with one multi-byte character straddling a 'round' byte offset (16, 32, 64, 128)
            let at = *rng.pick(&[16usize, 32, 32, 64, 128]) - rng.range(1, 3) as usize;
            let mut v = vec![b'a' + rng.below(26) as u8; at];
            v.extend_from_slice(rng.pick(&["é", "€", "😀", "ß"]).as_bytes());
            v.extend(std::iter::repeat(b'z').take(rng.range(0, 6) as usize));
            v
        }
        3 => {
            // large relative to the (small) configured limit
            // (under the large limits only one time in eight: the dumps behind every request carry these values)
            let l = if limit > 8192 && !rng.chance(1, 8) { rng.range(1500, 4000) as usize } else { rng.range(limit as u64 / 2, limit as u64 - 300.min(limit as u64 / 2)) as usize };
            rng.bytes(l)
        }
        _ => {
            let l = rng.range(1, 24) as usize;
            rng.bytes(l)
        }
    }
}

pub fn u64_extreme(rng: &mut Rng) -> u64 {
    match rng.below(10) {
        0 => 0,
        1 | 2 => 1,
        3 => 1 << 63,
        4 => u64::MAX - 1,
        5 => u64::MAX,
        6 => rng.next(),
        _ => rng.range(1, 1000),
    }
}

pub fn ttl(rng: &mut Rng, p: &Profile) -> u32 {
    if !rng.chance(p.ttl_pct, 100) {
        return 0;
    }
    // relative seconds whatever the size: also above memcached's 30-day "absolute time" threshold, up to the u32 maximum
    *rng.pick(&[1u32, 1, 2, 2, 3, 5, 5, 10, 60, 2592000, 2592001, 3000000, 0x7fff_ffff, 0xffff_fffe])
}

pub fn flags(rng: &mut Rng) -> u32 {
    match rng.below(5) {
        0 => 0,
        1 => 1,
        2 => 0xffff_ffff,
        _ => rng.next() as u32,
    }
}

impl GenState {
    pub fn new(rng: &mut Rng, p: &Profile, item_limit: u32) -> GenState {
        let n = rng.range(p.keys.0, p.keys.1) as usize;
        GenState { flush_deadlines: vec![], now: 0, keys: key_pool(rng, n), info: HashMap::new(), item_limit }
    }

    pub fn cas(&self, rng: &mut Rng, p: &Profile, key: &[u8]) -> u64 {
        if !rng.chance(p.cas_pct, 100) {
            return 0;
        }
        let seen = self.info.get(key).map(|i| i.cas_seen.clone()).unwrap_or_default();
        match rng.below(14) {
            // equal to the current CAS in the low 32 (or 16, or 8) bits only
            12 if !seen.is_empty() => seen.last().unwrap().wrapping_add(*rng.pick(&[1u64 << 32, 1 << 32, 1 << 16, 1 << 8, 1 << 63, 3 << 32])),
            13 if !seen.is_empty() => seen.last().unwrap().wrapping_sub(*rng.pick(&[1u64 << 32, 1 << 16])),
            0..=4 if !seen.is_empty() => *seen.last().unwrap(),
            5 | 6 if !seen.is_empty() => *rng.pick(&seen),
            7 if !seen.is_empty() => seen.last().unwrap().wrapping_add(1),
            8 => u64::MAX,
            9 => u64::MAX - 1,
            10 => rng.range(1, 40),
            _ => rng.next() | 1,
        }
    }

    pub fn note_cas(&mut self, key: &[u8], cas: u64) {
        if cas != 0 {
            let i = self.info.entry(key.to_vec()).or_default();
            if !i.cas_seen.contains(&cas) {
                i.cas_seen.push(cas);
            }
        }
    }

    /// the reserved field of a request header (bytes 6-7, 'vbucket id') means nothing to this server: every now and then a
    /// request carries a non-zero one (1 and 2 read as a status would be 'not found' / 'key exists')
    pub fn next_op(&mut self, rng: &mut Rng, p: &Profile) -> GenOp {
        let mut o = self.next_op_inner(rng, p);
        if let GenOp::Req(b) = &mut o {
            if b.len() >= 24 && b[0] == 0x80 && rng.chance(1, 7) {
                let v: u16 = *rng.pick(&[1u16, 2, 3, 0x81, 0x7777, 0xffff, 0x0100]);
                b[6..8].copy_from_slice(&v.to_be_bytes());
            }
        }
        o
    }

    fn next_op_inner(&mut self, rng: &mut Rng, p: &Profile) -> GenOp {
        // the second in which an item's life ends: a conditional store carrying a CAS, addressed to exactly that item
        // (the item must count as absent for it, whether or not anybody has looked at it since)
        if p.name == "C05" && rng.chance(1, 4) {
            let due: Vec<Vec<u8>> = self.info.iter().filter(|(_, i)| i.deadline == Some(self.now)).map(|(k, _)| k.clone()).collect();
            if !due.is_empty() {
                let k = rng.pick(&due).clone();
                let opc = *rng.pick(&[op::ADD, op::ADD, op::ADDQ, op::REPLACE, op::SET]);
                self.info.entry(k.clone()).or_default().deadline = None;
                return GenOp::Req(wire::set_like(opc, &k, b"due", 1, 0, *rng.pick(&[7u64, 1, u64::MAX]), rng.next() as u32).bytes());
            }
        }
        let key = rng.pick(&self.keys).clone();
        let opaque = rng.next() as u32;
        let quiet = rng.chance(p.quiet_pct, 100);
        let q = |loud: u8, quiet_op: u8| if quiet { quiet_op } else { loud };
        let kind = rng.weighted(&p.w);
        let f: Frame = match kind {
            0 | 1 | 2 => {
                let opc = match kind {
                    0 => q(op::SET, op::SETQ),
                    1 => q(op::ADD, op::ADDQ),
                    _ => q(op::REPLACE, op::REPLACEQ),
                };
                let t = ttl(rng, p);
                if t != 0 {
                    self.info.entry(key.clone()).or_default().deadline = Some(self.now + t as u64);
                }
                // now and then the very same bytes again (same flags, or new ones) with whatever TTL came up
                let prev = self.info.get(&key).and_then(|i| i.last_store.clone());
                let (v, fl) = match prev {
                    Some((pv, pf)) if rng.chance(1, 6) => (pv, if rng.chance(2, 3) { pf } else { flags(rng) }),
                    _ => (value(rng, p, self.item_limit), flags(rng)),
                };
                self.info.entry(key.clone()).or_default().last_store = Some((v.clone(), fl));
                self.info.entry(key.clone()).or_default().stored_at = Some(self.now);
                wire::set_like(opc, &key, &v, fl, t, self.cas(rng, p, &key), opaque)
            }
            3 | 4 => {
                let opc = if kind == 3 { q(op::APPEND, op::APPENDQ) } else { q(op::PREPEND, op::PREPENDQ) };
                let v = if self.item_limit > 70000 && rng.chance(1, 3) {
                    // a suffix / prefix whose body length does not fit 16 bits
                    let l = rng.range(65530, 70000) as usize;
                    vec![b'A' + rng.below(26) as u8; l]
                } else if rng.chance(1, 2) {
                    rng.bytes(rng.clone().below(6) as usize)
                } else {
                    value(rng, p, 64)
                };
                wire::append_like(opc, &key, &v, self.cas(rng, p, &key), opaque)
            }
            5 | 6 => {
                let opc = if kind == 5 { q(op::INCR, op::INCRQ) } else { q(op::DECR, op::DECRQ) };
                let exp = match rng.below(6) {
                    0 | 1 => 0xffff_ffff,
                    2 => ttl(rng, p),
                    3 if p.name == "C05" => ttl(rng, p),
                    _ => 0,
                };
                let d = if rng.chance(1, 8) { 0 } else { u64_extreme(rng) };
                wire::delta(opc, &key, d, u64_extreme(rng), exp, self.cas(rng, p, &key), opaque)
            }
            7 => {
                let opc = *rng.pick(&[op::GET, op::GET, op::GETK, op::GETQ, op::GETKQ]);
                let opc = if quiet { opc } else if opc == op::GETQ { op::GET } else if opc == op::GETKQ { op::GETK } else { opc };
                wire::key_only(opc, &key, if rng.chance(1, 10) { rng.next() } else { 0 }, opaque)
            }
            8 => wire::key_only(q(op::DELETE, op::DELETEQ), &key, self.cas(rng, p, &key), opaque),
            9 => {
                let d = match rng.below(5) {
                    0 => None,
                    1 => Some(0),
                    _ => Some(*rng.pick(&[1u32, 2, 3, 5, 10, 100, 100, 0xffff_ffff, 0xffff_fffe, 0xffff_fff0, 0x8000_0000])),
                };
                // delay + age of some stored item = 2^32 exactly
                let ages: Vec<u64> = self.info.values().filter_map(|i| i.stored_at).map(|t| self.now - t).filter(|a| *a >= 1 && *a < 1000).collect();
                let d = if !ages.is_empty() && rng.chance(1, 5) { Some((0x1_0000_0000u64 - *rng.pick(&ages)) as u32) } else { d };
                if let Some(dd) = d {
                    if dd != 0 {
                        self.flush_deadlines.push(self.now + dd as u64);
                    }
                }
                wire::flush(q(op::FLUSH, op::FLUSHQ), d, opaque)
            }
            10 => {
                let mut f = wire::bare(*rng.pick(&[op::NOOP, op::VERSION, op::STAT, op::STAT]), opaque);
                if f.opcode == op::STAT && rng.chance(1, 2) {
                    f.key = rng.pick(&[&b"items"[..], &b"slabs"[..], &b"settings"[..]]).to_vec();
                }
                f
            }
            11 => {
                // clock advance: boundary-directed when a deadline is known
                let dl: Vec<u64> = self.info.values().filter_map(|i| i.deadline).chain(self.flush_deadlines.iter().cloned()).filter(|d| *d + 1 >= self.now).collect();
                let t = if !dl.is_empty() && rng.chance(2, 3) {
                    let d = *rng.pick(&dl);
                    match rng.below(3) {
                        0 => d.saturating_sub(1),
                        1 => d,
                        _ => d + 1,
                    }
                } else {
                    self.now + *rng.pick(&[0u64, 1, 1, 2, 3, 7, 100, 2592001, 3000000, 3000000, 5_000_000_000])
                };
                self.now = self.now.max(t);
                return GenOp::Now(self.now);
            }
            12 => {
                if rng.chance(1, 3) {
                    // a store whose body exceeds the item size limit: answered "too large", correlated, nothing stored
                    let extra = rng.range(1, 40) as usize;
                    let opc = *rng.pick(&[op::SET, op::ADD, op::REPLACE, op::SETQ, op::APPEND, op::PREPENDQ]);
                    let v = vec![b'x'; self.item_limit as usize + extra];
                    if matches!(opc, op::APPEND | op::PREPENDQ) {
                        wire::append_like(opc, &key, &v, 0, opaque)
                    } else {
                        wire::set_like(opc, &key, &v, rng.next() as u32, 0, 0, opaque)
                    }
                } else {
                    nonstandard(rng, &key, opaque)
                }
            }
            _ => {
                let mut f = Frame::new(*rng.pick(&[0x1cu8, 0x1d, 0x1e, 0x20, 0x21, 0x22, 0x23, 0x24]));
                f.opaque = opaque;
                if rng.chance(1, 2) {
                    f.key = key.clone();
                    f.extras = vec![0, 0, 0, 5];
                }
                f
            }
        };
        GenOp::Req(f.bytes())
    }
}

/// frames that are complete and length-consistent but not what the protocol document prescribes
pub fn nonstandard(rng: &mut Rng, key: &[u8], opaque: u32) -> Frame {
    let mut f = match rng.below(11) {
        9 => {
            // a key-less, extras-less command whose body is itself a complete request: must not be executed
            let mut f = wire::bare(*rng.pick(&[op::NOOP, op::VERSION, op::STAT, op::FLUSH]), opaque);
            f.value = wire::set_like(op::SET, key, b"smuggled", 7, 0, 0, opaque ^ 0x5555).bytes();
            f
        }
        10 => {
            let mut f = wire::bare(*rng.pick(&[op::NOOP, op::VERSION, 0x1c, 0x20]), opaque);
            f.value = wire::key_only(op::GET, key, 0, opaque ^ 0x3333).bytes();
            f
        }
        0 => {
            let mut f = wire::key_only(op::GET, key, 0, opaque);
            f.extras = vec![1, 2, 3, 4];
            f
        }
        1 => {
            let mut f = wire::key_only(op::GET, key, 0, opaque);
            f.value = b"junk".to_vec();
            f
        }
        2 => {
            let mut f = wire::set_like(op::SET, key, b"v", 1, 0, 0, opaque);
            f.extras = vec![];
            f
        }
        3 => {
            let mut f = wire::set_like(op::SET, key, b"0123456789abcdef", 1, 0, 0, opaque);
            f.extras = vec![0; 12];
            f
        }
        4 => {
            let mut f = wire::bare(op::NOOP, opaque);
            f.value = b"body".to_vec();
            f
        }
        5 => {
            let mut f = wire::delta(op::INCR, key, 1, 1, 0, 0, opaque);
            f.extras.truncate(8);
            f.value = vec![0; 14];
            f
        }
        6 => {
            let mut f = wire::append_like(op::APPEND, key, b"xy", 0, opaque);
            f.extras = vec![9, 9];
            f
        }
        7 => {
            let mut f = wire::key_only(op::DELETE, key, 0, opaque);
            f.value = b"zz".to_vec();
            f
        }
        _ => {
            let mut f = wire::flush(op::FLUSH, Some(0), opaque);
            f.extras = vec![0, 0];
            f
        }
    };
    f.opaque = opaque;
    f
}
