//! Suite `stress`: OS-scheduled threads hammering one key / the accounting counter, under a watchdog.
//! What the gate cannot reach (steps inside one trait call) is exercised here; verdicts are invariants of
//! the histories (winner counts, acknowledged stores still present, accounting equal to content at rest).
use crate::sut::Clock;
use bytes::Bytes;
use memcrs::cache::cache::{Cache, CacheMetaData, Record};
use memcrs::memcache::random_policy::RandomPolicy;
use memcrs::memory_store::store::MemoryStore;
use std::sync::atomic::{AtomicU64, AtomicUsize, Ordering};
use std::sync::{Arc, Barrier};

pub struct StressOut {
    pub violations: Vec<(Vec<&'static str>, String)>,
    pub rounds: u64,
    pub kinds: Vec<(String, u64)>,
}

fn key(s: &str) -> Bytes {
    Bytes::copy_from_slice(s.as_bytes())
}

pub fn run(seed: u64, rounds: u64) -> StressOut {
    let mut out = StressOut { violations: vec![], rounds: 0, kinds: vec![] };
    let nthreads = 8usize;

    // A: of N concurrent CAS stores carrying the same token at most one wins (present key and absent key)
    let mut a_rounds = 0;
    for round in 0..rounds {
        let clock = Arc::new(Clock(AtomicU64::new(0)));
        let store = Arc::new(MemoryStore::new(clock.clone()));
        let present = (round + seed) % 2 == 0;
        let k = key(&format!("k{}", round));
        let token = if present { store.set(k.clone(), Record::new(key("v0"), 0, 0, 0)).unwrap().cas } else { 7 };
        let wins = Arc::new(AtomicUsize::new(0));
        let barrier = Arc::new(Barrier::new(nthreads));
        let hs: Vec<_> = (0..nthreads)
            .map(|i| {
                let (store, k, wins, barrier) = (store.clone(), k.clone(), wins.clone(), barrier.clone());
                std::thread::spawn(move || {
                    barrier.wait();
                    if store.set(k, Record::new(key(&format!("w{}", i)), token, 0, 0)).is_ok() {
                        wins.fetch_add(1, Ordering::SeqCst);
                    }
                })
            })
            .collect();
        for h in hs {
            let _ = h.join();
        }
        a_rounds += 1;
        let w = wins.load(Ordering::SeqCst);
        if w > 1 {
            out.violations.push((vec!["C03"], format!("{} of {} concurrent CAS stores carrying the same CAS {} on a{} key were acknowledged (round {})", w, nthreads, token, if present { " present" } else { "n absent" }, round)));
            break;
        }
    }
    out.kinds.push(("one-cas-winner".into(), a_rounds));

    // B: an acknowledged store is not undone by readers collecting its expired predecessor
    let mut b_rounds = 0;
    for round in 0..rounds / 2 {
        let clock = Arc::new(Clock(AtomicU64::new(0)));
        let store = Arc::new(MemoryStore::new(clock.clone()));
        let k = key("k");
        store.set(k.clone(), Record::new(key("old"), 0, 0, 1)).unwrap();
        clock.0.store(10, Ordering::SeqCst);
        let barrier = Arc::new(Barrier::new(5));
        let lost = Arc::new(AtomicUsize::new(0));
        let mut hs = vec![];
        for _ in 0..4 {
            let (store, k, barrier) = (store.clone(), k.clone(), barrier.clone());
            hs.push(std::thread::spawn(move || {
                barrier.wait();
                for _ in 0..20 {
                    let _ = store.get(&k);
                }
            }));
        }
        {
            let (store, k, barrier, lost) = (store.clone(), k.clone(), barrier.clone(), lost.clone());
            hs.push(std::thread::spawn(move || {
                barrier.wait();
                if store.set(k.clone(), Record::new(key("new"), 0, 0, 0)).is_ok() && store.get(&k).is_err() {
                    lost.fetch_add(1, Ordering::SeqCst);
                }
            }));
        }
        for h in hs {
            let _ = h.join();
        }
        b_rounds += 1;
        if lost.load(Ordering::SeqCst) > 0 || store.get(&k).is_err() {
            out.violations.push((vec!["C03"], format!("a store with TTL 0 acknowledged at time 10 is gone: concurrent readers were collecting its expired predecessor (round {})", round)));
            break;
        }
    }
    out.kinds.push(("ack-not-undone".into(), b_rounds));

    // C: fresh-key stores and deletes from many threads: the accounting equals the content at rest
    let mut c_rounds = 0;
    for round in 0..(rounds / 20).max(3) {
        let clock = Arc::new(Clock(AtomicU64::new(0)));
        let inner = Arc::new(MemoryStore::new(clock.clone()));
        let pol = Arc::new(RandomPolicy::new(inner.clone(), 1 << 40));
        let barrier = Arc::new(Barrier::new(nthreads));
        let hs: Vec<_> = (0..nthreads)
            .map(|i| {
                let (pol, barrier) = (pol.clone(), barrier.clone());
                std::thread::spawn(move || {
                    barrier.wait();
                    for j in 0..60 {
                        let _ = pol.set(key(&format!("t{}-{}", i, j)), Record::new(key("0123456789"), 0, 0, 0));
                    }
                    for j in 0..50 {
                        let _ = pol.delete(key(&format!("t{}-{}", i, j)), CacheMetaData::new(0, 0, 0));
                    }
                })
            })
            .collect();
        for h in hs {
            let _ = h.join();
        }
        c_rounds += 1;
        let stored = crate::sut::Sut::records_of(&inner).iter().map(|(_, r)| 24 + r.value.len() as u64).sum::<u64>();
        let usage = pol.verif_usage();
        if usage != stored {
            out.violations.push((vec!["C15", "C14"], format!("after {} threads stored 60 fresh keys each and deleted 50 of them, the accounted usage is {} but {} bytes are stored (round {})", nthreads, usage, stored, round)));
            break;
        }
    }
    out.kinds.push(("accounting-at-rest".into(), c_rounds));
    out.rounds = a_rounds + b_rounds + c_rounds;
    out
}
