//! Suite `stress`: OS-scheduled threads hammering one key / the accounting counter, under a watchdog.
//! What the gate cannot reach (steps inside one trait call) is exercised here; verdicts are invariants of
//! the histories (winner counts, acknowledged stores still present, accounting equal to content at rest).
use crate::sut::Clock;
use bytes::Bytes;
use memcrs::cache::cache::{Cache, CacheMetaData, Record};
use memcrs::memcache::random_policy::RandomPolicy;
use memcrs::memory_store::store::MemoryStore;
use std::sync::atomic::{AtomicU64, AtomicUsize, Ordering};
use std::sync::{Arc, Barrier};

pub struct StressOut {
    pub violations: Vec<(Vec<&'static str>, String)>,
    pub rounds: u64,
    pub kinds: Vec<(String, u64)>,
}

fn key(s: &str) -> Bytes {
    Bytes::copy_from_slice(s.as_bytes())
}

pub fn run(seed: u64, rounds: u64) -> StressOut {
    let mut out = StressOut { violations: vec![], rounds: 0, kinds: vec![] };
    let nthreads = 8usize;

    // A: of N concurrent CAS stores carrying the same token at most one wins (present key and absent key)
    let mut a_rounds = 0;
    for round in 0..rounds {
        let clock = Arc::new(Clock(AtomicU64::new(0)));
        let store = Arc::new(MemoryStore::new(clock.clone()));
        let present = (round + seed) % 2 == 0;
        let k = key(&format!("k{}", round));
        let token = if present { store.set(k.clone(), Record::new(key("v0"), 0, 0, 0)).unwrap().cas } else { 7 };
        let wins = Arc::new(AtomicUsize::new(0));
        let barrier = Arc::new(Barrier::new(nthreads));
        // through MemcStore (what the handlers call); in half of the rounds every contender writes the very same bytes
        // (the "flip a flag to taken" idiom): a spent CAS must not be honoured again because the payload looks familiar
        let same_payload = (round / 2) % 2 == 0;
        let memc = Arc::new(memcrs::memcache::store::MemcStore::new(store.clone()));
        let hs: Vec<_> = (0..nthreads)
            .map(|i| {
                let (store, k, wins, barrier) = (memc.clone(), k.clone(), wins.clone(), barrier.clone());
                std::thread::spawn(move || {
                    barrier.wait();
                    let payload = if same_payload { "taken".to_string() } else { format!("w{}", i) };
                    if store.set(k, Record::new(key(&payload), token, 0, 0)).is_ok() {
                        wins.fetch_add(1, Ordering::SeqCst);
                    }
                })
            })
            .collect();
        for h in hs {
            let _ = h.join();
        }
        a_rounds += 1;
        let w = wins.load(Ordering::SeqCst);
        if w > 1 {
            out.violations.push((vec!["C03", "C02"], format!("{} of {} concurrent CAS stores carrying the same CAS {} on a{} key were acknowledged (round {})", w, nthreads, token, if present { " present" } else { "n absent" }, round)));
            break;
        }
    }
    out.kinds.push(("one-cas-winner".into(), a_rounds));

    // B: an acknowledged store is not undone by readers collecting its expired predecessor — on the plain store and behind
    // the eviction policy (limit out of reach); in every other round the readers are appends, which must answer 'not found'
    // or extend the NEW value, never the expired one
    let mut b_rounds = 0;
    for round in 0..rounds / 2 {
        let clock = Arc::new(Clock(AtomicU64::new(0)));
        let inner = Arc::new(MemoryStore::new(clock.clone()));
        let behind_policy = round % 2 == 1;
        let store: Arc<dyn Cache + Send + Sync> = if behind_policy { Arc::new(RandomPolicy::new(inner.clone(), 1 << 40)) } else { inner.clone() };
        let memc = Arc::new(memcrs::memcache::store::MemcStore::new(store.clone()));
        let appenders = (round / 2) % 2 == 1;
        // with readers, every other time the new value has the very bytes of the expired one (a refresh with the same content)
        let same_content = !appenders && (round / 4) % 2 == 1;
        let k = key("k");
        store.set(k.clone(), Record::new(key("old"), 0, 0, 1)).unwrap();
        clock.0.store(10, Ordering::SeqCst);
        let barrier = Arc::new(Barrier::new(5));
        let lost = Arc::new(AtomicUsize::new(0));
        let mut hs = vec![];
        for _ in 0..4 {
            let (store, memc, k, barrier) = (store.clone(), memc.clone(), k.clone(), barrier.clone());
            hs.push(std::thread::spawn(move || {
                barrier.wait();
                for _ in 0..20 {
                    if appenders {
                        let _ = memc.append(k.clone(), Record::new(key("+"), 0, 0, 0));
                    } else {
                        let _ = store.get(&k);
                    }
                }
            }));
        }
        {
            let (store, k, barrier, lost) = (store.clone(), k.clone(), barrier.clone(), lost.clone());
            hs.push(std::thread::spawn(move || {
                barrier.wait();
                if store.set(k.clone(), Record::new(key(if same_content { "old" } else { "new" }), 0, 0, 0)).is_ok() && store.get(&k).is_err() {
                    lost.fetch_add(1, Ordering::SeqCst);
                }
            }));
        }
        for h in hs {
            let _ = h.join();
        }
        b_rounds += 1;
        let fin = store.get(&k);
        let where_ = if behind_policy { " (behind eviction policy random, limit out of reach)" } else { "" };
        if lost.load(Ordering::SeqCst) > 0 || fin.is_err() {
            out.violations.push((vec!["C03", "C05", "C20"], format!("a store with TTL 0 acknowledged at time 10 is gone: concurrent {} were collecting its expired predecessor{}{} (round {})", if appenders { "appends" } else { "readers" }, where_, if same_content { ", whose value had the same bytes" } else { "" }, round)));
            break;
        }
        if let Ok(r) = fin {
            let (_, _, _, _, val) = r.verif_view();
            if val.starts_with(b"old") && !same_content {
                out.violations.push((vec!["C05", "C06", "C04", "C03"], format!("an append extended the EXPIRED value 'old' and overwrote the value 'new' stored in the meantime: final value {:?}{} (round {})", String::from_utf8_lossy(val), where_, round)));
                break;
            }
        }
    }
    out.kinds.push(("ack-not-undone".into(), b_rounds));

    // C: fresh-key stores and deletes from many threads: the accounting equals the content at rest
    let mut c_rounds = 0;
    for round in 0..(rounds / 10).max(5) {
        let clock = Arc::new(Clock(AtomicU64::new(0)));
        let inner = Arc::new(MemoryStore::new(clock.clone()));
        let pol = Arc::new(RandomPolicy::new(inner.clone(), 1 << 40));
        let nt = 12usize;
        let barrier = Arc::new(Barrier::new(nt));
        let hs: Vec<_> = (0..nt)
            .map(|i| {
                let (pol, barrier) = (pol.clone(), barrier.clone());
                std::thread::spawn(move || {
                    barrier.wait();
                    for j in 0..80 {
                        let _ = pol.set(key(&format!("t{}-{}", i, j)), Record::new(key("0123456789"), 0, 0, 0));
                    }
                    // all threads turn to deleting at the same moment: the decrements contend
                    barrier.wait();
                    for j in 0..70 {
                        let _ = pol.delete(key(&format!("t{}-{}", i, j)), CacheMetaData::new(0, 0, 0));
                    }
                    // and a mixed phase: stores of new fresh keys against deletes
                    barrier.wait();
                    for j in 80..110 {
                        if (i + j) % 2 == 0 {
                            let _ = pol.set(key(&format!("t{}-{}", i, j)), Record::new(key("abc"), 0, 0, 0));
                        } else {
                            let _ = pol.delete(key(&format!("t{}-{}", i, j - 10)), CacheMetaData::new(0, 0, 0));
                        }
                    }
                })
            })
            .collect();
        for h in hs {
            let _ = h.join();
        }
        c_rounds += 1;
        let stored = crate::sut::Sut::records_of(&inner).iter().map(|(_, r)| 24 + r.value.len() as u64).sum::<u64>();
        let usage = pol.verif_usage();
        if usage != stored {
            out.violations.push((vec!["C15", "C14"], format!("after {} threads stored fresh keys and deleted most of them concurrently (no overwrite, no flush, no expiry), the accounted usage is {} but {} bytes are stored (round {})", nt, usage, stored, round)));
            break;
        }
    }
    out.kinds.push(("accounting-at-rest".into(), c_rounds));
    // D: CAS-guarded read-modify-write: of N concurrent appends carrying the item's current CAS exactly one
    // succeeds and the final value holds exactly its suffix
    let mut d_rounds = 0;
    for round in 0..rounds / 2 {
        let clock = Arc::new(Clock(AtomicU64::new(0)));
        let store = Arc::new(MemoryStore::new(clock.clone()));
        let memc = Arc::new(memcrs::memcache::store::MemcStore::new(store.clone()));
        let k = key("k");
        let tok = memc.set(k.clone(), Record::new(key("base"), 0, 5, 0)).unwrap().cas;
        let wins = Arc::new(AtomicUsize::new(0));
        let barrier = Arc::new(Barrier::new(nthreads));
        let hs: Vec<_> = (0..nthreads)
            .map(|i| {
                let (memc, k, wins, barrier) = (memc.clone(), k.clone(), wins.clone(), barrier.clone());
                std::thread::spawn(move || {
                    barrier.wait();
                    if memc.append(k, Record::new(key(&format!("-{}", i)), tok, 0, 0)).is_ok() {
                        wins.fetch_add(1, Ordering::SeqCst);
                    }
                })
            })
            .collect();
        for h in hs {
            let _ = h.join();
        }
        d_rounds += 1;
        let w = wins.load(Ordering::SeqCst);
        let val = crate::sut::Sut::records_of(&store).first().map(|(_, r)| r.value.clone()).unwrap_or_default();
        if w != 1 || val.len() != 6 {
            out.violations.push((vec!["C04", "C03", "C02"], format!("{} of {} concurrent appends carrying the item's current CAS {} were acknowledged; final value {:?} (round {})", w, nthreads, tok, String::from_utf8_lossy(&val), round)));
            break;
        }
    }
    out.kinds.push(("cas-guarded-append".into(), d_rounds));

    // E: a delete carrying a stale CAS never removes a newer version: after its own acknowledged store a
    // writer must find its item, however many stale deletes race with it
    let mut e_rounds = 0;
    {
        // deleters read the item, then delete it conditionally on the CAS they saw, while a writer keeps
        // overwriting it: a conditional delete may only ever remove the version whose CAS it carries
        let iters = (rounds * 40) as usize;
        let clock = Arc::new(Clock(AtomicU64::new(0)));
        let store = Arc::new(MemoryStore::new(clock.clone()));
        let k = key("k");
        store.set(k.clone(), Record::new(key("v1"), 0, 0, 0)).unwrap();
        let barrier = Arc::new(Barrier::new(5));
        let wrong = Arc::new(std::sync::Mutex::new(None::<(u64, u64)>));
        let stop = Arc::new(std::sync::atomic::AtomicBool::new(false));
        let mut hs = vec![];
        for _ in 0..4 {
            let (store, k, barrier, stop, wrong) = (store.clone(), k.clone(), barrier.clone(), stop.clone(), wrong.clone());
            hs.push(std::thread::spawn(move || {
                barrier.wait();
                while !stop.load(Ordering::Relaxed) {
                    if let Ok(r) = store.get(&k) {
                        let t = r.verif_view().1;
                        if let Ok(removed) = store.delete(k.clone(), CacheMetaData::new(t, 0, 0)) {
                            let rc = removed.verif_view().1;
                            if rc != t {
                                *wrong.lock().unwrap() = Some((t, rc));
                                break;
                            }
                        }
                    }
                }
            }));
        }
        {
            let (store, k, barrier, stop) = (store.clone(), k.clone(), barrier.clone(), stop.clone());
            hs.push(std::thread::spawn(move || {
                barrier.wait();
                for j in 0..iters {
                    let _ = store.set(k.clone(), Record::new(key(&format!("w{}", j)), 0, 0, 0));
                }
                stop.store(true, Ordering::Relaxed);
            }));
        }
        for h in hs {
            let _ = h.join();
        }
        e_rounds += iters as u64;
        let w = *wrong.lock().unwrap();
        if let Some((t, rc)) = w {
            out.violations.push((vec!["C03", "C08", "C02"], format!("a delete carrying CAS {} removed a newer version of the item (CAS {}) that a concurrent store had just acknowledged", t, rc)));
        }
    }
    out.kinds.push(("stale-cas-delete".into(), e_rounds));
    out.rounds = a_rounds + b_rounds + c_rounds + d_rounds + e_rounds;
    out
}
