//! Reference semantics of the *properties* (not of the code): an abstract map from keys to items with
//! opaque CAS tokens and deadlines, deliberately loose wherever the property statements leave room
//! (DESIGN.md Appendix A/F). Every rule is tagged with the property it comes from.
use crate::wire::{self, op, Cmd, ReqHdr, Resp};
use std::collections::HashMap;

#[derive(Clone, Debug, PartialEq)]
pub enum Ttl {
    Known(u32),
    Unknown,
}

#[derive(Clone, Debug)]
pub struct Item {
    pub value: Vec<u8>,
    pub flags: u32,
    pub cas: u64,
    /// from this time on a hit is a violation (None: never)
    pub must_miss_from: Option<u64>,
    /// from this time on a miss is acceptable without further cause (None: never)
    pub may_miss_from: Option<u64>,
    pub ttl: Ttl,
    /// CAS values carried during the current lifetime (None: lifetime outside the uniqueness claim)
    pub lifetime: Option<Vec<u64>>,
    pub flush_marked: bool,
    pub line: usize,
    /// property that speaks about the command kind that wrote this version
    pub by: &'static str,
}

#[derive(Clone, Debug, PartialEq)]
pub enum Why {
    Never,
    Deleted,
    Flushed,
    Expired,
}

#[derive(Clone, Debug)]
pub enum KState {
    Absent(Why),
    Live(Item),
    Unknown,
}

#[derive(Clone, Debug)]
pub struct Violation {
    pub props: Vec<&'static str>,
    pub line: usize,
    pub msg: String,
}

#[derive(Default)]
pub struct Oracle {
    pub keys: HashMap<Vec<u8>, KState>,
    pub violations: Vec<Violation>,
    pub checks: u64,
    /// the last command judged: (key it addressed, property that speaks about its kind, carried a cas)
    pub last: Option<(Vec<u8>, &'static str, bool)>,
}

#[derive(PartialEq, Clone, Copy, Debug)]
enum Pres {
    Present,
    Absent,
    Zombie,
    Maybe,
    Unknown,
}

fn deadline(now: u64, ttl: u32) -> Option<u64> {
    if ttl == 0 {
        None
    } else {
        Some(now + ttl as u64)
    }
}

fn strict_decimal(v: &[u8]) -> Option<u64> {
    if v.is_empty() || !v.iter().all(|c| c.is_ascii_digit()) {
        return None;
    }
    let mut acc: u128 = 0;
    for c in v {
        acc = acc * 10 + (*c - b'0') as u128;
        if acc > u64::MAX as u128 {
            return None;
        }
    }
    Some(acc as u64)
}

fn plus_decimal(v: &[u8]) -> Option<u64> {
    if v.len() >= 2 && v[0] == b'+' {
        strict_decimal(&v[1..])
    } else {
        None
    }
}

/// what came back for one request
pub enum Seen<'a> {
    Silent,
    Resp(&'a Resp),
}

impl<'a> Seen<'a> {
    /// status as the loud command would have reported it, given the quiet rules:
    /// for a quiet mutation silence means success, for a quiet get silence means miss
    fn status(&self, quiet_silent_means: u16) -> u16 {
        match self {
            Seen::Silent => quiet_silent_means,
            Seen::Resp(r) => r.status,
        }
    }
    fn cas(&self) -> Option<u64> {
        match self {
            Seen::Silent => None,
            Seen::Resp(r) => Some(r.cas),
        }
    }
}

impl Oracle {
    pub fn new() -> Oracle {
        Oracle::default()
    }

    fn viol(&mut self, props: &[&'static str], line: usize, msg: String) {
        self.violations.push(Violation { props: props.to_vec(), line, msg });
    }

    fn pres(&self, key: &[u8], now: u64) -> Pres {
        match self.keys.get(key) {
            None => Pres::Absent,
            Some(KState::Absent(_)) => Pres::Absent,
            Some(KState::Unknown) => Pres::Unknown,
            Some(KState::Live(it)) => {
                if it.must_miss_from.map_or(false, |d| now >= d) {
                    Pres::Zombie
                } else if it.may_miss_from.map_or(false, |d| now >= d) {
                    Pres::Maybe
                } else {
                    Pres::Present
                }
            }
        }
    }

    fn item(&self, key: &[u8]) -> Option<&Item> {
        match self.keys.get(key) {
            Some(KState::Live(it)) => Some(it),
            _ => None,
        }
    }

    fn why_absent(&self, key: &[u8]) -> Why {
        match self.keys.get(key) {
            Some(KState::Absent(w)) => w.clone(),
            _ => Why::Never,
        }
    }

    /// record a successful mutation
    #[allow(clippy::too_many_arguments)]
    fn stored(&mut self, line: usize, key: &[u8], value: Vec<u8>, flags: u32, ack_cas: Option<u64>, must: Option<u64>, may: Option<u64>, ttl: Ttl, continues: bool, excluded: bool) {
        let prev = if continues { self.item(key).cloned() } else { None };
        let by: &'static str = self.last.as_ref().map(|l| l.1).unwrap_or("C01");
        let mut lifetime = if excluded {
            None
        } else {
            match &prev {
                Some(p) => p.lifetime.clone(),
                None => Some(vec![]),
            }
        };
        match ack_cas {
            Some(c) => {
                if c == 0 {
                    self.viol(&["C01", "C02"], line, format!("acknowledged mutation of key {} reports cas 0", wire::kx(key)));
                }
                if let Some(l) = &mut lifetime {
                    if l.contains(&c) {
                        self.viol(&["C02"], line, format!("cas {} given to key {} was already carried during this lifetime {:?}", c, wire::kx(key), l));
                    }
                    l.push(c);
                }
                self.keys.insert(key.to_vec(), KState::Live(Item { value, flags, cas: c, must_miss_from: must, may_miss_from: may, ttl, lifetime, flush_marked: false, line, by }));
            }
            None => {
                // quiet success: the new cas is learnt from the next hit; uniqueness is checked then
                self.keys.insert(key.to_vec(), KState::Live(Item { value, flags, cas: 0, must_miss_from: must, may_miss_from: may, ttl, lifetime, flush_marked: false, line, by }));
            }
        }
    }

    pub fn observe(&mut self, line: usize, now: u64, h: &ReqHdr, cmd: &Cmd, seen: Seen) {
        self.checks += 1;
        self.last = match cmd {
            Cmd::Get { key, .. } => Some((key.clone(), if self.pres(key, now) == Pres::Zombie { "C05" } else { "C01" }, false)),
            Cmd::Store { kind, key, .. } => Some((key.clone(), if *kind == op::SET { "C01" } else { "C06" }, h.cas != 0)),
            Cmd::Concat { key, .. } => Some((key.clone(), "C06", h.cas != 0)),
            Cmd::Delta { key, .. } => Some((key.clone(), "C07", h.cas != 0)),
            Cmd::Delete { key, .. } => Some((key.clone(), "C08", h.cas != 0)),
            Cmd::Flush { .. } => Some((vec![], "C08", false)),
            _ => None,
        };
        match cmd {
            Cmd::Get { key, .. } => self.get(line, now, key, seen),
            Cmd::Store { kind, key, value, flags, exp, .. } => self.store(line, now, *kind, key, value, *flags, *exp, h.cas, seen),
            Cmd::Concat { append, key, value, .. } => self.concat(line, now, *append, key, value, h.cas, seen),
            Cmd::Delta { incr, key, delta, initial, exp, .. } => self.delta(line, now, *incr, key, *delta, *initial, *exp, h.cas, seen),
            Cmd::Delete { key, .. } => self.delete(line, now, key, h.cas, seen),
            Cmd::Flush { delay, .. } => self.flush(now, *delay),
            Cmd::Noop | Cmd::Version | Cmd::Stat | Cmd::Quit { .. } | Cmd::Unsupported => {}
            Cmd::NonStandard => {
                // effect not specified by any property: forget what we knew
                for v in self.keys.values_mut() {
                    *v = KState::Unknown;
                }
            }
        }
    }

    fn get(&mut self, line: usize, now: u64, key: &[u8], seen: Seen) {
        let hit = match &seen {
            Seen::Silent => None,
            Seen::Resp(r) => {
                if r.status == 0 {
                    Some(*r)
                } else {
                    None
                }
            }
        };
        let kx = wire::kx(key);
        match self.pres(key, now) {
            Pres::Absent => {
                if hit.is_some() {
                    let why = self.why_absent(key);
                    let props: &[&'static str] = match why {
                        Why::Expired => &["C05"],
                        Why::Deleted | Why::Flushed => &["C08"],
                        Why::Never => &["C01"],
                    };
                    self.viol(props, line, format!("get {} hits although the key is absent ({:?})", kx, why));
                    self.keys.insert(key.to_vec(), KState::Unknown);
                }
            }
            Pres::Zombie => {
                if hit.is_some() {
                    let it = self.item(key).unwrap().clone();
                    let props: &[&'static str] = if it.flush_marked { &["C05", "C08"] } else { &["C05"] };
                    self.viol(props, line, format!("get {} hits at time {} although its deadline {:?} has passed (stored at line {})", kx, now, it.must_miss_from, it.line));
                    self.keys.insert(key.to_vec(), KState::Unknown);
                } else {
                    self.keys.insert(key.to_vec(), KState::Absent(Why::Expired));
                }
            }
            p @ (Pres::Present | Pres::Maybe) => {
                let it = self.item(key).unwrap().clone();
                match hit {
                    None => {
                        if p == Pres::Present {
                            let mut props = vec!["C01"];
                            if it.must_miss_from.is_some() {
                                props.push("C05");
                            }
                            self.viol(&props, line, format!("get {} misses at time {} although the item stored at line {} is live (deadline {:?})", kx, now, it.line, it.must_miss_from));
                            self.keys.insert(key.to_vec(), KState::Unknown);
                        } else {
                            self.keys.insert(key.to_vec(), KState::Absent(if it.flush_marked { Why::Flushed } else { Why::Expired }));
                        }
                    }
                    Some(r) => {
                        let rflags = if r.extras.len() == 4 { u32::from_be_bytes(r.extras[..].try_into().unwrap()) } else { 0 };
                        if r.value != it.value {
                            self.viol(&[it.by], line, format!("get {} returns value {} but the last acknowledged mutation (line {}) stored {}", kx, wire::hexd(&r.value), it.line, wire::hexd(&it.value)));
                        }
                        if r.extras.len() == 4 && rflags != it.flags {
                            self.viol(&[it.by], line, format!("get {} returns flags {:#x} but the last acknowledged mutation (line {}) left flags {:#x}", kx, rflags, it.line, it.flags));
                        }
                        if r.cas == 0 {
                            self.viol(&["C01"], line, format!("get {} reports cas 0", kx));
                        }
                        if it.cas != 0 && r.cas != it.cas {
                            self.viol(&["C02"], line, format!("get {} reports cas {} but the mutation at line {} acknowledged cas {}", kx, r.cas, it.line, it.cas));
                        }
                        if let Some(KState::Live(cur)) = self.keys.get_mut(key) {
                            if cur.cas == 0 && r.cas != 0 {
                                // cas of a quiet mutation learnt now
                                if let Some(l) = &mut cur.lifetime {
                                    if l.contains(&r.cas) {
                                        let l2 = l.clone();
                                        self.violations.push(Violation { props: vec!["C02"], line, msg: format!("cas {} of key {} was already carried during this lifetime {:?}", r.cas, kx, l2) });
                                    } else {
                                        l.push(r.cas);
                                    }
                                }
                            }
                            cur.cas = r.cas;
                            cur.value = r.value.clone();
                            if r.extras.len() == 4 {
                                cur.flags = rflags;
                            }
                        }
                    }
                }
            }
            Pres::Unknown => match hit {
                Some(r) => {
                    let rflags = if r.extras.len() == 4 { u32::from_be_bytes(r.extras[..].try_into().unwrap()) } else { 0 };
                    self.keys.insert(
                        key.to_vec(),
                        KState::Live(Item { value: r.value.clone(), flags: rflags, cas: r.cas, must_miss_from: None, may_miss_from: Some(0), ttl: Ttl::Unknown, lifetime: None, flush_marked: false, line, by: "C01" }),
                    );
                }
                None => {
                    self.keys.insert(key.to_vec(), KState::Absent(Why::Never));
                }
            },
        }
    }

    /// outcome of a cas-carrying mutation on an item that may or may not be there
    fn cas_rule(&mut self, line: usize, what: &str, key: &[u8], pres: Pres, req_cas: u64, status: u16) -> bool {
        // returns true when the mutation succeeded
        let ok = status == 0;
        if pres == Pres::Present {
            let cur = self.item(key).unwrap().cas;
            if req_cas != 0 && cur != 0 {
                if req_cas == cur && !ok {
                    self.viol(&["C02"], line, format!("{} on {} carrying the current cas {} was rejected with status {:#x}", what, wire::kx(key), cur, status));
                }
                if req_cas != cur && ok {
                    self.viol(&["C02"], line, format!("{} on {} carrying cas {} succeeded although the current cas is {}", what, wire::kx(key), req_cas, cur));
                }
                if req_cas != cur && !ok && status != 0x02 {
                    self.viol(&["C02"], line, format!("{} on {} with a stale cas failed with status {:#x}, not 'key exists'", what, wire::kx(key), status));
                }
            }
        }
        ok
    }

    #[allow(clippy::too_many_arguments)]
    fn store(&mut self, line: usize, now: u64, kind: u8, key: &[u8], value: &[u8], flags: u32, exp: u32, cas: u64, seen: Seen) {
        let status = seen.status(0);
        let ack = seen.cas();
        let pres = self.pres(key, now);
        let dl = deadline(now, exp);
        let kx = wire::kx(key);
        let ok = status == 0;
        match kind {
            op::SET => {
                match pres {
                    Pres::Present => {
                        let cur = self.item(key).unwrap().cas;
                        if cur == 0 && cas != 0 {
                            // current cas unknown (quiet mutation not yet observed): learn only
                            if ok {
                                self.stored(line, key, value.to_vec(), flags, ack, dl, dl, Ttl::Known(exp), true, false);
                            }
                            return;
                        }
                        let ok = self.cas_rule(line, "set", key, pres, cas, status);
                        if ok {
                            self.stored(line, key, value.to_vec(), flags, ack, dl, dl, Ttl::Known(exp), true, false);
                        }
                    }
                    Pres::Absent | Pres::Zombie | Pres::Maybe | Pres::Unknown => {
                        if pres == Pres::Maybe && cas != 0 && cas == self.item(key).unwrap().cas && !ok {
                            self.viol(&["C02"], line, format!("set on {} carrying the current cas was rejected with status {:#x}", kx, status));
                        }
                        if ok {
                            // a new lifetime; begun by a non-zero cas it is outside the uniqueness claim
                            self.stored(line, key, value.to_vec(), flags, ack, dl, dl, Ttl::Known(exp), false, cas != 0);
                        }
                    }
                }
            }
            op::ADD => match pres {
                Pres::Present => {
                    if ok {
                        self.viol(&["C06"], line, format!("add on {} succeeded although the key holds a live item (stored at line {})", kx, self.item(key).unwrap().line));
                        self.stored(line, key, value.to_vec(), flags, ack, dl, dl, Ttl::Known(exp), false, true);
                    } else if status != 0x02 {
                        self.viol(&["C06"], line, format!("add on the present key {} failed with status {:#x}, not 'key exists'", kx, status));
                    }
                }
                Pres::Absent | Pres::Zombie => {
                    // add looks the key up first: an absent or expired key is stored to, whatever CAS the request carries
                    if !ok {
                        let props: &[&'static str] = if pres == Pres::Zombie { &["C05", "C06"] } else { &["C06"] };
                        self.viol(props, line, format!("add on the absent{} key {} was rejected with status {:#x}", if pres == Pres::Zombie { " (expired)" } else { "" }, kx, status));
                    }
                    if ok {
                        self.stored(line, key, value.to_vec(), flags, ack, dl, dl, Ttl::Known(exp), false, cas != 0);
                    } else if pres == Pres::Zombie {
                        self.keys.insert(key.to_vec(), KState::Unknown);
                    }
                }
                Pres::Maybe | Pres::Unknown => {
                    if ok {
                        self.stored(line, key, value.to_vec(), flags, ack, dl, dl, Ttl::Known(exp), false, true);
                    }
                }
            },
            _ => match pres {
                // REPLACE
                Pres::Present => {
                    let cur = self.item(key).unwrap().cas;
                    if cur == 0 && cas != 0 {
                        if ok {
                            self.stored(line, key, value.to_vec(), flags, ack, dl, dl, Ttl::Known(exp), true, false);
                        }
                        return;
                    }
                    if cas == 0 && !ok {
                        self.viol(&["C06"], line, format!("replace on the present key {} was rejected with status {:#x}", kx, status));
                    }
                    let ok = self.cas_rule(line, "replace", key, pres, cas, status);
                    if ok {
                        self.stored(line, key, value.to_vec(), flags, ack, dl, dl, Ttl::Known(exp), true, false);
                    }
                }
                Pres::Absent | Pres::Zombie => {
                    if ok {
                        let props: &[&'static str] = if pres == Pres::Zombie { &["C05", "C06"] } else { &["C06"] };
                        self.viol(props, line, format!("replace on the absent{} key {} succeeded", if pres == Pres::Zombie { " (expired)" } else { "" }, kx));
                        self.stored(line, key, value.to_vec(), flags, ack, dl, dl, Ttl::Known(exp), false, true);
                    } else {
                        if status != 0x01 {
                            self.viol(&["C06"], line, format!("replace on the absent key {} failed with status {:#x}, not 'not found'", kx, status));
                        }
                        if pres == Pres::Zombie {
                            self.keys.insert(key.to_vec(), KState::Absent(Why::Expired));
                        }
                    }
                }
                Pres::Maybe | Pres::Unknown => {
                    if ok {
                        self.stored(line, key, value.to_vec(), flags, ack, dl, dl, Ttl::Known(exp), false, true);
                    } else if status == 0x01 {
                        self.keys.insert(key.to_vec(), KState::Absent(Why::Expired));
                    }
                }
            },
        }
    }

    #[allow(clippy::too_many_arguments)]
    fn concat(&mut self, line: usize, now: u64, append: bool, key: &[u8], value: &[u8], cas: u64, seen: Seen) {
        let status = seen.status(0);
        let ack = seen.cas();
        let pres = self.pres(key, now);
        let kx = wire::kx(key);
        let ok = status == 0;
        let what = if append { "append" } else { "prepend" };
        match pres {
            Pres::Present | Pres::Maybe => {
                let it = self.item(key).unwrap().clone();
                if pres == Pres::Present && it.cas != 0 {
                    if cas == 0 && !ok {
                        self.viol(&["C06"], line, format!("{} on the present key {} was rejected with status {:#x}", what, kx, status));
                    }
                    self.cas_rule(line, what, key, pres, cas, status);
                }
                if ok {
                    let nv = if append { [&it.value[..], value].concat() } else { [value, &it.value[..]].concat() };
                    let (must, may, ttl) = match it.ttl {
                        Ttl::Known(t) => (deadline(now, t), deadline(now, t), Ttl::Known(t)),
                        Ttl::Unknown => (None, Some(now), Ttl::Unknown),
                    };
                    self.stored(line, key, nv, it.flags, ack, must, may, ttl, pres == Pres::Present, pres != Pres::Present);
                } else if pres == Pres::Maybe && status == 0x01 {
                    self.keys.insert(key.to_vec(), KState::Absent(Why::Expired));
                }
            }
            Pres::Absent | Pres::Zombie => {
                if ok {
                    let props: &[&'static str] = if pres == Pres::Zombie { &["C05", "C06"] } else { &["C06"] };
                    self.viol(props, line, format!("{} on the absent{} key {} succeeded", what, if pres == Pres::Zombie { " (expired)" } else { "" }, kx));
                    self.keys.insert(key.to_vec(), KState::Unknown);
                } else if pres == Pres::Zombie {
                    self.keys.insert(key.to_vec(), KState::Absent(Why::Expired));
                }
            }
            Pres::Unknown => {}
        }
    }

    #[allow(clippy::too_many_arguments)]
    fn delta(&mut self, line: usize, now: u64, incr: bool, key: &[u8], delta: u64, initial: u64, exp: u32, cas: u64, seen: Seen) {
        let status = seen.status(0);
        let ack = seen.cas();
        let pres = self.pres(key, now);
        let kx = wire::kx(key);
        let ok = status == 0;
        let what = if incr { "incr" } else { "decr" };
        let rvalue: Option<u64> = match &seen {
            Seen::Resp(r) if r.status == 0 && r.value.len() == 8 => Some(u64::from_be_bytes(r.value[..].try_into().unwrap())),
            _ => None,
        };
        let compute = |v: u64| if incr { v.wrapping_add(delta) } else { v.saturating_sub(delta) };
        match pres {
            Pres::Present => {
                let it = self.item(key).unwrap().clone();
                if let Some(v) = strict_decimal(&it.value) {
                    if cas != 0 && it.cas != 0 && cas != it.cas {
                        self.cas_rule(line, what, key, pres, cas, status);
                        if ok {
                            self.keys.insert(key.to_vec(), KState::Unknown);
                        }
                        return;
                    }
                    if cas != 0 && it.cas == 0 {
                        self.keys.insert(key.to_vec(), KState::Unknown);
                        return;
                    }
                    if !ok {
                        self.viol(&["C07"], line, format!("{} on {} holding the decimal {} failed with status {:#x}", what, kx, v, status));
                        return;
                    }
                    let nv = compute(v);
                    if let Some(rv) = rvalue {
                        if rv != nv {
                            self.viol(&["C07"], line, format!("{} of {} by {} returned {} instead of {}", what, v, delta, rv, nv));
                        }
                    } else if matches!(seen, Seen::Resp(_)) {
                        self.viol(&["C07", "C11"], line, format!("{} success response carries no 8-byte counter", what));
                    }
                    let c1 = match it.ttl {
                        Ttl::Known(t) => Some(deadline(now, t)),
                        Ttl::Unknown => None,
                    };
                    let c2 = deadline(now, exp);
                    let (must, may, ttl) = match c1 {
                        Some(c1) => {
                            let must = match (c1, c2) {
                                (Some(a), Some(b)) => Some(a.max(b)),
                                _ => None,
                            };
                            let may = match (c1, c2) {
                                (Some(a), Some(b)) => Some(a.min(b)),
                                (Some(a), None) | (None, Some(a)) => Some(a),
                                (None, None) => None,
                            };
                            (must, may, if it.ttl == Ttl::Known(exp) { Ttl::Known(exp) } else { Ttl::Unknown })
                        }
                        None => (None, Some(now), Ttl::Unknown),
                    };
                    self.stored(line, key, nv.to_string().into_bytes(), it.flags, ack, must, may, ttl, true, false);
                } else if let Some(v) = plus_decimal(&it.value) {
                    // "+digits": neither a decimal u64 nor clearly non-numeric — unconstrained
                    let _ = v;
                    if ok {
                        self.keys.insert(key.to_vec(), KState::Unknown);
                    }
                } else {
                    if ok {
                        self.viol(&["C07"], line, format!("{} on {} holding the non-numeric value {} succeeded", what, kx, wire::hexd(&it.value)));
                        self.keys.insert(key.to_vec(), KState::Unknown);
                    } else if status != 0x06 && !(cas != 0 && cas != it.cas && status == 0x02) {
                        self.viol(&["C07"], line, format!("{} on {} holding a non-numeric value failed with status {:#x}, not 'non-numeric value'", what, kx, status));
                    }
                }
            }
            Pres::Absent | Pres::Zombie => {
                if exp == 0xffff_ffff {
                    if ok {
                        self.viol(&["C07"], line, format!("{} with expiration 0xffffffff created the absent key {}", what, kx));
                        self.keys.insert(key.to_vec(), KState::Unknown);
                    } else {
                        if status != 0x01 {
                            self.viol(&["C07"], line, format!("{} with expiration 0xffffffff on the absent key {} failed with status {:#x}, not 'not found'", what, kx, status));
                        }
                        if pres == Pres::Zombie {
                            self.keys.insert(key.to_vec(), KState::Absent(Why::Expired));
                        }
                    }
                } else if ok {
                    if let Some(rv) = rvalue {
                        if rv != initial {
                            self.viol(&["C07"], line, format!("{} creating {} returned {} instead of the initial value {}", what, kx, rv, initial));
                        }
                    }
                    let dl = deadline(now, exp);
                    self.stored(line, key, initial.to_string().into_bytes(), 0, ack, dl, dl, Ttl::Known(exp), false, cas != 0);
                } else {
                    if cas == 0 {
                        let props: &[&'static str] = if pres == Pres::Zombie { &["C05", "C07"] } else { &["C07"] };
                        self.viol(props, line, format!("{} on the absent{} key {} did not create it (status {:#x})", what, if pres == Pres::Zombie { " (expired)" } else { "" }, kx, status));
                    }
                    if pres == Pres::Zombie {
                        self.keys.insert(key.to_vec(), KState::Unknown);
                    }
                }
            }
            Pres::Maybe | Pres::Unknown => {
                // the item may have expired unseen (e.g. after a delayed flush whose deadline the history does not
                // pin down): a success either updated the live item (flags kept) or re-created the key (flags 0).
                // The returned counter tells the two apart unless both readings give the same number.
                if ok && pres == Pres::Maybe {
                    if let (Some(rv), Some(it)) = (rvalue, self.item(key).cloned()) {
                        if strict_decimal(&it.value).is_none() && plus_decimal(&it.value).is_some() {
                            // "+digits": whether it counts as a number is unconstrained, so a success may be an update of the
                            // live item (flags kept) as well as a creation — the returned number cannot tell
                            self.keys.insert(key.to_vec(), KState::Unknown);
                            return;
                        }
                        let live_val = strict_decimal(&it.value).map(compute);
                        let could_live = live_val == Some(rv);
                        let could_create = rv == initial && exp != 0xffff_ffff;
                        if could_create && !could_live {
                            let dl = deadline(now, exp);
                            self.stored(line, key, initial.to_string().into_bytes(), 0, ack, dl, dl, Ttl::Known(exp), false, cas != 0);
                            return;
                        }
                        if could_create && could_live {
                            self.keys.insert(key.to_vec(), KState::Unknown);
                            return;
                        }
                    }
                }
                if ok {
                    match rvalue {
                        Some(rv) => {
                            let fl = self.item(key).map(|i| i.flags);
                            self.keys.insert(
                                key.to_vec(),
                                KState::Live(Item { value: rv.to_string().into_bytes(), flags: fl.unwrap_or(0), cas: ack.unwrap_or(0), must_miss_from: None, may_miss_from: Some(now), ttl: Ttl::Unknown, lifetime: None, flush_marked: false, line, by: "C01" }),
                            );
                            if fl.is_none() {
                                self.keys.insert(key.to_vec(), KState::Unknown);
                            }
                        }
                        None => {
                            self.keys.insert(key.to_vec(), KState::Unknown);
                        }
                    }
                } else if pres == Pres::Maybe && status == 0x01 {
                    self.keys.insert(key.to_vec(), KState::Absent(Why::Expired));
                }
            }
        }
    }

    fn delete(&mut self, line: usize, now: u64, key: &[u8], cas: u64, seen: Seen) {
        let status = seen.status(0);
        let pres = self.pres(key, now);
        let kx = wire::kx(key);
        let ok = status == 0;
        match pres {
            Pres::Present => {
                let cur = self.item(key).unwrap().cas;
                if cas == 0 || cur == 0 {
                    if cas == 0 && !ok {
                        self.viol(&["C08"], line, format!("delete of the present key {} failed with status {:#x}", kx, status));
                    }
                    if ok {
                        self.keys.insert(key.to_vec(), KState::Absent(Why::Deleted));
                    } else if cur == 0 {
                        self.keys.insert(key.to_vec(), KState::Unknown);
                    }
                } else {
                    if cas == cur && !ok {
                        self.viol(&["C08", "C02"], line, format!("delete of {} carrying the current cas {} failed with status {:#x}", kx, cur, status));
                    }
                    if cas != cur && ok {
                        self.viol(&["C08", "C02"], line, format!("delete of {} carrying cas {} succeeded although the current cas is {}", kx, cas, cur));
                    }
                    if cas != cur && !ok && status != 0x02 {
                        self.viol(&["C08", "C02"], line, format!("delete of {} with a stale cas failed with status {:#x}, not 'key exists'", kx, status));
                    }
                    if ok {
                        self.keys.insert(key.to_vec(), KState::Absent(Why::Deleted));
                    }
                }
            }
            Pres::Absent => {
                if ok {
                    self.viol(&["C08"], line, format!("delete of the absent key {} reports success", kx));
                } else if status != 0x01 {
                    self.viol(&["C08"], line, format!("delete of the absent key {} failed with status {:#x}, not 'not found'", kx, status));
                }
            }
            Pres::Zombie | Pres::Maybe => {
                if ok || status == 0x01 {
                    let w = if ok { Why::Deleted } else { Why::Expired };
                    self.keys.insert(key.to_vec(), KState::Absent(w));
                }
            }
            Pres::Unknown => {
                if ok || status == 0x01 {
                    self.keys.insert(key.to_vec(), KState::Absent(Why::Deleted));
                }
            }
        }
    }

    fn flush(&mut self, now: u64, delay: u32) {
        if delay == 0 {
            let ks: Vec<Vec<u8>> = self.keys.keys().cloned().collect();
            for k in ks {
                self.keys.insert(k, KState::Absent(Why::Flushed));
            }
        } else {
            let fd = now + delay as u64;
            for v in self.keys.values_mut() {
                match v {
                    KState::Live(it) => {
                        let newmust = match it.must_miss_from {
                            Some(d) if d <= fd => Some(d),
                            _ => {
                                it.flush_marked = true;
                                Some(fd)
                            }
                        };
                        it.must_miss_from = newmust;
                        it.may_miss_from = Some(it.may_miss_from.map_or(now, |m| m.min(now)));
                        it.ttl = Ttl::Unknown;
                    }
                    KState::Unknown => {}
                    KState::Absent(_) => {}
                }
            }
        }
    }

    /// compare the physical content at the end of a program with what the history implies
    pub fn final_dump(&mut self, line: usize, now: u64, recs: &[(Vec<u8>, crate::sut::DumpRec)]) {
        let keys: Vec<Vec<u8>> = self.keys.keys().cloned().collect();
        let last = self.last.clone();
        for k in keys {
            // the property that speaks about the command that ran just before this dump
            let mut blame: Vec<&'static str> = match &last {
                Some((lk, p, c)) if *lk == k || (lk.is_empty() && *p == "C08") => {
                    let mut v = vec![*p];
                    if *c {
                        v.push("C02");
                    }
                    v
                }
                _ => vec!["C01"], // a command addressed to another key (or no key) changed this one
            };
            blame.dedup();
            let found = recs.iter().find(|(kk, _)| *kk == k).map(|(_, r)| r.clone());
            match self.pres(&k, now) {
                Pres::Present => {
                    let it = self.item(&k).unwrap().clone();
                    match found {
                        None => {
                            self.viol(&blame, line, format!("key {} stored at line {} is live but missing from the store", wire::kx(&k), it.line));
                            self.keys.insert(k.clone(), KState::Unknown);
                        }
                        Some(r) => {
                            if r.value != it.value || r.flags != it.flags || (it.cas != 0 && r.cas != it.cas) {
                                self.viol(&blame, line, format!("key {} holds ({}, {:#x}, cas {}) but the history implies ({}, {:#x}, cas {})", wire::kx(&k), wire::hexd(&r.value), r.flags, r.cas, wire::hexd(&it.value), it.flags, it.cas));
                                self.keys.insert(k.clone(), KState::Unknown);
                            }
                        }
                    }
                }
                Pres::Absent => {
                    if found.is_some() {
                        match self.why_absent(&k) {
                            Why::Deleted | Why::Flushed => {
                                self.viol(&["C08"], line, format!("key {} was deleted/flushed but is still stored", wire::kx(&k)));
                                self.keys.insert(k.clone(), KState::Unknown);
                            }
                            _ => {}
                        }
                    }
                }
                _ => {}
            }
        }
    }
}

/// C11: every response is a well-formed, correctly correlated frame
pub fn wellformed(req: &ReqHdr, req_key: &[u8], bytes: &[u8]) -> Result<(), String> {
    let r = wire::parse_resp(bytes)?;
    if r.opcode != req.opcode {
        return Err(format!("opcode {:#x} does not echo the request's {:#x}", r.opcode, req.opcode));
    }
    if r.opaque != req.opaque {
        return Err(format!("opaque {:#x} does not echo the request's {:#x}", r.opaque, req.opaque));
    }
    if r.datatype != 0 {
        return Err(format!("data type {}", r.datatype));
    }
    const STATUSES: &[u16] = &[0, 1, 2, 3, 4, 5, 6, 0x20, 0x21, 0x81, 0x82, 0x83, 0x84, 0x85, 0x86];
    if !STATUSES.contains(&r.status) {
        return Err(format!("status {:#x} is not in the protocol's table", r.status));
    }
    if r.status != 0 {
        if r.key_len != 0 || r.extras_len != 0 {
            return Err("error response with key or extras".to_string());
        }
        if r.value.is_empty() || !r.value.iter().all(|c| (0x20..0x7f).contains(c)) {
            return Err("error response without a printable message text".to_string());
        }
        return Ok(());
    }
    match req.opcode {
        0x00 | 0x09 | 0x0c | 0x0d => {
            if r.extras_len != 4 {
                return Err(format!("hit with {} extras bytes instead of 4 flag bytes", r.extras_len));
            }
            let with_key = req.opcode == 0x0c || req.opcode == 0x0d;
            if with_key && r.key != req_key {
                return Err("get-key hit does not echo the key".to_string());
            }
            if !with_key && r.key_len != 0 {
                return Err("plain get hit carries a key".to_string());
            }
            if r.cas == 0 {
                return Err("hit with cas 0".to_string());
            }
        }
        0x05 | 0x06 | 0x15 | 0x16 => {
            if r.body_len != 8 || r.extras_len != 0 || r.key_len != 0 {
                return Err(format!("counter response with body {} extras {} key {}", r.body_len, r.extras_len, r.key_len));
            }
        }
        0x0b | 0x10 => {
            if r.extras_len != 0 || r.key_len != 0 {
                return Err("version response with key or extras".to_string());
            }
        }
        _ => {
            if r.body_len != 0 {
                return Err(format!("success response of opcode {:#x} with a {}-byte body", r.opcode, r.body_len));
            }
        }
    }
    Ok(())
}
