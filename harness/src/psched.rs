//! Suite `sched`, profile `C14deep`: schedules *inside* `RandomPolicy`. The gate sits between RandomPolicy and the
//! MemoryStore (every inner call — len, remove_if, set, delete, get, flush — is one grant) and in front of
//! `RandomPolicy::set` (so that the order of the `fetch_add`s is the schedule's, not the OS's). One grant lets a
//! thread run from one inner call up to the next; the counter operations between two inner calls belong to the
//! grant before them. The log of granted calls (with the victim `remove_if` removed and whether `len` was 0) is
//! what the Lean micro-step model (`Model/PolConc`) replays: line `psched t0 t1 <thread>:<call>[:<victim>] ...`.
use crate::rng::Rng;
use crate::sched::{canon, fmt_results, hexes, interleavings, run_one_pub, Gate, SchedStats, TID};
use crate::sut::Clock;
use crate::wire::{self, hex, op};
use memcrs::cache::cache::{impl_details::CacheImplDetails, Cache, CacheMetaData, CachePredicate, CacheReadOnlyView, KeyType, Record, RemoveIfResult, SetStatus};
use memcrs::cache::error::Result as CResult;
use memcrs::memcache::random_policy::RandomPolicy;
use memcrs::memcache::store::MemcStore;
use memcrs::memcache_server::handler::BinaryHandler;
use memcrs::memory_store::store::MemoryStore;
use std::sync::atomic::{AtomicU64, Ordering};
use std::sync::{Arc, Mutex};
use std::time::Duration;

/// between RandomPolicy and the MemoryStore
pub struct InnerGate {
    pub mem: Arc<MemoryStore>,
    pub gate: Arc<Gate>,
    /// (index in the gate log, detail): victim of a remove_if ("-" = none), result of len
    pub extra: Arc<Mutex<Vec<(usize, String)>>>,
}

impl InnerGate {
    fn note(&self, s: String) {
        if TID.with(|t| t.get()).is_none() {
            return;
        }
        let idx = self.gate.mu.lock().unwrap().log.len().saturating_sub(1);
        self.extra.lock().unwrap().push((idx, s));
    }
}

impl CacheImplDetails for InnerGate {
    fn get_by_key(&self, key: &KeyType) -> CResult<Record> {
        self.mem.get_by_key(key)
    }
    fn check_if_expired(&self, key: &KeyType, record: &Record) -> bool {
        self.mem.check_if_expired(key, record)
    }
}

impl Cache for InnerGate {
    fn get(&self, key: &KeyType) -> CResult<Record> {
        self.gate.enter("get");
        self.mem.get(key)
    }
    fn set(&self, key: KeyType, record: Record) -> CResult<SetStatus> {
        self.gate.enter("set");
        self.mem.set(key, record)
    }
    fn delete(&self, key: KeyType, header: CacheMetaData) -> CResult<Record> {
        self.gate.enter("delete");
        self.mem.delete(key, header)
    }
    fn flush(&self, header: CacheMetaData) {
        self.gate.enter("flush");
        self.mem.flush(header)
    }
    fn len(&self) -> usize {
        self.gate.enter("len");
        let n = self.mem.len();
        self.note(format!("{}", n));
        n
    }
    fn is_empty(&self) -> bool {
        self.mem.is_empty()
    }
    fn as_read_only(&self) -> Box<dyn CacheReadOnlyView> {
        self.mem.as_read_only()
    }
    fn remove_if(&self, f: &mut CachePredicate) -> RemoveIfResult {
        self.gate.enter("rm");
        let r = self.mem.remove_if(f);
        let victims: Vec<String> = r.iter().filter_map(|x| x.as_ref().map(|(k, _)| hex(k))).collect();
        self.note(if victims.is_empty() { "-".to_string() } else { victims.join("+") });
        r
    }
    fn remove(&self, key: &KeyType) -> Option<(KeyType, Record)> {
        // the unchanged policy never asks this of its store; if it does, the call is a step of its own
        self.gate.enter("remove");
        self.mem.remove(key)
    }
}

/// in front of RandomPolicy: only `set` waits (its first action is the `fetch_add`)
pub struct OuterSet {
    pub policy: Arc<RandomPolicy>,
    pub gate: Arc<Gate>,
}

impl CacheImplDetails for OuterSet {
    fn get_by_key(&self, key: &KeyType) -> CResult<Record> {
        self.policy.get_by_key(key)
    }
    fn check_if_expired(&self, key: &KeyType, record: &Record) -> bool {
        self.policy.check_if_expired(key, record)
    }
}

impl Cache for OuterSet {
    fn get(&self, key: &KeyType) -> CResult<Record> {
        self.policy.get(key)
    }
    fn set(&self, key: KeyType, record: Record) -> CResult<SetStatus> {
        self.gate.enter("pset");
        self.policy.set(key, record)
    }
    fn delete(&self, key: KeyType, header: CacheMetaData) -> CResult<Record> {
        self.policy.delete(key, header)
    }
    fn flush(&self, header: CacheMetaData) {
        self.policy.flush(header)
    }
    fn len(&self) -> usize {
        self.policy.len()
    }
    fn is_empty(&self) -> bool {
        self.policy.is_empty()
    }
    fn as_read_only(&self) -> Box<dyn CacheReadOnlyView> {
        self.policy.as_read_only()
    }
    fn remove_if(&self, f: &mut CachePredicate) -> RemoveIfResult {
        self.policy.remove_if(f)
    }
    fn remove(&self, key: &KeyType) -> Option<(KeyType, Record)> {
        self.policy.remove(key)
    }
}

pub struct DeepOutcome {
    pub tokens: Vec<String>,
    pub results: Vec<Vec<String>>,
    pub dump: String,
    pub usage: u64,
    pub stored: u64,
    pub racy: bool,
    pub hung: Option<String>,
}

/// run `programs` on a fresh RandomPolicy(limit) after the sequential `setup`, granting threads in `order`
/// (then round-robin to completion)
pub fn run_deep(item_limit: u32, limit: u64, setup: &[Vec<u8>], programs: &[Vec<Vec<u8>>], order: &[usize], t0: u64, t1: u64) -> DeepOutcome {
    let n = programs.len();
    let clock = Arc::new(Clock(AtomicU64::new(t0)));
    let mem = Arc::new(MemoryStore::new(clock.clone()));
    let gate = Arc::new(Gate::new(n));
    let extra: Arc<Mutex<Vec<(usize, String)>>> = Arc::new(Mutex::new(vec![]));
    let inner: Arc<dyn Cache + Send + Sync> = Arc::new(InnerGate { mem: mem.clone(), gate: gate.clone(), extra: extra.clone() });
    let policy = Arc::new(RandomPolicy::new(inner, limit));
    let outer: Arc<dyn Cache + Send + Sync> = Arc::new(OuterSet { policy: policy.clone(), gate: gate.clone() });
    let memc = Arc::new(MemcStore::new(outer));
    // sequential setup on the main thread (no TID: the gates let it through)
    {
        let h = BinaryHandler::new(memc.clone());
        for f in setup {
            let _ = run_one_pub(&h, item_limit, f);
        }
    }
    clock.0.store(t1, Ordering::SeqCst);
    let results: Arc<Mutex<Vec<Vec<String>>>> = Arc::new(Mutex::new(vec![vec![]; n]));
    let mut handles = vec![];
    for (i, prog) in programs.iter().enumerate() {
        let prog = prog.clone();
        let memc = memc.clone();
        let gate = gate.clone();
        let results = results.clone();
        handles.push(std::thread::spawn(move || {
            TID.with(|t| t.set(Some(i)));
            let h = BinaryHandler::new(memc);
            for f in &prog {
                let r = std::panic::catch_unwind(std::panic::AssertUnwindSafe(|| run_one_pub(&h, item_limit, f)));
                let c = match r {
                    Ok(x) => canon(f, &x),
                    Err(_) => "panic".to_string(),
                };
                results.lock().unwrap()[i].push(c);
            }
            gate.done_pub(i);
        }));
    }
    // impl-side classification of resets: a reset (len = 0 seen inside the loop) is racy when another store is in
    // flight (between its pset grant and the return of its inner set) or the counter is not the value this thread's
    // own last counter operation left
    let mut hung: Option<String> = None;
    let mut in_flight = vec![false; n];
    let mut last_u = vec![0u64; n];
    let mut racy = false;
    let mut seen = 0usize;
    let mut grant_one = |i: usize, hung: &mut Option<String>| -> bool {
        if hung.is_some() || i >= n {
            return false;
        }
        let before = policy.verif_usage();
        match gate.grant(i, Duration::from_secs(4)) {
            None => {
                *hung = Some(format!("the call granted to thread {} (after calls {:?}) did not return within 4 s", i, gate.mu.lock().unwrap().log));
                false
            }
            Some(false) => true,
            Some(true) => {
                let log = gate.mu.lock().unwrap().log.clone();
                let ex = extra.lock().unwrap().clone();
                while seen < log.len() {
                    let (tid, what) = log[seen];
                    let detail = ex.iter().find(|(ix, _)| *ix == seen).map(|(_, d)| d.clone());
                    match what {
                        "pset" => {
                            in_flight[tid] = true;
                            last_u[tid] = policy.verif_usage();
                        }
                        "len" => {
                            if detail.as_deref() == Some("0") {
                                let others = (0..n).any(|j| j != tid && in_flight[j]);
                                if others || before != last_u[tid] {
                                    racy = true;
                                }
                            }
                        }
                        "rm" => {
                            // the local copy is refreshed only by the fetch_sub that follows a removal
                            if detail.as_deref() != Some("-") {
                                last_u[tid] = policy.verif_usage();
                            }
                        }
                        "set" => {
                            in_flight[tid] = false;
                        }
                        _ => {}
                    }
                    seen += 1;
                }
                true
            }
        }
    };
    for i in order {
        if !grant_one(*i, &mut hung) {
            break;
        }
    }
    if hung.is_none() {
        'outer: for _ in 0..64 {
            let mut any = false;
            for i in 0..n {
                let done = { gate.mu.lock().unwrap().st[i] == crate::sched::TState::Done };
                if done {
                    continue;
                }
                any = true;
                if !grant_one(i, &mut hung) {
                    break 'outer;
                }
            }
            if !any {
                break;
            }
        }
    }
    if hung.is_none() {
        for h in handles.drain(..) {
            let _ = h.join();
        }
    }
    let log = gate.mu.lock().unwrap().log.clone();
    let ex = extra.lock().unwrap().clone();
    let tokens: Vec<String> = log
        .iter()
        .enumerate()
        .map(|(ix, (tid, what))| {
            if *what == "rm" {
                let d = ex.iter().find(|(i, _)| *i == ix).map(|(_, d)| d.clone()).unwrap_or("-".into());
                format!("{}:rm:{}", tid, d)
            } else {
                format!("{}:{}", tid, what)
            }
        })
        .collect();
    let recs = crate::sut::Sut::records_of(&mem);
    let stored: u64 = recs.iter().map(|(_, r)| 24 + r.value.len() as u64).sum();
    let results = results.lock().unwrap().clone();
    DeepOutcome { tokens, results, dump: crate::sut::Sut::dump_of(&mem), usage: policy.verif_usage(), stored, racy, hung }
}

pub fn out_line(o: &DeepOutcome) -> String {
    format!("pres {} | {} | usage={} racy={} rest=true setup=true", fmt_results(&o.results), o.dump, o.usage, o.racy)
}

fn rec_len(frame: &[u8]) -> u64 {
    // set frame: 24 header + 8 extras + key + value; Record::len = 24 + value
    let keylen = u16::from_be_bytes([frame[2], frame[3]]) as u64;
    let body = u32::from_be_bytes([frame[8], frame[9], frame[10], frame[11]]) as u64;
    24 + body - 8 - keylen
}

/// the at-rest oracle: accounting covers content; content within max(limit, largest record). A failure in a
/// schedule with a racy reset is the recorded finding (tag `[reset-race]`), anything else is new.
pub fn oracle(o: &DeepOutcome, limit: u64, setup: &[Vec<u8>], programs: &[Vec<Vec<u8>>]) -> Vec<(Vec<&'static str>, String)> {
    let mut v = vec![];
    let tag = if o.racy { " [reset-race]" } else { "" };
    if o.usage < o.stored {
        v.push((vec!["C14", "C15"], format!("at rest the accounted usage {} is below the {} bytes stored; calls {}{}", o.usage, o.stored, o.tokens.join(" "), tag)));
    }
    let maxrec = setup.iter().chain(programs.iter().flatten()).filter(|f| f[1] == op::SET).map(|f| rec_len(f)).max().unwrap_or(0);
    if o.stored > limit.max(maxrec) {
        v.push((vec!["C14"], format!("{} bytes stored at rest under limit {} (largest record {}); calls {}{}", o.stored, limit, maxrec, o.tokens.join(" "), tag)));
    }
    v
}

pub struct DeepCase {
    pub limit: u64,
    pub setup: Vec<Vec<u8>>,
    pub programs: Vec<Vec<Vec<u8>>>,
}

pub fn lines_of(c: &DeepCase) -> Vec<String> {
    let mut l = vec![format!("pcnew 4096 {}", c.limit)];
    l.push(format!("psetup {}", c.setup.iter().map(|f| hex(f)).collect::<Vec<_>>().join(" ")).trim_end().to_string());
    for (i, p) in c.programs.iter().enumerate() {
        l.push(format!("pthread {} {}", i, p.iter().map(|f| hex(f)).collect::<Vec<_>>().join(" ")).trim_end().to_string());
    }
    l
}

pub fn gen_case(rng: &mut Rng) -> DeepCase {
    let limit: u64 = *rng.pick(&[60u64, 80, 80, 150, 300]);
    let keys: Vec<Vec<u8>> = vec![b"a".to_vec(), b"b".to_vec(), b"c".to_vec(), b"d".to_vec()];
    let mut setup: Vec<Vec<u8>> = vec![];
    let mut used = 0u64;
    if rng.chance(1, 2) {
        for k in keys.iter().take(2) {
            if rng.chance(1, 2) {
                let vl = rng.below(30) + 1;
                if used + 24 + vl <= limit {
                    used += 24 + vl;
                    let ttl = *rng.pick(&[0u32, 0, 3]);
                    setup.push(wire::set_like(op::SET, k, &rng.bytes(vl as usize), 0, ttl, 0, 1).bytes());
                }
            }
        }
    }
    let nthreads = if rng.chance(1, 3) { 3 } else { 2 };
    let programs: Vec<Vec<Vec<u8>>> = (0..nthreads)
        .map(|_| {
            (0..rng.range(1, 2))
                .map(|_| {
                    let k = rng.pick(&keys).clone();
                    match rng.below(8) {
                        0 => wire::key_only(op::GET, &k, 0, 2).bytes(),
                        1 => wire::key_only(op::DELETE, &k, 0, 3).bytes(),
                        _ => {
                            let vl = *rng.pick(&[1u64, 10, 26, 26, 40, 60]);
                            wire::set_like(op::SET, &k, &rng.bytes(vl as usize), 0, 0, 0, 4).bytes()
                        }
                    }
                })
                .collect()
        })
        .collect();
    DeepCase { limit, setup, programs }
}

/// profile `C03deep`: one key, a memory limit that is never reached (so the policy must be invisible), programs of get /
/// set / CAS-set / delete: every interleaving of the calls the policy makes on its store must be linearizable
pub fn gen_case_lin(rng: &mut Rng) -> DeepCase {
    let k = b"a".to_vec();
    let mut setup: Vec<Vec<u8>> = vec![];
    let present = rng.chance(2, 3);
    if present {
        setup.push(wire::set_like(op::SET, &k, b"5", 9, 0, 0, 1).bytes());
    }
    let tok = 1u64;
    let nthreads = if rng.chance(1, 3) { 3 } else { 2 };
    let programs: Vec<Vec<Vec<u8>>> = (0..nthreads)
        .map(|_| {
            (0..(if nthreads == 2 && rng.chance(1, 3) { 2 } else { 1 }))
                .map(|_| {
                    let opq = rng.next() as u32;
                    match rng.below(6) {
                        0 | 1 => wire::key_only(op::GET, &k, 0, opq).bytes(),
                        2 | 3 => wire::set_like(op::SET, &k, &rng.bytes(2), 1, 0, 0, opq).bytes(),
                        4 => wire::set_like(op::SET, &k, &rng.bytes(2), 1, 0, *rng.pick(&[tok, tok, 99]), opq).bytes(),
                        _ => wire::key_only(op::DELETE, &k, *rng.pick(&[0u64, 0, tok, 99]), opq).bytes(),
                    }
                })
                .collect()
        })
        .collect();
    DeepCase { limit: 1 << 20, setup, programs }
}

/// is there a one-at-a-time order of the commands (each client's own order kept) whose execution on the plain store
/// (eviction policy none: with the limit out of reach the policy must not be observable) gives these results and
/// this content?
pub fn linearizable_plain(case: &DeepCase, o: &DeepOutcome) -> bool {
    let n = case.programs.len();
    let total: usize = case.programs.iter().map(|p| p.len()).sum();
    let mut orders: Vec<Vec<usize>> = vec![];
    fn perms(progs: &[Vec<Vec<u8>>], idx: &mut Vec<usize>, cur: &mut Vec<usize>, out: &mut Vec<Vec<usize>>, total: usize) {
        if cur.len() == total {
            out.push(cur.clone());
            return;
        }
        for t in 0..progs.len() {
            if idx[t] < progs[t].len() {
                idx[t] += 1;
                cur.push(t);
                perms(progs, idx, cur, out, total);
                cur.pop();
                idx[t] -= 1;
            }
        }
    }
    perms(&case.programs, &mut vec![0; n], &mut vec![], &mut orders, total);
    for order in &orders {
        let clock = Arc::new(Clock(AtomicU64::new(0)));
        let mem = Arc::new(MemoryStore::new(clock.clone()));
        let memc = Arc::new(MemcStore::new(mem.clone()));
        let h = BinaryHandler::new(memc);
        for f in &case.setup {
            let _ = run_one_pub(&h, 4096, f);
        }
        clock.0.store(10, Ordering::SeqCst);
        let mut results: Vec<Vec<String>> = vec![vec![]; n];
        let mut idx = vec![0usize; n];
        for t in order {
            let f = &case.programs[*t][idx[*t]];
            idx[*t] += 1;
            results[*t].push(canon(f, &run_one_pub(&h, 4096, f)));
        }
        if results == o.results && crate::sut::Sut::dump_of(&mem) == o.dump {
            return true;
        }
    }
    false
}

/// generated suite
pub fn run_suite(seed: u64, count: u64, per_case: usize, trace: Option<std::fs::File>) -> (Vec<String>, Vec<String>, Vec<(usize, usize, Vec<&'static str>, String)>, SchedStats) {
    run_suite_profile("C14deep", seed, count, per_case, trace)
}

pub fn run_suite_profile(profile: &str, seed: u64, count: u64, per_case: usize, mut trace: Option<std::fs::File>) -> (Vec<String>, Vec<String>, Vec<(usize, usize, Vec<&'static str>, String)>, SchedStats) {
    let mut master = Rng::new(seed ^ 0xdee9);
    let mut ops: Vec<String> = vec![];
    let mut outs: Vec<String> = vec![];
    let mut viols: Vec<(usize, usize, Vec<&'static str>, String)> = vec![];
    let mut st = SchedStats { cases: 0, schedules: 0, nonlinearizable_known: Default::default(), distinct_outcomes: Default::default(), samples: vec![] };
    for _ in 0..count {
        let mut rng = master.fork();
        let lin = profile == "C03deep";
        let case = if lin { gen_case_lin(&mut rng) } else { gen_case(&mut rng) };
        st.cases += 1;
        // grants per thread: a store is pset + (len, rm)* + set
        let counts: Vec<usize> = case.programs.iter().map(|p| p.iter().map(|f| if f[1] == op::SET { 4 } else { 1 }).sum()).collect();
        for order in interleavings(&counts, per_case, &mut rng) {
            st.schedules += 1;
            if let Some(f) = &mut trace {
                use std::io::Write;
                let _ = writeln!(f, "deep limit={} setup=[{}] programs=[{}] order={:?}", case.limit, hexes(&case.setup), case.programs.iter().map(|p| hexes(p)).collect::<Vec<_>>().join(" | "), order);
                let _ = f.flush();
            }
            let start = ops.len();
            for l in lines_of(&case) {
                ops.push(l);
                outs.push("ok".into());
            }
            let o = run_deep(4096, case.limit, &case.setup, &case.programs, &order, 0, 10);
            ops.push(format!("psched 0 10 {}", o.tokens.join(" ")));
            outs.push(out_line(&o));
            let end = ops.len();
            if let Some(h) = &o.hung {
                viols.push((start, end, vec!["C16", "C14"], h.clone()));
                return (ops, outs, viols, st);
            }
            if o.racy {
                *st.nonlinearizable_known.entry("reset-race".to_string()).or_insert(0) += 1;
            }
            st.distinct_outcomes.insert(format!("{}|{}|{}|{}", o.stored, o.usage, o.racy, fmt_results(&o.results)));
            for (props, msg) in oracle(&o, case.limit, &case.setup, &case.programs) {
                viols.push((start, end, props, msg));
            }
            if lin && !linearizable_plain(&case, &o) {
                let mut props: Vec<&'static str> = vec!["C03", "C20"];
                props.extend(crate::sched::also_broken(&case.programs, &crate::sched::Outcome { results: o.results.clone(), dump: o.dump.clone(), steps: vec![], hung: None, usage: None }).into_iter().filter(|p| *p != "C05"));
                viols.push((start, end, props, format!(
                    "under eviction policy random with a limit that is never reached, no one-at-a-time order of the commands explains this outcome: programs [{}] calls {} -> {} ; {}",
                    case.programs.iter().map(|p| hexes(p)).collect::<Vec<_>>().join(" | "), o.tokens.join(" "), fmt_results(&o.results), o.dump)));
            }
        }
    }
    (ops, outs, viols, st)
}

/// replay of literal lines (corpus witnesses, replay files): threads are granted in the order of the recorded
/// calls; the line handed to the model carries the calls actually made
pub fn replay(text: &str) -> (Vec<String>, Vec<String>, Vec<(usize, usize, Vec<&'static str>, String)>, SchedStats) {
    let mut ops: Vec<String> = vec![];
    let mut outs: Vec<String> = vec![];
    let mut viols: Vec<(usize, usize, Vec<&'static str>, String)> = vec![];
    let mut st = SchedStats { cases: 0, schedules: 0, nonlinearizable_known: Default::default(), distinct_outcomes: Default::default(), samples: vec![] };
    let mut case = DeepCase { limit: 0, setup: vec![], programs: vec![] };
    let mut start = 0usize;
    for l in text.lines().map(|l| l.trim()).filter(|l| !l.is_empty()) {
        let p: Vec<&str> = l.split(' ').collect();
        match p.as_slice() {
            ["pcnew", _il, pl] => {
                start = ops.len();
                case = DeepCase { limit: pl.parse().unwrap_or(0), setup: vec![], programs: vec![] };
                ops.push(l.to_string());
                outs.push("ok".into());
            }
            [ps, frames @ ..] if *ps == "psetup" => {
                case.setup = frames.iter().filter_map(|f| wire::unhex(f)).collect();
                ops.push(l.to_string());
                outs.push("ok".into());
            }
            [pt, i, frames @ ..] if *pt == "pthread" => {
                let i: usize = i.parse().unwrap_or(0);
                while case.programs.len() <= i {
                    case.programs.push(vec![]);
                }
                case.programs[i] = frames.iter().filter_map(|f| wire::unhex(f)).collect();
                ops.push(l.to_string());
                outs.push("ok".into());
            }
            [ps, t0, t1, toks @ ..] if *ps == "psched" => {
                let order: Vec<usize> = toks.iter().filter_map(|t| t.split(':').next().and_then(|x| x.parse().ok())).collect();
                let o = run_deep(4096, case.limit, &case.setup, &case.programs, &order, t0.parse().unwrap_or(0), t1.parse().unwrap_or(10));
                st.cases += 1;
                st.schedules += 1;
                ops.push(format!("psched {} {} {}", t0, t1, o.tokens.join(" ")));
                outs.push(out_line(&o));
                let end = ops.len();
                if let Some(h) = &o.hung {
                    viols.push((start, end, vec!["C16", "C14"], h.clone()));
                    break;
                }
                if o.racy {
                    *st.nonlinearizable_known.entry("reset-race".to_string()).or_insert(0) += 1;
                }
                st.distinct_outcomes.insert(format!("{}|{}|{}", o.stored, o.usage, o.racy));
                for (props, msg) in oracle(&o, case.limit, &case.setup, &case.programs) {
                    viols.push((start, end, props, msg));
                }
            }
            _ => {
                ops.push(l.to_string());
                outs.push("bad-op".into());
            }
        }
    }
    (ops, outs, viols, st)
}
