//! Real sockets: a MemcacheTcpServer on loopback (the only way to obtain a `Client`), driven with enforced
//! chunk boundaries. Quiescence = the server side's receive queue is empty (/proc/net/tcp) and nothing
//! arrived for QUIET ms afterwards.
use memcrs::cache::cache::Cache;
use memcrs::memcache_server::memc_tcp::{MemcacheServerConfig, MemcacheTcpServer};
use std::io::{Read, Write};
use std::net::{Shutdown, TcpListener, TcpStream};
use std::sync::{Arc, OnceLock};
use std::time::{Duration, Instant};

pub const QUIET_MS: u64 = 12;

pub fn runtime() -> &'static tokio::runtime::Runtime {
    static RT: OnceLock<tokio::runtime::Runtime> = OnceLock::new();
    RT.get_or_init(|| tokio::runtime::Builder::new_multi_thread().worker_threads(6).enable_all().build().unwrap())
}

pub struct Server {
    pub port: u16,
    task: tokio::task::JoinHandle<()>,
    _lock: PortLock,
}

/// cross-process reservation of a port number (an abstract unix socket, gone with the process): held from before the
/// probe until the server is dropped, so that no two harness processes — several checks, matrix workers and snapshots run
/// side by side — can have servers on one port at the same time
pub struct PortLock(#[allow(dead_code)] std::os::unix::net::UnixListener);

fn reserve(port: u16) -> Option<PortLock> {
    use std::os::linux::net::SocketAddrExt;
    let addr = std::os::unix::net::SocketAddr::from_abstract_name(format!("memcverif-port-{}", port)).ok()?;
    std::os::unix::net::UnixListener::bind_addr(&addr).ok().map(PortLock)
}

impl Drop for Server {
    fn drop(&mut self) {
        self.task.abort();
    }
}

/// ports are handed out from a per-process range: the server binds with SO_REUSEPORT, so two servers given
/// the same "free" port would silently share incoming connections
pub fn free_port() -> u16 {
    // reservations of the external-process suite live as long as the harness process
    static HELD: std::sync::Mutex<Vec<PortLock>> = std::sync::Mutex::new(Vec::new());
    let (port, lock) = free_port_locked();
    HELD.lock().unwrap().push(lock);
    port
}

pub fn free_port_locked() -> (u16, PortLock) {
    static NEXT: std::sync::atomic::AtomicU32 = std::sync::atomic::AtomicU32::new(0);
    loop {
        let n = NEXT.fetch_add(1, std::sync::atomic::Ordering::SeqCst);
        // below the kernel's ephemeral range (32768..60999): an outgoing connection of some other process must not be
        // able to take the port between this probe and the server's bind
        let base = 10000 + (std::process::id() % 220) * 100;
        let port = (base + n % 100 + (n / 100) * 7) as u16;
        if port < 1024 {
            continue;
        }
        let Some(lock) = reserve(port) else { continue };
        if let Ok(l) = TcpListener::bind(("127.0.0.1", port)) {
            drop(l);
            return (port, lock);
        }
    }
}

pub fn start_server(store: Arc<dyn Cache + Send + Sync>, item_limit: u32, conn_limit: u32, timeout_secs: u32) -> Server {
    for _ in 0..20 {
        let (port, lock) = free_port_locked();
        let cfg = MemcacheServerConfig::new(timeout_secs, conn_limit, item_limit, 128);
        let mut srv = MemcacheTcpServer::new(cfg, store.clone());
        let task = runtime().spawn(async move {
            let _ = srv.run(("127.0.0.1", port)).await;
        });
        // wait until it accepts: a throw-away connection that is closed at once
        let t0 = Instant::now();
        while t0.elapsed() < Duration::from_secs(2) {
            if let Ok(s) = TcpStream::connect(("127.0.0.1", port)) {
                let _ = socket2::SockRef::from(&s).set_linger(Some(Duration::from_secs(0)));
                drop(s);
                return Server { port, task, _lock: lock };
            }
            if task.is_finished() {
                break;
            }
            std::thread::sleep(Duration::from_micros(200));
        }
        task.abort();
    }
    panic!("could not start a server");
}

fn proc_tcp() -> String {
    std::fs::read_to_string("/proc/net/tcp").unwrap_or_default()
}

fn listening(port: u16) -> bool {
    let needle = format!("0100007F:{:04X} 00000000:0000 0A", port);
    proc_tcp().contains(&needle)
}

/// receive-queue length of the server-side socket of connection (server_port <- client_port); None if gone.
/// Exact 4-tuple lookup over NETLINK_SOCK_DIAG (O(1)); falls back to scanning /proc/net/tcp.
pub fn server_rx_queue(server_port: u16, client_port: u16) -> Option<u64> {
    match diag_rx_queue(server_port, client_port) {
        Ok(v) => v,
        Err(_) => proc_rx_queue(server_port, client_port),
    }
}

fn proc_rx_queue(server_port: u16, client_port: u16) -> Option<u64> {
    let local = format!("0100007F:{:04X}", server_port);
    let remote = format!("0100007F:{:04X}", client_port);
    for line in proc_tcp().lines() {
        let f: Vec<&str> = line.split_whitespace().collect();
        if f.len() > 4 && f[1] == local && f[2] == remote {
            let q: Vec<&str> = f[4].split(':').collect();
            return u64::from_str_radix(q[1], 16).ok();
        }
    }
    None
}

thread_local! {
    static DIAG_FD: std::cell::Cell<i32> = const { std::cell::Cell::new(-1) };
}

fn diag_rx_queue(server_port: u16, client_port: u16) -> Result<Option<u64>, ()> {
    unsafe {
        let mut fd = DIAG_FD.with(|c| c.get());
        if fd < 0 {
            fd = libc::socket(libc::AF_NETLINK, libc::SOCK_DGRAM | libc::SOCK_CLOEXEC, 4 /* NETLINK_SOCK_DIAG */);
            if fd < 0 {
                return Err(());
            }
            let tv = libc::timeval { tv_sec: 0, tv_usec: 200_000 };
            libc::setsockopt(fd, libc::SOL_SOCKET, libc::SO_RCVTIMEO, &tv as *const _ as *const libc::c_void, std::mem::size_of::<libc::timeval>() as u32);
            DIAG_FD.with(|c| c.set(fd));
        }
        let mut req = [0u8; 16 + 56];
        let total = req.len() as u32;
        req[0..4].copy_from_slice(&total.to_ne_bytes());
        req[4..6].copy_from_slice(&20u16.to_ne_bytes()); // SOCK_DIAG_BY_FAMILY
        req[6..8].copy_from_slice(&1u16.to_ne_bytes()); // NLM_F_REQUEST
        req[8..12].copy_from_slice(&1u32.to_ne_bytes());
        let r = &mut req[16..];
        r[0] = libc::AF_INET as u8;
        r[1] = libc::IPPROTO_TCP as u8;
        r[4..8].copy_from_slice(&0xffff_ffffu32.to_ne_bytes()); // all states
        r[8..10].copy_from_slice(&server_port.to_be_bytes());
        r[10..12].copy_from_slice(&client_port.to_be_bytes());
        r[12..16].copy_from_slice(&[127, 0, 0, 1]);
        r[28..32].copy_from_slice(&[127, 0, 0, 1]);
        r[48..52].copy_from_slice(&0xffff_ffffu32.to_ne_bytes()); // INET_DIAG_NOCOOKIE
        r[52..56].copy_from_slice(&0xffff_ffffu32.to_ne_bytes());
        let mut sa: libc::sockaddr_nl = std::mem::zeroed();
        sa.nl_family = libc::AF_NETLINK as u16;
        let n = libc::sendto(fd, req.as_ptr() as *const libc::c_void, req.len(), 0, &sa as *const _ as *const libc::sockaddr, std::mem::size_of::<libc::sockaddr_nl>() as u32);
        if n < 0 {
            return Err(());
        }
        let mut buf = [0u8; 8192];
        let n = libc::recv(fd, buf.as_mut_ptr() as *mut libc::c_void, buf.len(), 0);
        if n < 16 {
            return Err(());
        }
        let ty = u16::from_ne_bytes([buf[4], buf[5]]);
        if ty == 2 {
            // NLMSG_ERROR: -ENOENT means no such socket
            let err = i32::from_ne_bytes([buf[16], buf[17], buf[18], buf[19]]);
            return if err == -libc::ENOENT { Ok(None) } else { Err(()) };
        }
        if ty != 20 || (n as usize) < 16 + 72 {
            return Err(());
        }
        let m = &buf[16..];
        let rq = u32::from_ne_bytes([m[56], m[57], m[58], m[59]]);
        Ok(Some(rq as u64))
    }
}

pub struct Conn {
    pub sock: TcpStream,
    pub server_port: u16,
    pub client_port: u16,
    pub closed: bool,
}

impl Drop for Conn {
    fn drop(&mut self) {
        // no TIME_WAIT litter: /proc/net/tcp is scanned for every enforced read boundary
        let _ = socket2::SockRef::from(&self.sock).set_linger(Some(Duration::from_secs(0)));
    }
}

impl Conn {
    pub fn open(port: u16) -> Conn {
        let mut tries = 0;
        let sock = loop {
            match TcpStream::connect(("127.0.0.1", port)) {
                Ok(s) => break s,
                Err(e) => {
                    tries += 1;
                    if tries > 200 {
                        panic!("cannot connect to the in-process server on port {}: {}", port, e);
                    }
                    std::thread::sleep(Duration::from_millis(5));
                }
            }
        };
        sock.set_nodelay(true).unwrap();
        sock.set_read_timeout(Some(Duration::from_millis(QUIET_MS))).unwrap();
        let client_port = sock.local_addr().unwrap().port();
        Conn { sock, server_port: port, client_port, closed: false }
    }

    /// read whatever the server sends until it has consumed all input and stayed quiet, or closed
    pub fn drain(&mut self, max_wait: Duration) -> Vec<u8> {
        let mut out = vec![];
        let mut buf = [0u8; 65536];
        let t0 = Instant::now();
        let mut quiet_rounds = 0;
        loop {
            match self.sock.read(&mut buf) {
                Ok(0) => {
                    self.closed = true;
                    break;
                }
                Ok(n) => {
                    out.extend_from_slice(&buf[..n]);
                    quiet_rounds = 0;
                }
                Err(e) if e.kind() == std::io::ErrorKind::WouldBlock || e.kind() == std::io::ErrorKind::TimedOut => {
                    let q = server_rx_queue(self.server_port, self.client_port);
                    if q == Some(0) || q.is_none() {
                        quiet_rounds += 1;
                        if quiet_rounds >= 2 {
                            break;
                        }
                    }
                }
                Err(_) => {
                    self.closed = true; // reset by peer
                    break;
                }
            }
            if t0.elapsed() > max_wait {
                break;
            }
        }
        out
    }

    pub fn send(&mut self, chunk: &[u8]) -> bool {
        if self.sock.write_all(chunk).is_err() {
            self.closed = true;
            return false;
        }
        true
    }

    /// enforce a read boundary: wait until the server has taken everything sent so far out of its socket
    /// (or has closed); pick up responses meanwhile so that neither side's buffers fill up
    pub fn sync(&mut self, acc: &mut Vec<u8>, max_wait: Duration) {
        let t0 = Instant::now();
        let mut buf = [0u8; 65536];
        self.sock.set_nonblocking(true).unwrap();
        loop {
            match self.sock.read(&mut buf) {
                Ok(0) => {
                    self.closed = true;
                    break;
                }
                Ok(n) => acc.extend_from_slice(&buf[..n]),
                Err(e) if e.kind() == std::io::ErrorKind::WouldBlock => {}
                Err(_) => {
                    self.closed = true;
                    break;
                }
            }
            match server_rx_queue(self.server_port, self.client_port) {
                Some(0) | None => break,
                _ => {}
            }
            if t0.elapsed() > max_wait {
                break;
            }
            std::thread::sleep(Duration::from_micros(100));
        }
        self.sock.set_nonblocking(false).unwrap();
    }

    /// read until the server closes the connection (after our half-close, a quit, or an error)
    pub fn read_to_end(&mut self, acc: &mut Vec<u8>, max_wait: Duration) {
        let t0 = Instant::now();
        let mut buf = [0u8; 65536];
        while !self.closed && t0.elapsed() < max_wait {
            match self.sock.read(&mut buf) {
                Ok(0) => self.closed = true,
                Ok(n) => acc.extend_from_slice(&buf[..n]),
                Err(e) if e.kind() == std::io::ErrorKind::WouldBlock || e.kind() == std::io::ErrorKind::TimedOut => {}
                Err(_) => self.closed = true,
            }
        }
    }

    pub fn half_close(&mut self) {
        let _ = self.sock.shutdown(Shutdown::Write);
    }

    /// abortive close: SO_LINGER 0 -> RST
    pub fn reset(self) {
        drop(self);
    }
}
