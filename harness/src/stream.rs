//! Suites `codec` and `conn`: pipelined request streams cut into consecutive reads, at the decoder
//! (caller-owned BytesMut) and at the socket (real server on loopback), with relational oracles.
use crate::gen::{self, GenOp, GenState};
use crate::rng::Rng;
use crate::seq::Runner;
use crate::wire::{self, hex, op, Frame};
use std::collections::BTreeMap;

#[derive(Clone, Debug, PartialEq)]
pub enum Kind {
    Std,          // a standard command (loud or quiet)
    Unsupported,  // touch / gat / sasl
    NonStd,       // length-consistent frame with unexpected extras / value
    Oversize,     // body_length above the item limit (any opcode)
    Quit,
    QuitQ,
    BadHeader,    // wrong magic / opcode >= 0x25 / data type != 0 / key > 250 / extras > 20 / missing key / body < key+extras
    Truncated,    // a frame cut short at the end of the stream
}

#[derive(Clone, Debug)]
pub struct SFrame {
    pub kind: Kind,
    pub bytes: Vec<u8>,
    pub opcode: u8,
    pub opaque: u32,
}

#[derive(Clone)]
pub struct SProfile {
    pub name: &'static str,
    /// std unsupported nonstd oversize quit quitq
    pub w: [u32; 6],
    pub tail_fault_pct: u64,
    pub frames: (u64, u64),
    pub base: &'static str,
}

pub fn sprofile(name: &str) -> SProfile {
    match name {
        "C09" => SProfile { name: "C09", w: [60, 6, 14, 12, 2, 1], tail_fault_pct: 10, frames: (2, 7), base: "C11" },
        "C12" => SProfile { name: "C12", w: [70, 12, 2, 4, 6, 6], tail_fault_pct: 5, frames: (3, 10), base: "C19" },
        "C13" => SProfile { name: "C13", w: [50, 2, 2, 40, 2, 1], tail_fault_pct: 0, frames: (2, 6), base: "C01" },
        "C18" => SProfile { name: "C18", w: [80, 4, 2, 6, 2, 2], tail_fault_pct: 60, frames: (2, 8), base: "C01" },
        _ => SProfile { name: "C10", w: [40, 8, 20, 14, 2, 2], tail_fault_pct: 50, frames: (1, 6), base: "C11" },
    }
}

fn bad_header(rng: &mut Rng, key: &[u8]) -> Frame {
    let mut f = wire::set_like(op::SET, key, b"v", 0, 0, 0, rng.next() as u32);
    match rng.below(9) {
        0 => f.magic = *rng.pick(&[0x81u8, 0x00, 0xff, 0x7f]),
        1 => f.opcode = *rng.pick(&[0x25u8, 0x26, 0x40, 0x80, 0xff, 0x1b, 0x1f]),
        2 => f.datatype = *rng.pick(&[1u8, 0x80, 0xff]),
        3 => {
            f.key = vec![b'k'; *rng.pick(&[251usize, 251, 256, 300, 0x1fa, 1000])];
        }
        4 => {
            f.extras = vec![0; 21];
        }
        5 => {
            f = wire::key_only(op::GET, b"", 0, f.opaque);
        }
        6 => {
            // body shorter than key + extras
            f.body_len = Some(4);
        }
        7 => {
            f = wire::delta(op::INCR, key, 1, 1, 0, 0, f.opaque);
            f.extras.truncate(4);
        }
        _ => {
            f.key_len = Some(0xffff);
        }
    }
    f
}

pub fn gen_stream(rng: &mut Rng, p: &SProfile, limit: u32) -> Vec<SFrame> {
    let gp = gen::profile(p.base);
    let mut g = GenState::new(rng, &gp, limit);
    let n = rng.range(p.frames.0, p.frames.1);
    let mut out: Vec<SFrame> = vec![];
    for _ in 0..n {
        let key = rng.pick(&g.keys).clone();
        let k = rng.weighted(&p.w);
        let f = match k {
            0 => {
                let mut b;
                loop {
                    match g.next_op(rng, &gp) {
                        GenOp::Req(x) => {
                            b = x;
                            break;
                        }
                        GenOp::Now(_) => continue,
                    }
                }
                let h = wire::parse_req_hdr(&b).unwrap();
                let kind = match wire::parse_cmd(&b) {
                    Some((_, wire::Cmd::NonStandard)) => Kind::NonStd,
                    Some((_, wire::Cmd::Unsupported)) => Kind::Unsupported,
                    _ => {
                        if h.body_len > limit {
                            Kind::Oversize
                        } else {
                            Kind::Std
                        }
                    }
                };
                SFrame { kind, bytes: b, opcode: h.opcode, opaque: h.opaque }
            }
            1 => {
                let mut f = Frame::new(*rng.pick(&[0x1cu8, 0x1d, 0x1e, 0x20, 0x21, 0x22, 0x23, 0x24]));
                f.opaque = rng.next() as u32;
                if rng.chance(2, 3) {
                    f.key = key.clone();
                    f.extras = vec![0, 0, 0, 5];
                    if rng.chance(1, 3) {
                        f.value = rng.bytes(rng.clone().below(20) as usize);
                    }
                }
                SFrame { kind: Kind::Unsupported, bytes: f.bytes(), opcode: f.opcode, opaque: f.opaque }
            }
            2 => {
                let f = gen::nonstandard(rng, &key, rng.clone().next() as u32);
                SFrame { kind: Kind::NonStd, bytes: f.bytes(), opcode: f.opcode, opaque: f.opaque }
            }
            3 => {
                // oversized body for any opcode
                let opc = *rng.pick(&[op::SET, op::SET, op::ADD, op::GET, op::APPEND, op::INCR, op::NOOP, op::SETQ, op::DELETE, 0x1c, op::FLUSH, op::GETKQ, 0x1b, 0x1f, op::PREPENDQ, op::APPENDQ, op::QUIT, op::QUITQ, op::VERSION, op::STAT, op::FLUSHQ]);
                let extra = *rng.pick(&[1u32, 1, 2, 7, 100, limit, 3 * limit]);
                let body = (limit + extra).min(6000);
                let mut f = Frame::new(opc);
                f.opaque = rng.next() as u32;
                let mut klen = key.len().min(body as usize);
                f.extras = if matches!(opc, 0x01 | 0x02 | 0x11) && body as usize >= 8 + klen { vec![0; 8] } else { vec![] };
                if rng.chance(1, 6) {
                    klen = 0;
                }
                f.key = key[..klen].to_vec();
                let vlen = body as usize - f.extras.len() - f.key.len();
                f.value = rng.bytes(vlen);
                if rng.chance(1, 4) {
                    // make the discarded body look like a valid request
                    let inner = wire::set_like(op::SET, b"smuggled", b"1", 0, 0, 0, 1).bytes();
                    if f.value.len() >= inner.len() {
                        f.value[..inner.len()].copy_from_slice(&inner);
                    }
                }
                SFrame { kind: Kind::Oversize, bytes: f.bytes(), opcode: opc, opaque: f.opaque }
            }
            4 => {
                let f = wire::bare(op::QUIT, rng.next() as u32);
                SFrame { kind: Kind::Quit, bytes: f.bytes(), opcode: op::QUIT, opaque: f.opaque }
            }
            _ => {
                let f = wire::bare(op::QUITQ, rng.next() as u32);
                SFrame { kind: Kind::QuitQ, bytes: f.bytes(), opcode: op::QUITQ, opaque: f.opaque }
            }
        };
        out.push(f);
    }
    if matches!(p.name, "C13" | "C10" | "C09") && rng.chance(1, 5) {
        // a body length that is not just above the limit but gigabytes above it: refused at once, the few bytes that follow
        // are part of its body (last frame of the stream: nothing behind it can be reached)
        let mut f = wire::set_like(*rng.pick(&[op::SET, op::SETQ, op::GET, op::APPEND]), b"huge", b"", 0, 0, 0, rng.next() as u32);
        f.body_len = Some(*rng.pick(&[0x7fff_ffffu32, 0x8000_0000, 0x8010_0001, 0xffff_ffff, limit.wrapping_add(0x8000_0000), limit.wrapping_add(0x8000_0001)]));
        let mut b = f.bytes();
        b.extend(wire::set_like(op::SET, b"smuggled", b"1", 0, 0, 0, 1).bytes());
        b.extend(vec![b'z'; rng.below(200) as usize]);
        out.push(SFrame { kind: Kind::Oversize, bytes: b, opcode: f.opcode, opaque: f.opaque });
        return out;
    }
    if rng.chance(p.tail_fault_pct, 100) {
        let key = rng.pick(&g.keys).clone();
        if rng.chance(1, 2) {
            let f = bad_header(rng, &key);
            let mut b = f.bytes();
            if rng.chance(1, 2) {
                // followed by a valid request that must not be executed
                b.extend(wire::set_like(op::SET, b"after-bad", b"1", 0, 0, 0, 99).bytes());
            }
            out.push(SFrame { kind: Kind::BadHeader, bytes: b, opcode: f.opcode, opaque: f.opaque });
        } else {
            let f = wire::set_like(op::SET, &key, &rng.bytes(40), 1, 0, 0, rng.next() as u32);
            let b = f.bytes();
            let cut = rng.range(1, b.len() as u64 - 1) as usize;
            out.push(SFrame { kind: Kind::Truncated, bytes: b[..cut].to_vec(), opcode: f.opcode, opaque: f.opaque });
        }
    }
    out
}

/// short directed pipelines that random generation rarely produces: a quiet command that HAS something to say (a hit, an
/// error) directly followed by the end of the connection (quit, quitq, invalid header, nothing) or by another quiet one
pub fn directed_streams() -> Vec<Vec<SFrame>> {
    directed_streams_with_limit().into_iter().map(|(_, f)| f).collect()
}

/// (item limit the stream needs, if any; frames)
pub fn directed_streams_with_limit() -> Vec<(Option<u32>, Vec<SFrame>)> {
    let std = |f: Frame| SFrame { kind: Kind::Std, opcode: f.opcode, opaque: f.opaque, bytes: f.bytes() };
    let set = |k: &[u8], opq: u32| std(wire::set_like(op::SET, k, b"val", 5, 0, 0, opq));
    let quit = |q: bool, opq: u32| {
        let f = wire::bare(if q { op::QUITQ } else { op::QUIT }, opq);
        SFrame { kind: if q { Kind::QuitQ } else { Kind::Quit }, opcode: f.opcode, opaque: opq, bytes: f.bytes() }
    };
    let bad = |opq: u32| {
        let mut f = wire::bare(op::NOOP, opq).bytes();
        f[0] = 0x13;
        SFrame { kind: Kind::BadHeader, opcode: op::NOOP, opaque: opq, bytes: f }
    };
    let mut out = vec![];
    for (gi, getop) in [op::GETQ, op::GETKQ].iter().enumerate() {
        let b = 0x100 * (gi as u32 + 1);
        out.push((None, vec![set(b"dk", b + 1), std(wire::key_only(*getop, b"dk", 0, b + 2)), quit(true, b + 3)]));
        out.push((None, vec![set(b"dk", b + 1), std(wire::key_only(*getop, b"dk", 0, b + 2)), quit(false, b + 3)]));
        out.push((None, vec![set(b"dk", b + 1), std(wire::key_only(*getop, b"dk", 0, b + 2)), bad(b + 3)]));
        out.push((None, vec![set(b"dk", b + 1), std(wire::key_only(*getop, b"dk", 0, b + 2))]));
        out.push((None, vec![set(b"dk", b + 1), std(wire::key_only(*getop, b"dk", 0, b + 2)), std(wire::key_only(*getop, b"dk", 0, b + 3)), std(wire::bare(op::NOOP, b + 4))]));
    }
    // `stat <group>`: the one header-only command that legitimately carries a key
    for (i, g) in [&b"items"[..], &b"settings"[..]].iter().enumerate() {
        let mut st = wire::bare(op::STAT, 0x402 + 0x10 * i as u32);
        st.key = g.to_vec();
        out.push((None, vec![set(b"dk", 0x401 + 0x10 * i as u32), std(st), std(wire::key_only(op::GET, b"dk", 0, 0x403 + 0x10 * i as u32)), std(wire::bare(op::NOOP, 0x404 + 0x10 * i as u32))]));
    }
    // oversized quiet requests (5000 bytes: above every limit these suites use): answered 'too large' like the loud ones,
    // skipped, and the connection goes on
    // — for EVERY opcode 0x00..=0x24 (the refusal happens before the opcode is looked at: an oversized quit / quitq / noop /
    // version / stat / flush / touch / SASL request is refused and skipped like an oversized set; C13_too_large_answer)
    let all_opcodes: Vec<u8> = (0x00u8..=0x24).collect();
    for (i, opc) in all_opcodes.iter().enumerate() {
        let b = 0x5000 + 0x10 * i as u32;
        let mut f = Frame::new(*opc);
        f.opaque = b + 2;
        f.key = b"dk".to_vec();
        if matches!(*opc, op::SETQ | op::ADDQ | op::REPLACEQ | op::SET | op::ADD | op::REPLACE) {
            f.extras = vec![0; 8];
        }
        f.value = vec![b'o'; 5000];
        let over = SFrame { kind: Kind::Oversize, opcode: *opc, opaque: b + 2, bytes: f.bytes() };
        out.push((None, vec![set(b"dk", b + 1), over, std(wire::key_only(op::GET, b"dk", 0, b + 3)), std(wire::bare(op::NOOP, b + 4))]));
    }
    // quiet mutations that fail: the error must reach the client whatever follows
    out.push((None, vec![set(b"dk", 0x301), std(wire::set_like(op::ADDQ, b"dk", b"x", 0, 0, 0, 0x302)), quit(true, 0x303)]));
    out.push((None, vec![std(wire::set_like(op::REPLACEQ, b"absent", b"x", 0, 0, 0, 0x311)), quit(true, 0x312)]));
    out.push((None, vec![std(wire::key_only(op::DELETEQ, b"absent", 0, 0x321)), quit(true, 0x322)]));
    out.push((None, vec![set(b"dk", 0x331), std(wire::set_like(op::SETQ, b"dk", b"x", 0, 0, 77, 0x332)), bad(0x333)]));
    out.push((None, vec![std(wire::delta(op::INCRQ, b"absent", 1, 1, 0xffff_ffff, 0, 0x341)), quit(true, 0x342)]));
    out.push((None, vec![std(wire::delta(op::DECRQ, b"absent", 1, 1, 0xffff_ffff, 0, 0x351)), std(wire::bare(op::NOOP, 0x352))]));
    // small answers followed by a large one in the same pipeline: they must arrive in request order
    {
        let big = vec![b'B'; 5000];
        out.push((Some(8192), vec![
            set(b"dk", 0x601),
            std(wire::set_like(op::SET, b"bigk", &big, 3, 0, 0, 0x602)),
            std(wire::key_only(op::GET, b"dk", 0, 0x603)),
            std(wire::bare(op::NOOP, 0x604)),
            std(wire::key_only(op::GETK, b"bigk", 0, 0x605)),
            std(wire::key_only(op::GET, b"dk", 0, 0x606)),
            std(wire::bare(op::NOOP, 0x607)),
        ]));
    }
    out
}

/// cut positions (sorted, within 1..len-1) for one segmentation
pub fn segmentations(rng: &mut Rng, frames: &[SFrame], singles: usize, pairs: usize, randoms: usize, bytewise_max: usize) -> Vec<Vec<usize>> {
    let len: usize = frames.iter().map(|f| f.bytes.len()).sum();
    let mut segs: Vec<Vec<usize>> = vec![vec![]];
    if len < 2 {
        return segs;
    }
    // directed cuts: around every header end and frame boundary
    let mut interesting: Vec<usize> = vec![];
    let mut off = 0;
    for f in frames {
        for d in [1usize, 23, 24, 25] {
            if off + d < len {
                interesting.push(off + d);
            }
        }
        let mid = off + 24 + (f.bytes.len().saturating_sub(24)) / 2;
        if mid > 0 && mid < len {
            interesting.push(mid);
        }
        off += f.bytes.len();
        if off > 1 && off < len {
            interesting.push(off - 1);
            interesting.push(off);
        }
        if off + 1 < len {
            interesting.push(off + 1);
        }
    }
    interesting.retain(|c| *c >= 1 && *c < len);
    interesting.sort();
    interesting.dedup();
    if len - 1 <= singles {
        for c in 1..len {
            segs.push(vec![c]);
        }
    } else {
        let mut pool = interesting.clone();
        while pool.len() < singles {
            pool.push(rng.range(1, len as u64 - 1) as usize);
        }
        // keep the directed ones first
        pool.truncate(singles.max(interesting.len().min(singles)));
        for c in pool {
            segs.push(vec![c]);
        }
    }
    for _ in 0..pairs {
        let a = if !interesting.is_empty() && rng.chance(1, 2) { *rng.pick(&interesting) } else { rng.range(1, len as u64 - 1) as usize };
        let b = if !interesting.is_empty() && rng.chance(1, 2) { *rng.pick(&interesting) } else { rng.range(1, len as u64 - 1) as usize };
        let mut v = vec![a, b];
        v.sort();
        v.dedup();
        segs.push(v);
    }
    for _ in 0..randoms {
        let k = rng.range(2, 8);
        let mut v: Vec<usize> = (0..k).map(|_| rng.range(1, len as u64 - 1) as usize).collect();
        v.sort();
        v.dedup();
        segs.push(v);
    }
    if len <= bytewise_max {
        segs.push((1..len).collect());
    }
    segs
}

fn chunks(stream: &[u8], cuts: &[usize]) -> Vec<Vec<u8>> {
    let mut out = vec![];
    let mut prev = 0;
    for c in cuts.iter().chain(std::iter::once(&stream.len())) {
        if *c > prev {
            out.push(stream[prev..*c].to_vec());
            prev = *c;
        }
    }
    out
}

pub struct StreamStats {
    pub streams: u64,
    pub cases: u64,
    pub kinds: BTreeMap<String, u64>,
    pub distinct: std::collections::HashSet<u64>,
    pub samples: Vec<String>,
}

/// what the oracle expects of the response stream for a frame list (P12/P13/P10/P18)
pub fn judge_responses(frames: &[SFrame], limit: u32, out: &[u8], closed: bool, ended_by_eof: bool) -> Vec<(Vec<&'static str>, String)> {
    let mut v: Vec<(Vec<&'static str>, String)> = vec![];
    let resps = match wire::split_resps(out) {
        Ok(r) => r,
        Err(e) => {
            v.push((vec!["C11", "C12"], format!("response stream cannot be split into frames: {}", e)));
            return v;
        }
    };
    let mut ri = 0usize;
    let mut dead = false;
    // keys this connection knows to be present: stored by an acknowledged loud set/add/replace and not touched since
    // by anything that could remove them (conservative: any other mutation of the key, any flush, forgets it)
    let mut present: std::collections::HashSet<Vec<u8>> = Default::default();
    let mut oversized_since: std::collections::HashSet<Vec<u8>> = Default::default();
    let key_of = |b: &[u8]| -> Vec<u8> {
        let el = b[4] as usize;
        let kl = u16::from_be_bytes([b[2], b[3]]) as usize;
        if b.len() >= 24 + el + kl { b[24 + el..24 + el + kl].to_vec() } else { vec![] }
    };
    for (fi, f) in frames.iter().enumerate() {
        if dead {
            break;
        }
        let next = resps.get(ri).and_then(|b| wire::parse_resp(b).ok());
        let matches = next.as_ref().map_or(false, |r| r.opcode == f.opcode && r.opaque == f.opaque);
        let quiet = wire::is_quiet_opcode(f.opcode);
        match f.kind {
            Kind::Std => {
                let k = key_of(&f.bytes);
                let is_get_op = matches!(f.opcode, 0x00 | 0x09 | 0x0c | 0x0d);
                if is_get_op && present.contains(&k) && matches && next.as_ref().map_or(false, |r| r.status != 0) {
                    let st = next.as_ref().map(|r| r.status).unwrap_or(0);
                    let props: Vec<&'static str> = if oversized_since.contains(&k) { vec!["C13", "C19", "C01"] } else { vec!["C01", "C12"] };
                    v.push((props, format!("frame {}: get of a key this connection has stored (and nothing has removed since{}) answers status {:#x}", fi, if oversized_since.contains(&k) { "; a refused oversized request addressed it in between — it must change nothing" } else { "" }, st)));
                    return v;
                }
                if matches!(f.opcode, 0x09 | 0x0d) && present.contains(&k) && !matches {
                    v.push((vec!["C12", "C19"], format!("frame {}: quiet get opcode {:#x} opaque {:#x} of a key this connection has just stored was not answered (next response: {:?})", fi, f.opcode, f.opaque, next.as_ref().map(|r| (r.opcode, r.opaque)))));
                    return v;
                }
                if matches!(f.opcode, 0x01 | 0x02 | 0x03) && matches && next.as_ref().map_or(false, |r| r.status == 0) && limit >= 24 {
                    // only items without a TTL stay known (the conn suites do not move the clock, but a TTL may be 1 s)
                    let ttl = if f.bytes.len() >= 32 { u32::from_be_bytes(f.bytes[28..32].try_into().unwrap()) } else { 1 };
                    if ttl == 0 { present.insert(k.clone()); } else { present.remove(&k); }
                    oversized_since.remove(&k);
                } else if f.opcode == 0x08 || f.opcode == 0x18 {
                    present.clear();
                } else if !is_get_op && !matches!(f.opcode, 0x0a | 0x0b | 0x10) {
                    present.remove(&k);
                }
                if matches {
                    let r = next.unwrap();
                    if quiet {
                        let is_get = matches!(f.opcode, 0x09 | 0x0d);
                        if !is_get && r.status == 0 {
                            v.push((vec!["C12"], format!("frame {}: quiet mutation opcode {:#x} answered although it succeeded", fi, f.opcode)));
                        }
                        if is_get && r.status == 1 {
                            v.push((vec!["C12"], format!("frame {}: quiet get opcode {:#x} answered a miss", fi, f.opcode)));
                        }
                    }
                    ri += 1;
                } else if !quiet {
                    let mut props = vec!["C12", "C18"];
                    if !oversized_since.is_empty() || frames[..fi].iter().any(|x| matches!(x.kind, Kind::Oversize)) {
                        props.push("C13"); // the requests behind a refused oversized one must be served normally
                    }
                    v.push((props, format!("frame {}: loud request opcode {:#x} opaque {:#x} has no response at its place in the response stream (next response: {:?})", fi, f.opcode, f.opaque, next.map(|r| (r.opcode, r.opaque)))));
                    return v;
                }
            }
            Kind::Unsupported => {
                if matches {
                    ri += 1;
                } else {
                    v.push((vec!["C12", "C18"], format!("frame {}: request with unimplemented opcode {:#x} was not answered in order", fi, f.opcode)));
                    return v;
                }
            }
            Kind::Oversize => {
                oversized_since.insert(key_of(&f.bytes));
                if matches {
                    let r = next.unwrap();
                    if r.status != 0x03 {
                        v.push((vec!["C13"], format!("frame {}: body above the item limit {} answered with status {:#x}, not 'too large'", fi, limit, r.status)));
                    }
                    ri += 1;
                } else {
                    let mut props = vec!["C13", "C12", "C18"];
                    if quiet {
                        props.push("C19"); // the loud twin is answered 'too large' and skipped: the quiet one must be too
                    }
                    v.push((props, format!("frame {}: request with a body above the item limit {} was not answered with 'too large' at its place (next response: {:?})", fi, limit, next.map(|r| (r.opcode, r.opaque, r.status)))));
                    return v;
                }
            }
            Kind::NonStd => {
                // unspecified content: answered once, or the connection is closed
                if matches {
                    ri += 1;
                } else if closed && ri == resps.len() {
                    dead = true;
                } else if !quiet {
                    v.push((vec!["C09", "C10"], format!("frame {}: non-standard frame opcode {:#x} neither answered in order nor followed by a close", fi, f.opcode)));
                    return v;
                }
            }
            Kind::Quit => {
                if matches {
                    ri += 1;
                } else {
                    v.push((vec!["C12"], format!("frame {}: quit was not answered", fi)));
                }
                dead = true;
            }
            Kind::QuitQ => {
                dead = true;
            }
            Kind::BadHeader | Kind::Truncated => {
                dead = true;
            }
        }
    }
    if ri < resps.len() {
        let r = wire::parse_resp(&resps[ri]).ok();
        let after_quit = frames.iter().any(|f| matches!(f.kind, Kind::Quit | Kind::QuitQ));
        let faulty = frames.iter().any(|f| matches!(f.kind, Kind::BadHeader | Kind::Truncated));
        let nonstd = frames.iter().any(|f| matches!(f.kind, Kind::NonStd));
        // bytes of a non-standard frame's body answered as requests of their own: the frame was not taken from exactly
        // the 24 + body-length bytes its header announces (C09)
        let mut props: Vec<&'static str> = if after_quit { vec!["C12"] } else if faulty { vec!["C18", "C10", "C12"] } else if nonstd { vec!["C09", "C12", "C10"] } else { vec!["C12", "C10"] };
        // a response that echoes the opcode and opaque of no request of the stream cannot be matched by the client (C11)
        if let Some(x) = &r {
            if !frames.iter().any(|f| f.opcode == x.opcode && f.opaque == x.opaque) {
                props.push("C11");
            }
        }
        v.push((props, format!("{} response(s) beyond what the request stream calls for, first: {:?}", resps.len() - ri, r.map(|r| (r.opcode, r.opaque, r.status)))));
    }
    let must_close = frames.iter().any(|f| matches!(f.kind, Kind::Quit | Kind::QuitQ | Kind::BadHeader));
    if must_close && !closed && !ended_by_eof {
        v.push((vec!["C12", "C10"], "connection still open after quit / invalid header".to_string()));
    }
    v
}

/// run one profile: for every generated stream, every chosen segmentation at the chosen level
pub fn run(r: &mut Runner, level: &str, profile: &str, seed: u64, count: u64, tier_thorough: bool) -> StreamStats {
    let p = sprofile(profile);
    let mut master = Rng::new(seed ^ 0x5eed);
    let mut st = StreamStats { streams: 0, cases: 0, kinds: BTreeMap::new(), distinct: Default::default(), samples: vec![] };
    let directed = directed_streams_with_limit();
    for it in 0..count {
        let mut rng = master.fork();
        let mut limit: u32 = *rng.pick(&[1024u32, 1024, 2048, 4096]);
        let frames = if (it as usize) < directed.len() && count as usize >= directed.len() + 4 {
            if let Some(l) = directed[it as usize].0 {
                limit = l;
            }
            directed[it as usize].1.clone()
        } else {
            gen_stream(&mut rng, &p, limit)
        };
        let stream: Vec<u8> = frames.iter().flat_map(|f| f.bytes.clone()).collect();
        for f in &frames {
            *st.kinds.entry(format!("{:?}", f.kind)).or_insert(0) += 1;
        }
        let segs = if level == "codec" {
            if tier_thorough { segmentations(&mut rng, &frames, 400, 60, 10, 600) } else { segmentations(&mut rng, &frames, 24, 6, 3, 200) }
        } else if tier_thorough {
            segmentations(&mut rng, &frames, 40, 10, 4, 150)
        } else {
            segmentations(&mut rng, &frames, 8, 3, 2, 64)
        };
        st.streams += 1;
        let mut reference: Option<(String, String)> = None; // (canonical output, dump)
        let sig: u64 = frames.iter().fold(0xcbf29ce484222325u64, |h, f| (h ^ (f.opcode as u64 + 256 * (f.kind.clone() as u64))).wrapping_mul(0x100000001b3));
        st.distinct.insert(sig);
        for cuts in &segs {
            st.cases += 1;
            let start = r.ops.len();
            r.exec(&format!("new {}", limit));
            let parts = chunks(&stream, cuts);
            let canonical: String;
            if level == "codec" {
                r.exec("codec");
                let mut toks: Vec<String> = vec![];
                let mut last = String::new();
                for c in &parts {
                    let o = r.exec(&format!("dec {}", hex(c)));
                    for t in o.split(' ').skip(1) {
                        if t.starts_with('F') {
                            toks.push(t.to_string());
                        } else {
                            last = t.to_string();
                        }
                    }
                    if last == "E" || last.starts_with('P') {
                        break;
                    }
                }
                canonical = format!("{} | {}", toks.join(" "), last);
            } else {
                r.exec("conn");
                for c in &parts {
                    r.exec(&format!("chunk {}", hex(c)));
                }
                let o = r.exec("eof");
                canonical = o.clone();
                // P12 / P13 / P10 on the implementation's own response stream
                let bytes = wire::unhex(o.split(' ').nth(1).unwrap_or("-")).unwrap_or_default();
                let closed = o.ends_with("closed");
                for (props, msg) in judge_responses(&frames, limit, &bytes, closed, true) {
                    let prog = r.prog_start.len() - 1;
                    r.violations.push((prog, props, start, format!("{} [cuts {:?}]", msg, cuts)));
                }
            }
            let dump = r.exec("dump");
            if st.samples.len() < 3 && cuts.len() == 1 {
                st.samples.push(format!("limit {} frames {:?} cuts {:?} -> {}", limit, frames.iter().map(|f| format!("{:?}:{:#x}:{}B", f.kind, f.opcode, f.bytes.len())).collect::<Vec<_>>(), cuts, &canonical[..canonical.len().min(120)]));
            }
            match &reference {
                None => {
                    // P12: nothing received after quit / quitq is executed: the store must equal that of the
                    // stream cut right after the quit
                    if let Some(qi) = frames.iter().position(|f| matches!(f.kind, Kind::Quit | Kind::QuitQ)) {
                        if qi + 1 < frames.len() && level == "conn" {
                            let upto: Vec<u8> = frames[..=qi].iter().flat_map(|f| f.bytes.clone()).collect();
                            let s2 = r.ops.len();
                            r.exec(&format!("new {}", limit));
                            r.exec("conn");
                            r.exec(&format!("chunk {}", hex(&upto)));
                            r.exec("eof");
                            let d2 = r.exec("dump");
                            if d2 != dump {
                                let prog = r.prog_start.len() - 1;
                                r.violations.push((prog, vec!["C12"], s2, format!("requests received after quit were executed: store after the whole stream [{}] differs from the store after the stream cut behind the quit [{}]; whole stream: {}", trunc(&dump), trunc(&d2), hex(&stream))));
                            }
                        }
                    }
                    // P18 / P10: a truncated or invalid tail is never executed: the store must equal that of the
                    // complete frames alone
                    if let Some(last) = frames.last() {
                        if matches!(last.kind, Kind::BadHeader | Kind::Truncated) && level == "conn" {
                            let upto: Vec<u8> = frames[..frames.len() - 1].iter().flat_map(|f| f.bytes.clone()).collect();
                            let s2 = r.ops.len();
                            r.exec(&format!("new {}", limit));
                            r.exec("conn");
                            if !upto.is_empty() {
                                r.exec(&format!("chunk {}", hex(&upto)));
                            }
                            r.exec("eof");
                            let d2 = r.exec("dump");
                            if d2 != dump {
                                let prog = r.prog_start.len() - 1;
                                r.violations.push((prog, vec!["C18", "C10"], s2, format!("an incomplete or invalid request was executed: store after the faulty stream [{}] differs from the store after its complete requests alone [{}]; faulty stream: {}", trunc(&dump), trunc(&d2), hex(&stream))));
                            }
                        }
                    }
                    // C18 fault kinds beyond half-close, on the real server only
                    if level == "conn" && p.name == "C18" {
                        fault_kinds(r, &mut rng, &frames, limit, &stream, &mut st);
                    }
                    reference = Some((canonical, dump))
                }
                Some((c0, d0)) => {
                    if *c0 != canonical || *d0 != dump {
                        let prog = r.prog_start.len() - 1;
                        r.violations.push((
                            prog,
                            vec!["C09"],
                            start,
                            format!("segmentation {:?} of a {}-byte stream gives [{} ; {}] but the unsegmented stream gives [{} ; {}]", cuts, stream.len(), trunc(&canonical), trunc(&dump), trunc(c0), trunc(d0)),
                        ));
                    }
                }
            }
        }
    }
    if level == "conn" && matches!(profile, "C11" | "C12" | "C18") {
        big_response(r);
    }
    if level == "conn" && matches!(profile, "C18" | "C13" | "C10") {
        limit_edge(r);
    }
    if level == "conn" && profile == "C11" {
        tcp_value_sizes(r);
    }
    if level == "conn" && profile == "C18" {
        unread_close(r);
    }
    if level == "conn" && matches!(profile, "C09" | "C13" | "C18" | "C12") {
        stalled_oversized(r);
    }
    if level == "conn" && matches!(profile, "C12" | "C18") {
        reset_after_quit(r);
    }
    if level == "conn" && profile == "C18" {
        quiet_keepalive(r);
    }
    if level == "conn" && matches!(profile, "C18" | "C12") {
        let mut rng = master.fork();
        timed_cases(r, &mut rng, if tier_thorough { 12 } else { 3 });
    }
    r.finish();
    st
}

/// C18: the fault kinds a half-close does not cover.
///  * silence: the stream (whose tail may be a truncated request) is sent and the client just stops — the complete
///    requests are answered, the connection stays open, a second connection (`obs`) is served and sees exactly the
///    store the complete requests imply (all compared with the model);
///  * abortive reset / close without reading: everything is sent at once and the connection is aborted; afterwards
///    the store must be the store after some *prefix* of the complete requests (each at most once, in order) — the
///    prefixes are computed by the implementation itself, one run per prefix (those runs are compared with the model);
///    the server must still serve (`obs`).
fn fault_kinds(r: &mut Runner, rng: &mut Rng, frames: &[SFrame], limit: u32, stream: &[u8], st: &mut StreamStats) {
    let has_quit = frames.iter().any(|f| matches!(f.kind, Kind::Quit | Kind::QuitQ));
    let probe_key = b"probe-key".to_vec();
    let probe: Vec<u8> = {
        let mut v = wire::set_like(op::SET, &probe_key, b"pv", 7, 0, 0, 0x0b5).bytes();
        v.extend(wire::key_only(op::GET, &probe_key, 0, 0x0b6).bytes());
        v.extend(wire::key_only(op::DELETE, &probe_key, 0, 0x0b7).bytes());
        v
    };
    // silence
    {
        st.cases += 1;
        *st.kinds.entry("fault:silence".into()).or_insert(0) += 1;
        r.exec(&format!("new {}", limit));
        r.exec("conn");
        r.exec(&format!("chunk {}", hex(stream)));
        r.exec("fin");
        r.exec(&format!("obs {}", hex(&probe)));
        r.exec("dump");
        r.exec("eof");
        r.exec("dump");
    }
    if has_quit {
        return;
    }
    // the complete, valid-or-answerable frames in order (a bad header ends the connection: nothing after it runs)
    let mut complete: Vec<&SFrame> = vec![];
    for f in frames {
        if matches!(f.kind, Kind::Truncated | Kind::BadHeader) {
            break;
        }
        complete.push(f);
    }
    if complete.len() < 2 || !rng.chance(1, 2) {
        return;
    }
    // store after each prefix, by the implementation itself
    let mut prefix_dumps: Vec<String> = vec![];
    for k in 0..=complete.len() {
        let upto: Vec<u8> = complete[..k].iter().flat_map(|f| f.bytes.clone()).collect();
        r.exec(&format!("new {}", limit));
        r.exec("conn");
        if !upto.is_empty() {
            r.exec(&format!("chunk {}", hex(&upto)));
        }
        r.exec("eof");
        prefix_dumps.push(r.exec("dump"));
    }
    for kind in ["rst", "close"] {
        st.cases += 1;
        *st.kinds.entry(format!("fault:{}", kind)).or_insert(0) += 1;
        let start = r.ops.len();
        r.exec(&format!("new {}", limit));
        r.exec(&format!("blast {} {}", kind, hex(stream)));
        let d = r.sut.dump();
        let which = prefix_dumps.iter().position(|p| *p == d);
        let prog = r.prog_start.len() - 1;
        match which {
            Some(k) => {
                *st.kinds.entry(format!("fault:{}:executed-{}", kind, if k == complete.len() { "all" } else if k == 0 { "none" } else { "some" })).or_insert(0) += 1;
            }
            None => {
                r.violations.push((prog, vec!["C18"], start, format!("after an abortive end ({}) of a connection that had sent {} complete requests the store [{}] is not the store after any prefix of them (each at most once, in order); stream: {}", kind, complete.len(), trunc(&d), hex(stream))));
            }
        }
        // the server keeps serving: a new connection is answered (compared with the model on a store the model does
        // not know, so the probe uses its own key and leaves nothing behind)
        let o = r.sut.obs(&probe);
        let expect_tail = "0b7"; // the delete's opaque appears in the last response
        if !o.contains(expect_tail) {
            r.violations.push((prog, vec!["C18", "C17"], start, format!("after an abortive end ({}) a new connection is not served properly: {}", kind, trunc(&o))));
        }
    }
}

/// C11 on the real write path: a response far larger than a socket buffer must arrive complete, and the
/// response pipelined behind it must start exactly where the header of the big one says
pub fn big_response(r: &mut Runner) {
    use std::io::{Read, Write};
    let clock = std::sync::Arc::new(crate::sut::Clock(std::sync::atomic::AtomicU64::new(0)));
    let store: std::sync::Arc<dyn memcrs::cache::cache::Cache + Send + Sync> = std::sync::Arc::new(memcrs::memory_store::store::MemoryStore::new(clock));
    let limit: u32 = 40 << 20;
    // idle timeout 1 s, and the reader below stalls for longer than that: a write that cannot proceed is not an idle
    // connection, and whatever the server does about it must not corrupt the stream
    let srv = crate::net::start_server(store, limit, 8, 1);
    let value: Vec<u8> = (0..(24usize << 20)).map(|i| (i % 251) as u8).collect();
    let mut c = std::net::TcpStream::connect(("127.0.0.1", srv.port)).unwrap();
    c.set_nodelay(true).ok();
    let set = wire::set_like(op::SET, b"big", &value, 7, 0, 0, 1).bytes();
    let getk = wire::key_only(op::GETK, b"big", 0, 2).bytes();
    let noop = wire::bare(op::NOOP, 3).bytes();
    r.exec(&format!("note big-response set of {} bytes, then getk + noop pipelined", value.len()));
    let start = r.ops.len() - 1;
    let writer = {
        let mut c2 = c.try_clone().unwrap();
        std::thread::spawn(move || {
            let _ = c2.write_all(&set);
            let _ = c2.write_all(&getk);
            let _ = c2.write_all(&noop);
            let _ = c2.shutdown(std::net::Shutdown::Write);
        })
    };
    // a slow reader: the server's socket buffer fills up
    let mut got: Vec<u8> = Vec::with_capacity(value.len() + 1024);
    let mut buf = vec![0u8; 1 << 16];
    c.set_read_timeout(Some(std::time::Duration::from_secs(5))).ok();
    std::thread::sleep(std::time::Duration::from_millis(1600));
    loop {
        match c.read(&mut buf) {
            Ok(0) => break,
            Ok(n) => got.extend_from_slice(&buf[..n]),
            Err(_) => break,
        }
    }
    let _ = writer.join();
    let prog = r.prog_start.len().saturating_sub(1);
    let expect = 24 + 24 + (4 + 3 + value.len()) + 24;
    let verdict: Result<(), String> = (|| {
        let frames = wire::split_resps(&got).map_err(|e| format!("the response stream ({} bytes, {} expected) does not split into frames: {}", got.len(), expect, e))?;
        if frames.len() != 3 {
            return Err(format!("{} response frames instead of 3 ({} bytes received, {} expected)", frames.len(), got.len(), expect));
        }
        let g = wire::parse_resp(&frames[1])?;
        if g.opaque != 2 || g.value != value || g.key != b"big" {
            return Err("the get-key response does not carry the stored value".to_string());
        }
        let n = wire::parse_resp(&frames[2])?;
        if n.opaque != 3 || n.opcode != op::NOOP {
            return Err("the response behind the large one is not the noop's".to_string());
        }
        Ok(())
    })();
    if let Err(e) = verdict {
        r.violations.push((prog, vec!["C11", "C12", "C18"], start, format!("large response over a real socket (the client reads it 1.6 s late; every request was completely sent): {}", e)));
    }
}

/// C13 / C18 / C10 at the edge of the item size limit over a real socket (the receive path of `read_frame`, which the
/// in-process suites do not go through): requests whose body is the limit minus 0, 1, 23, 24, 25 bytes, each between two
/// quiet stores and followed by a noop, under limits above the initial receive buffer. Every one of them is within the limit:
/// stored, answered with status 0, and the connection goes on.
pub fn limit_edge(r: &mut Runner) {
    use std::io::{Read, Write};
    for limit in [20000u32, 65536] {
        let clock = std::sync::Arc::new(crate::sut::Clock(std::sync::atomic::AtomicU64::new(0)));
        let mem = std::sync::Arc::new(memcrs::memory_store::store::MemoryStore::new(clock));
        let store: std::sync::Arc<dyn memcrs::cache::cache::Cache + Send + Sync> = mem.clone();
        let srv = crate::net::start_server(store, limit, 8, 30);
        r.exec(&format!("note limit-edge: item limit {}; setq before<k>, set item<k> with a body of limit-k bytes, setq after<k>, noop; k = 0, 1, 23, 24, 25", limit));
        let start = r.ops.len() - 1;
        let prog = r.prog_start.len().saturating_sub(1);
        let Ok(mut c) = std::net::TcpStream::connect(("127.0.0.1", srv.port)) else { continue };
        c.set_nodelay(true).ok();
        c.set_read_timeout(Some(std::time::Duration::from_millis(3000))).ok();
        for k in [0usize, 1, 23, 24, 25] {
            let key = format!("item{}", k).into_bytes();
            let vlen = limit as usize - k - 8 - key.len();
            let mut b = wire::set_like(op::SETQ, format!("before{}", k).as_bytes(), b"b", 0, 0, 0, 1).bytes();
            b.extend(wire::set_like(op::SET, &key, &vec![b'e'; vlen], 0, 0, 0, 2).bytes());
            b.extend(wire::set_like(op::SETQ, format!("after{}", k).as_bytes(), b"a", 0, 0, 0, 3).bytes());
            b.extend(wire::bare(op::NOOP, 4).bytes());
            let sent = c.write_all(&b).is_ok();
            let mut got: Vec<u8> = vec![];
            let mut buf = [0u8; 4096];
            while got.len() < 48 {
                match c.read(&mut buf) {
                    Ok(0) | Err(_) => break,
                    Ok(n) => got.extend_from_slice(&buf[..n]),
                }
            }
            let recs = crate::sut::Sut::records_of(&mem);
            let has = |k: &[u8]| recs.iter().any(|(kk, _)| kk.as_slice() == k);
            let st: Vec<(u8, u16)> = wire::split_resps(&got).map_or(vec![], |fr| fr.iter().filter_map(|f| wire::parse_resp(f).ok()).map(|x| (x.opcode, x.status)).collect());
            let ok = sent && st == vec![(op::SET, 0), (op::NOOP, 0)] && has(&key) && has(format!("before{}", k).as_bytes()) && has(format!("after{}", k).as_bytes());
            if !ok {
                r.violations.push((prog, vec!["C13", "C18", "C10"], start, format!(
                    "item limit {}: a set whose body is {} bytes (the limit minus {}) between two quiet stores: responses (opcode, status) {:?} instead of [set ok, noop ok]; stored: before {} item {} after {}",
                    limit, limit as usize - k, k, st, has(format!("before{}", k).as_bytes()), has(&key), has(format!("after{}", k).as_bytes()))));
                break;
            }
        }
    }
}

/// C01 / C11 on the real write path (`encode_message` + `write_data_to_stream`, which is not the `Encoder::encode` the
/// in-process suites go through): values around 64 KiB — where lengths stop fitting 16 bits and where a "large value"
/// optimisation would switch — stored and fetched over a socket; every response must be exactly the frame its header
/// announces, carry the stored bytes and flags, and be followed by the next request's response
pub fn tcp_value_sizes(r: &mut Runner) {
    use std::io::{Read, Write};
    let clock = std::sync::Arc::new(crate::sut::Clock(std::sync::atomic::AtomicU64::new(0)));
    let store: std::sync::Arc<dyn memcrs::cache::cache::Cache + Send + Sync> = std::sync::Arc::new(memcrs::memory_store::store::MemoryStore::new(clock));
    let srv = crate::net::start_server(store, 1 << 20, 8, 30);
    r.exec("note tcp-value-sizes: set / get / getk / noop over a socket for values of 4090..4100, 65520..65545, 131070..131075 bytes");
    let start = r.ops.len() - 1;
    let prog = r.prog_start.len().saturating_sub(1);
    let mut c = match std::net::TcpStream::connect(("127.0.0.1", srv.port)) {
        Ok(c) => c,
        Err(_) => return,
    };
    c.set_nodelay(true).ok();
    c.set_read_timeout(Some(std::time::Duration::from_millis(3000))).ok();
    let sizes: Vec<usize> = (4090..=4100).chain(65520..=65545).chain(131070..=131075).collect();
    for (i, n) in sizes.iter().enumerate() {
        let key = format!("sz{}", n).into_bytes();
        let value: Vec<u8> = (0..*n).map(|j| (j as u32 * 31 + i as u32) as u8).collect();
        let fl = 0x0100_0000u32 + i as u32;
        let mut b = wire::set_like(op::SET, &key, &value, fl, 0, 0, 1).bytes();
        b.extend(wire::key_only(op::GET, &key, 0, 2).bytes());
        b.extend(wire::key_only(op::GETK, &key, 0, 3).bytes());
        b.extend(wire::bare(op::NOOP, 4).bytes());
        if c.write_all(&b).is_err() {
            r.violations.push((prog, vec!["C11", "C01"], start, format!("value of {} bytes: the connection was closed", n)));
            return;
        }
        let expect = 24 + (24 + 4 + n) + (24 + 4 + key.len() + n) + 24;
        let mut got: Vec<u8> = Vec::with_capacity(expect);
        let mut buf = vec![0u8; 1 << 16];
        while got.len() < expect {
            match c.read(&mut buf) {
                Ok(0) | Err(_) => break,
                Ok(k) => got.extend_from_slice(&buf[..k]),
            }
        }
        let verdict: Result<(), String> = (|| {
            if got.len() != expect {
                return Err(format!("{} response bytes instead of {}", got.len(), expect));
            }
            let fr = wire::split_resps(&got).map_err(|e| format!("the response stream does not split into frames: {}", e))?;
            if fr.len() != 4 {
                return Err(format!("{} frames instead of 4", fr.len()));
            }
            let g = wire::parse_resp(&fr[1])?;
            let gk = wire::parse_resp(&fr[2])?;
            let np = wire::parse_resp(&fr[3])?;
            if g.opaque != 2 || g.status != 0 || g.value != value || g.extras != fl.to_be_bytes() {
                return Err("the get response does not carry the stored value and flags".into());
            }
            if gk.opaque != 3 || gk.status != 0 || gk.value != value || gk.key != key {
                return Err("the getk response does not carry the key and the stored value".into());
            }
            if np.opaque != 4 || np.opcode != op::NOOP {
                return Err("the response behind the two hits is not the noop's".into());
            }
            Ok(())
        })();
        if let Err(e) = verdict {
            r.violations.push((prog, vec!["C11", "C01"], start, format!("value of {} bytes over a real socket: {}", n, e)));
            return;
        }
    }
}

/// C18 "the server keeps serving": clients that ask for data, half-close and never read it (their receive window is
/// full when the server closes their connections) must not delay anybody else. More such clients than the server has
/// worker threads, then a fresh connection whose noop must be answered promptly.
pub fn unread_close(r: &mut Runner) {
    use std::io::{Read, Write};
    let clock = std::sync::Arc::new(crate::sut::Clock(std::sync::atomic::AtomicU64::new(0)));
    let store: std::sync::Arc<dyn memcrs::cache::cache::Cache + Send + Sync> = std::sync::Arc::new(memcrs::memory_store::store::MemoryStore::new(clock));
    let srv = crate::net::start_server(store, 128 << 10, 64, 30);
    r.exec("note unread-close: 8 clients store 48 KiB, get it twice, half-close and never read (1 KiB receive buffer); then a fresh connection sends a noop");
    let start = r.ops.len() - 1;
    let value = vec![b'u'; 48 << 10];
    let mut held = vec![];
    for i in 0..8u32 {
        let sock = socket2::Socket::new(socket2::Domain::IPV4, socket2::Type::STREAM, None).unwrap();
        let _ = sock.set_recv_buffer_size(1024);
        let addr: std::net::SocketAddr = ([127, 0, 0, 1], srv.port).into();
        if sock.connect(&addr.into()).is_err() {
            continue;
        }
        let mut c: std::net::TcpStream = sock.into();
        let key = format!("u{}", i).into_bytes();
        let mut b = wire::set_like(op::SET, &key, &value, 0, 0, 0, 1).bytes();
        b.extend(wire::key_only(op::GET, &key, 0, 2).bytes());
        b.extend(wire::key_only(op::GET, &key, 0, 3).bytes());
        let _ = c.write_all(&b);
        let _ = c.shutdown(std::net::Shutdown::Write);
        held.push(c);
    }
    std::thread::sleep(std::time::Duration::from_millis(400));
    let t0 = std::time::Instant::now();
    let mut answered = false;
    if let Ok(mut b) = std::net::TcpStream::connect(("127.0.0.1", srv.port)) {
        b.set_nodelay(true).ok();
        b.set_read_timeout(Some(std::time::Duration::from_millis(2000))).ok();
        let _ = b.write_all(&wire::bare(op::NOOP, 0xbeef).bytes());
        let mut buf = [0u8; 64];
        if let Ok(n) = b.read(&mut buf) {
            answered = n >= 24;
        }
    }
    let waited = t0.elapsed();
    drop(held);
    if !answered {
        let prog = r.prog_start.len().saturating_sub(1);
        r.violations.push((prog, vec!["C18"], start, format!("while connections whose clients had half-closed without reading their answers were being closed, a fresh connection's noop got no answer within {} ms: a fault on one connection delays the others", waited.as_millis())));
    }
}

/// C09 / C13 / C18: the sender of an oversized request stalls inside its body for longer than the idle timeout and then
/// goes on. Whatever the server does with that connection (it closes it), the rest of the body — which here is the image
/// of valid requests — is never parsed as requests.
pub fn stalled_oversized(r: &mut Runner) {
    stalled_oversized_with(r, 1, 1500);
    // the same stall under an idle timeout it does not reach (a timer with a finer grain than the timeout must not disturb
    // the discard either): here the connection lives on, the discard is completed and the follower is answered
    stalled_oversized_with(r, 4, 1300);
}

fn stalled_oversized_with(r: &mut Runner, timeout_secs: u32, stall_ms: u64) {
    use std::io::{Read, Write};
    let clock = std::sync::Arc::new(crate::sut::Clock(std::sync::atomic::AtomicU64::new(0)));
    let mem = std::sync::Arc::new(memcrs::memory_store::store::MemoryStore::new(clock));
    let store: std::sync::Arc<dyn memcrs::cache::cache::Cache + Send + Sync> = mem.clone();
    let srv = crate::net::start_server(store, 1024, 8, timeout_secs);
    r.exec(&format!("note stalled-oversized: header of a 3000-byte set + 100 body bytes, {} ms of silence (idle timeout {} s), then the rest of the body, which is the image of `set injected` + `noop`", stall_ms, timeout_secs));
    let start = r.ops.len() - 1;
    let mut f = wire::set_like(op::SET, b"big", b"", 0, 0, 0, 0x51);
    f.body_len = Some(3000);
    let head = f.bytes();
    let inner = {
        let mut v = wire::set_like(op::SET, b"injected", b"pwn", 0, 0, 0, 0x66).bytes();
        v.extend(wire::bare(op::NOOP, 0x67).bytes());
        v
    };
    let mut got: Vec<u8> = vec![];
    if let Ok(mut c) = std::net::TcpStream::connect(("127.0.0.1", srv.port)) {
        c.set_nodelay(true).ok();
        let _ = c.write_all(&head);
        let _ = c.write_all(&vec![b'x'; 100 - 11]); // the header's key and extras are part of the 3000
        std::thread::sleep(std::time::Duration::from_millis(stall_ms));
        let mut rest = inner.clone();
        rest.resize(3000 - 100, b'y');
        let _ = c.write_all(&rest);
        let _ = c.write_all(&wire::bare(op::NOOP, 0x68).bytes());
        c.set_read_timeout(Some(std::time::Duration::from_millis(700))).ok();
        let mut buf = [0u8; 4096];
        loop {
            match c.read(&mut buf) {
                Ok(0) | Err(_) => break,
                Ok(n) => got.extend_from_slice(&buf[..n]),
            }
        }
    }
    let recs = crate::sut::Sut::records_of(&mem);
    let injected = recs.iter().any(|(k, _)| k.as_slice() == b"injected");
    let answered_inner = wire::split_resps(&got).ok().map_or(false, |fr| fr.iter().any(|b| wire::parse_resp(b).map_or(false, |x| x.opaque == 0x66 || x.opaque == 0x67)));
    let follower = wire::split_resps(&got).ok().map_or(false, |fr| fr.iter().any(|b| wire::parse_resp(b).map_or(false, |x| x.opaque == 0x68 && x.status == 0)));
    if stall_ms < timeout_secs as u64 * 1000 - 1000 && !follower && !(injected || answered_inner) {
        let prog = r.prog_start.len().saturating_sub(1);
        r.violations.push((prog, vec!["C13", "C09"], start, format!(
            "the sender of an oversized request paused for {} ms inside its body (idle timeout {} s): the noop behind the body was not answered (responses received: {})",
            stall_ms, timeout_secs, hex(&got[..got.len().min(96)]))));
    }
    if injected || answered_inner {
        let prog = r.prog_start.len().saturating_sub(1);
        r.violations.push((prog, vec!["C09", "C13", "C18", "C12"], start, format!(
            "bytes of an oversized request's body were executed as requests after its sender had stalled inside that body: {} (responses received: {})",
            if injected { "the key 'injected' is stored" } else { "a request inside the body was answered" }, hex(&got[..got.len().min(96)]))));
    }
}

/// C12 / C18: "nothing received after quit/quitq is executed" also when the client is already gone: a pipeline
/// [quiet stores…, quit or quitq, set after-quit] is written at once and the connection is reset (SO_LINGER 0) before the
/// server gets to the quit — the bytes are still in the server's receive queue, shutting the socket down fails. The store
/// must never hold the key written after the quit, and the server must still serve.
pub fn reset_after_quit(r: &mut Runner) {
    use std::io::Write;
    let clock = std::sync::Arc::new(crate::sut::Clock(std::sync::atomic::AtomicU64::new(0)));
    let mem = std::sync::Arc::new(memcrs::memory_store::store::MemoryStore::new(clock));
    let store: std::sync::Arc<dyn memcrs::cache::cache::Cache + Send + Sync> = mem.clone();
    let srv = crate::net::start_server(store, 64 << 10, 16, 5);
    r.exec("note reset-after-quit: [n quiet sets, quit|quitq, set after<i>] in one write, then the client resets the connection; n = 0, 20, 60, 200, each with quit and quitq, twice");
    let start = r.ops.len() - 1;
    let mut executed: Vec<String> = vec![];
    let mut round = 0u32;
    for _rep in 0..2 {
        for n in [0usize, 20, 60, 200] {
            for quit in [op::QUITQ, op::QUIT] {
                round += 1;
                let marker = format!("after{}", round).into_bytes();
                let mut b: Vec<u8> = vec![];
                for i in 0..n {
                    b.extend(wire::set_like(op::SETQ, format!("q{}_{}", round, i).as_bytes(), &vec![b'q'; 900], 0, 0, 0, i as u32).bytes());
                }
                b.extend(wire::bare(quit, 0x71).bytes());
                b.extend(wire::set_like(op::SET, &marker, b"x", 0, 0, 0, 0x72).bytes());
                if let Ok(c) = std::net::TcpStream::connect(("127.0.0.1", srv.port)) {
                    c.set_nodelay(true).ok();
                    let mut c = c;
                    let _ = c.write_all(&b);
                    let _ = socket2::SockRef::from(&c).set_linger(Some(std::time::Duration::from_secs(0)));
                    drop(c);
                }
                // until the store has been quiet for 60 ms (at most 1.5 s)
                let t0 = std::time::Instant::now();
                let mut last = usize::MAX;
                let mut quiet_since = std::time::Instant::now();
                while t0.elapsed() < std::time::Duration::from_millis(1500) {
                    let len = crate::sut::Sut::records_of(&mem).len();
                    if len != last {
                        last = len;
                        quiet_since = std::time::Instant::now();
                    } else if quiet_since.elapsed() > std::time::Duration::from_millis(60) {
                        break;
                    }
                    std::thread::sleep(std::time::Duration::from_millis(5));
                }
                if crate::sut::Sut::records_of(&mem).iter().any(|(k, _)| k.as_slice() == marker.as_slice()) {
                    executed.push(format!("{} quiet sets + {} + set {}", n, if quit == op::QUIT { "quit" } else { "quitq" }, String::from_utf8_lossy(&marker)));
                }
            }
        }
    }
    let mut serving = false;
    if let Ok(mut b) = std::net::TcpStream::connect(("127.0.0.1", srv.port)) {
        use std::io::Read;
        b.set_read_timeout(Some(std::time::Duration::from_millis(2000))).ok();
        let _ = b.write_all(&wire::bare(op::NOOP, 0xbeef).bytes());
        let mut buf = [0u8; 64];
        serving = matches!(b.read(&mut buf), Ok(n) if n >= 24);
    }
    let prog = r.prog_start.len().saturating_sub(1);
    if !executed.is_empty() {
        r.violations.push((prog, vec!["C12", "C18"], start, format!(
            "a request pipelined behind quit/quitq was executed although the connection had been reset by the client: {} (of {} rounds)", executed.join("; "), round)));
    }
    if !serving {
        r.violations.push((prog, vec!["C18", "C17"], start, "after clients had reset their connections behind a quit, a fresh connection's noop got no answer within 2 s".to_string()));
    }
}

/// C18 / C19: a client that keeps sending — but only commands that produce no response — is not idle: every request it
/// has completely sent is executed. Idle timeout 2 s; one answered set, then a quiet set every 400 ms for 3.6 s, then a
/// noop. (If the sender itself was stalled for more than 1.2 s between two sends, the run says nothing.)
pub fn quiet_keepalive(r: &mut Runner) {
    use std::io::{Read, Write};
    let clock = std::sync::Arc::new(crate::sut::Clock(std::sync::atomic::AtomicU64::new(0)));
    let mem = std::sync::Arc::new(memcrs::memory_store::store::MemoryStore::new(clock));
    let store: std::sync::Arc<dyn memcrs::cache::cache::Cache + Send + Sync> = mem.clone();
    let srv = crate::net::start_server(store, 64 << 10, 8, 2);
    r.exec("note quiet-keepalive: idle timeout 2 s; set k0 (answered), then setq k1..k9 400 ms apart, then noop");
    let start = r.ops.len() - 1;
    let Ok(mut c) = std::net::TcpStream::connect(("127.0.0.1", srv.port)) else { return };
    c.set_nodelay(true).ok();
    c.set_read_timeout(Some(std::time::Duration::from_millis(1500))).ok();
    let mut buf = [0u8; 256];
    let _ = c.write_all(&wire::set_like(op::SET, b"k0", b"v", 0, 0, 0, 1).bytes());
    let _ = c.read(&mut buf);
    let mut max_gap = std::time::Duration::ZERO;
    let mut last = std::time::Instant::now();
    let mut send_failed = None;
    for i in 1..=9u32 {
        std::thread::sleep(std::time::Duration::from_millis(400));
        let now = std::time::Instant::now();
        max_gap = max_gap.max(now - last);
        last = now;
        // alternate quiet stores that succeed and quiet gets that miss
        let f = if i % 3 == 0 { wire::key_only(op::GETQ, b"absent", 0, 100 + i).bytes() } else { wire::set_like(op::SETQ, format!("k{}", i).as_bytes(), b"v", 0, 0, 0, 100 + i).bytes() };
        if c.write_all(&f).is_err() && send_failed.is_none() {
            send_failed = Some(i);
        }
    }
    let _ = c.write_all(&wire::bare(op::NOOP, 0x99).bytes());
    let mut got = vec![];
    loop {
        match c.read(&mut buf) {
            Ok(0) | Err(_) => break,
            Ok(n) => {
                got.extend_from_slice(&buf[..n]);
                if got.len() >= 24 {
                    break;
                }
            }
        }
    }
    if max_gap > std::time::Duration::from_millis(1200) {
        r.exec(&format!("note quiet-keepalive inconclusive: the sender was stalled for {} ms", max_gap.as_millis()));
        return;
    }
    let recs = crate::sut::Sut::records_of(&mem);
    let missing: Vec<String> = (1..=9u32).filter(|i| i % 3 != 0).map(|i| format!("k{}", i)).filter(|k| !recs.iter().any(|(kk, _)| kk.as_slice() == k.as_bytes())).collect();
    let noop_ok = wire::split_resps(&got).ok().map_or(false, |fr| fr.iter().any(|b| wire::parse_resp(b).map_or(false, |x| x.opaque == 0x99)));
    if !missing.is_empty() || !noop_ok {
        let prog = r.prog_start.len().saturating_sub(1);
        r.violations.push((prog, vec!["C18", "C19"], start, format!(
            "a client that sent a quiet command every 400 ms (idle timeout 2 s, largest gap between its sends {} ms) was cut off: quiet stores completely sent but not executed: [{}]; final noop {}{}",
            max_gap.as_millis(), missing.join(" "), if noop_ok { "answered" } else { "not answered" },
            send_failed.map_or(String::new(), |i| format!("; sending request {} failed", i)))));
    }
}

/// the implementation side of a `tcase` line: a fresh store and server (idle timeout `rx_ms`), one connection opened at
/// instant 0; every `t:hex` is sent at instant t (ms); at the final instant everything received so far is returned with the
/// state of the connection. A run in which the sender itself was more than 400 ms late is repeated (five times at most; the least late run counts).
pub fn tcase_run(limit: u32, rx_ms: u64, now: u64, toks: &[&str]) -> String {
    use std::io::{Read, Write};
    let plan: Vec<(u64, Vec<u8>)> = toks[..toks.len() - 1].iter().map(|t| {
        let (a, b) = t.split_once(':').unwrap();
        (a.parse().unwrap(), wire::unhex(b).unwrap())
    }).collect();
    let tfin: u64 = toks[toks.len() - 1].parse().unwrap();
    let mut result = String::new();
    let mut best_late = u64::MAX;
    for _attempt in 0..5 {
        let clock = std::sync::Arc::new(crate::sut::Clock(std::sync::atomic::AtomicU64::new(now)));
        let store: std::sync::Arc<dyn memcrs::cache::cache::Cache + Send + Sync> = std::sync::Arc::new(memcrs::memory_store::store::MemoryStore::new(clock));
        let srv = crate::net::start_server(store, limit, 8, (rx_ms / 1000) as u32);
        let Ok(mut c) = std::net::TcpStream::connect(("127.0.0.1", srv.port)) else { continue };
        let t0 = std::time::Instant::now();
        c.set_nodelay(true).ok();
        c.set_nonblocking(true).ok();
        let mut got: Vec<u8> = vec![];
        let mut closed = false;
        let mut late = 0u64;
        let mut buf = [0u8; 65536];
        let mut pump = |c: &mut std::net::TcpStream, got: &mut Vec<u8>, closed: &mut bool| loop {
            match c.read(&mut buf) {
                Ok(0) => {
                    *closed = true;
                    break;
                }
                Ok(n) => got.extend_from_slice(&buf[..n]),
                Err(e) if e.kind() == std::io::ErrorKind::WouldBlock => break,
                Err(_) => {
                    *closed = true;
                    break;
                }
            }
        };
        for (t, bytes) in &plan {
            let due = std::time::Duration::from_millis(*t);
            while t0.elapsed() < due {
                pump(&mut c, &mut got, &mut closed);
                std::thread::sleep(std::time::Duration::from_millis(2));
            }
            late = late.max((t0.elapsed() - due).as_millis() as u64);
            c.set_nonblocking(false).ok();
            let _ = c.write_all(bytes);
            c.set_nonblocking(true).ok();
        }
        let due = std::time::Duration::from_millis(tfin);
        while t0.elapsed() < due {
            pump(&mut c, &mut got, &mut closed);
            std::thread::sleep(std::time::Duration::from_millis(2));
        }
        late = late.max((t0.elapsed() - due).as_millis() as u64);
        // what is on its way
        let t1 = std::time::Instant::now();
        while t1.elapsed() < std::time::Duration::from_millis(120) {
            pump(&mut c, &mut got, &mut closed);
            std::thread::sleep(std::time::Duration::from_millis(5));
        }
        if late < best_late {
            best_late = late;
            result = format!("out {} {}", wire::hexd(&got), if closed { "closed" } else { "open" });
        }
        if late <= 400 {
            break;
        }
    }
    result
}

/// C18 / C12: the receive timeout as `Model/Timed` has it — restarted by every request that becomes complete (answered or
/// not), not by bytes that complete nothing; when it fires, nothing that arrives later is read. Arrival plans keep a second
/// away from every deadline of a 2 s timeout.
pub fn timed_cases(r: &mut Runner, rng: &mut Rng, n: usize) {
    let rx: u64 = 2000;
    for case in 0..n {
        r.exec("new 1024");
        let mut toks: Vec<String> = vec![];
        let mut t: u64 = 0;
        let mut deadline: u64 = rx;
        let narr = rng.range(3, 6);
        let mut dead = false;
        for i in 0..narr {
            let key = format!("t{}", rng.below(3)).into_bytes();
            let f: Vec<u8> = match rng.below(6) {
                0 => wire::set_like(op::SET, &key, b"v", 1, 0, 0, 10 + i as u32).bytes(),
                1 | 2 => wire::set_like(op::SETQ, &key, b"q", 2, 0, 0, 10 + i as u32).bytes(),
                3 => wire::key_only(op::GETQ, b"absent", 0, 10 + i as u32).bytes(),
                4 => wire::key_only(op::GET, &key, 0, 10 + i as u32).bytes(),
                _ => wire::bare(op::NOOP, 10 + i as u32).bytes(),
            };
            let last = i + 1 == narr;
            match if last && case % 2 == 1 { rng.below(2) + 2 } else { rng.below(2) } {
                0 => {
                    // a whole request, in time: the timer is restarted
                    t += rng.range(200, 1000);
                    toks.push(format!("{}:{}", t, hex(&f)));
                    deadline = t + rx;
                }
                1 => {
                    // a request in two pieces, both in time: only the second restarts the timer
                    let cut = rng.range(1, f.len() as u64 - 1) as usize;
                    t += rng.range(150, 500);
                    toks.push(format!("{}:{}", t, hex(&f[..cut])));
                    t += rng.range(100, 450);
                    toks.push(format!("{}:{}", t, hex(&f[cut..])));
                    deadline = t + rx;
                }
                2 => {
                    // a whole request after the deadline: never read
                    t = deadline + rng.range(1000, 1400);
                    toks.push(format!("{}:{}", t, hex(&f)));
                    dead = true;
                }
                _ => {
                    // the first piece in time, the rest after the deadline the first piece did not move
                    let cut = rng.range(1, f.len() as u64 - 1) as usize;
                    t += rng.range(150, 500);
                    toks.push(format!("{}:{}", t, hex(&f[..cut])));
                    t = deadline + rng.range(1000, 1400);
                    toks.push(format!("{}:{}", t, hex(&f[cut..])));
                    dead = true;
                }
            }
            if dead {
                break;
            }
        }
        let tfin = t + 300;
        let line = format!("tcase {} 7 {} {}", rx, toks.join(" "), tfin);
        let out = r.exec(&line);
        // oracle, independent of the model: a connection all of whose arrivals were in time is open and every loud
        // request is answered; one that was late is closed
        let prog = r.prog_start.len().saturating_sub(1);
        let start = r.ops.len() - 1;
        if !dead && out.ends_with("closed") {
            r.violations.push((prog, vec!["C18", "C12"], start, format!("a connection whose requests all arrived at least a second before the idle timeout ({} ms) would have fired was closed: {}", rx, trunc(&line))));
        }
        if dead && out.ends_with("open") {
            r.violations.push((prog, vec!["C18", "C17"], start, format!("a connection that stayed silent (or stuck inside a request) for a second longer than the idle timeout ({} ms) is still open: {}", rx, trunc(&line))));
        }
    }
}

fn trunc(s: &str) -> String {
    if s.len() > 160 {
        format!("{}…({} chars)", &s[..160], s.len())
    } else {
        s.to_string()
    }
}

/// C10: the boundary grid of header fields (sampled deterministically from the full product), each header
/// followed by as many filler bytes as it announces (capped), fed in 4 KiB reads through the real decoder
pub fn run_grid(r: &mut Runner, seed: u64, count: u64) -> StreamStats {
    let mut rng = Rng::new(seed ^ 0x6a1d);
    let mut st = StreamStats { streams: 0, cases: 0, kinds: BTreeMap::new(), distinct: Default::default(), samples: vec![] };
    let opcodes: Vec<u8> = (0u8..=0x26).chain([0x40u8, 0x7f, 0x80, 0xff]).collect();
    // above 250: also lengths whose low byte alone would pass (256, 300, 0x1fa, 1000, 0xff00)
    let keylens: [u16; 12] = [0, 1, 5, 250, 251, 255, 256, 300, 0x1fa, 1000, 0xff00, 65535];
    let extras: [u8; 7] = [0, 4, 8, 12, 20, 21, 255];
    for case_no in 0..count {
        if case_no % 8 == 7 {
            // memory clause under pipelining: several large requests (some of which the store will refuse, so that their
            // payload is dropped at once) on one connection, limits above the initial buffer size; the capacity of the
            // connection buffer must stay within the item limit plus a small constant whatever the allocator's growth policy
            let limit: u32 = *rng.pick(&[5000u32, 8192, 8192, 12000, 20000]);
            r.exec(&format!("new {}", limit));
            r.exec("codec");
            let n = rng.range(2, 5);
            let mut stream: Vec<u8> = vec![];
            let mut frac = rng.range(35, 70);
            for i in 0..n {
                let total = ((limit as u64) * frac / 100).min(limit as u64) as usize;
                frac = (frac + rng.range(10, 40)).min(100);
                let vlen = total.saturating_sub(8 + 3).max(1);
                let opc = *rng.pick(&[op::SET, op::ADD, op::ADD, op::REPLACE, op::SETQ]);
                stream.extend_from_slice(&wire::set_like(opc, b"big", &vec![b'a' + i as u8; vlen], 0, 0, 0, i as u32).bytes());
                if rng.chance(1, 3) {
                    stream.extend_from_slice(&wire::key_only(op::GET, b"big", 0, 100 + i as u32).bytes());
                }
            }
            *st.kinds.entry("big-pipeline".to_string()).or_insert(0) += 1;
            st.cases += 1;
            st.streams += 1;
            st.distinct.insert(0xb16 ^ ((limit as u64) << 20) ^ stream.len() as u64);
            let mut off = 0usize;
            while off < stream.len() {
                let nn = (stream.len() - off).min(*rng.pick(&[4096usize, 4096, 1500, 9000]));
                let o = r.exec(&format!("dec {}", hex(&stream[off..off + nn])));
                off += nn;
                if o.ends_with(" E") || o.contains(" P:") {
                    break;
                }
            }
            r.exec("dump");
            continue;
        }
        let limit: u32 = *rng.pick(&[1024u32, 2048, 4096, 65536]);
        let opc = *rng.pick(&opcodes);
        let kl = *rng.pick(&keylens);
        let el = *rng.pick(&extras);
        let ke = kl as u32 + el as u32;
        let bodies: [u32; 14] = [0, ke.saturating_sub(1), ke, ke + 1, ke + 7, limit - 1, limit, limit + 1, limit + ke, limit + ke + 1, 2 * limit, limit + 65790, 0x7fff_ffff, 0xffff_ffff];
        let body = *rng.pick(&bodies);
        let magic = if rng.chance(1, 12) { *rng.pick(&[0x81u8, 0, 0xff]) } else { 0x80 };
        let dtype = if rng.chance(1, 12) { *rng.pick(&[1u8, 0xff]) } else { 0 };
        let mut h = vec![magic, opc];
        h.extend_from_slice(&kl.to_be_bytes());
        h.push(el);
        h.push(dtype);
        h.extend_from_slice(&[0, 0]);
        h.extend_from_slice(&body.to_be_bytes());
        h.extend_from_slice(&(rng.next() as u32).to_be_bytes());
        h.extend_from_slice(&u64_field(&mut rng).to_be_bytes());
        let avail = match rng.below(20) {
            0..=4 => 0usize,
            5..=9 => (body as usize / 2).min(3000),
            10 => (body as usize).min(limit as usize + 70000),
            _ => (body as usize).min(limit as usize + 600),
        };
        let sig = (opc as u64) | ((kl as u64) << 8) | ((el as u64) << 24) | ((body as u64) << 32);
        st.distinct.insert(sig ^ ((magic as u64) << 1) ^ (dtype as u64));
        *st.kinds.entry(format!("op{:#04x}", opc)).or_insert(0) += 1;
        st.cases += 1;
        st.streams += 1;
        r.exec(&format!("new {}", limit));
        r.exec("codec");
        // the body filler looks like further (valid) requests so that a mis-skip would execute something
        let unit = wire::set_like(op::SET, b"smuggled", b"1", 0, 0, 0, 1).bytes();
        let mut filler: Vec<u8> = Vec::with_capacity(avail);
        while filler.len() < avail {
            filler.extend_from_slice(&unit);
        }
        filler.truncate(avail);
        let first_extra = rng.below(3) as usize * 7;
        let mut first = h.clone();
        first.extend_from_slice(&filler[..first_extra.min(filler.len())]);
        let o = r.exec(&format!("dec {}", hex(&first)));
        let mut off = first_extra.min(filler.len());
        let mut dead = o.ends_with(" E") || o.contains(" P:");
        while off < filler.len() && !dead {
            let n = (filler.len() - off).min(4096);
            let o = r.exec(&format!("dec {}", hex(&filler[off..off + n])));
            dead = o.ends_with(" E") || o.contains(" P:");
            off += n;
        }
        let d = r.exec("dump");
        // C10: a header the property lists as invalid is never executed — and since such a header ends the connection,
        // nothing behind it is either: the (fresh) store must still be empty
        // (an oversized body is refused before the opcode is looked at; at this level — the bare decoder — the skipping of
        // its body, which belongs to the connection, is not emulated, so those cases are left to the conn suite)
        let unassigned = opc >= 0x25 || ((opc == 0x1b || opc == 0x1f) && body <= limit);
        let key_required = matches!(opc, 0x00 | 0x09 | 0x0c | 0x0d | 0x01 | 0x02 | 0x03 | 0x11 | 0x12 | 0x13 | 0x04 | 0x14 | 0x05 | 0x06 | 0x15 | 0x16 | 0x0e | 0x0f | 0x19 | 0x1a);
        let invalid = magic != 0x80 || dtype != 0 || unassigned || (body <= limit && (kl > 250 || el > 20 || (key_required && kl == 0) || body < ke));
        if invalid && d.trim() != "dump" {
            let prog = r.prog_start.len() - 1;
            r.violations.push((prog, vec!["C10"], r.ops.len() - 1, format!(
                "a request with an invalid header (magic {:#x}, opcode {:#x}, data type {}, key length {}, extras length {}, body length {}, limit {}) was executed, or something behind it was: the store holds [{}]",
                magic, opc, dtype, kl, el, body, limit, trunc(&d))));
        }
        if st.samples.len() < 3 {
            st.samples.push(format!("limit {} header {} followed by {} filler bytes", limit, hex(&h), avail));
        }
    }
    r.finish();
    st
}

fn u64_field(rng: &mut Rng) -> u64 {
    match rng.below(4) {
        0 => 0,
        1 => u64::MAX,
        2 => 1,
        _ => rng.next(),
    }
}
