//! Request frame builder and *independent* request/response parsers (no code shared with memcrs).

pub fn hex(b: &[u8]) -> String {
    const H: &[u8; 16] = b"0123456789abcdef";
    let mut s = String::with_capacity(b.len() * 2);
    for x in b {
        s.push(H[(x >> 4) as usize] as char);
        s.push(H[(x & 15) as usize] as char);
    }
    s
}
/// short printable form of a key for messages
pub fn kx(b: &[u8]) -> String {
    if b.len() > 16 {
        format!("{}..({} bytes)", hex(&b[..8]), b.len())
    } else {
        hex(b)
    }
}
pub fn hexd(b: &[u8]) -> String {
    if b.is_empty() {
        "-".to_string()
    } else {
        hex(b)
    }
}
pub fn unhex(s: &str) -> Option<Vec<u8>> {
    if s == "-" {
        return Some(vec![]);
    }
    let b = s.as_bytes();
    if b.len() % 2 != 0 {
        return None;
    }
    let v = |c: u8| -> Option<u8> {
        match c {
            b'0'..=b'9' => Some(c - b'0'),
            b'a'..=b'f' => Some(c - b'a' + 10),
            b'A'..=b'F' => Some(c - b'A' + 10),
            _ => None,
        }
    };
    let mut out = Vec::with_capacity(b.len() / 2);
    for i in (0..b.len()).step_by(2) {
        out.push(v(b[i])? * 16 + v(b[i + 1])?);
    }
    Some(out)
}

#[derive(Clone, Debug)]
pub struct Frame {
    pub magic: u8,
    pub opcode: u8,
    pub datatype: u8,
    pub vbucket: u16,
    pub opaque: u32,
    pub cas: u64,
    pub extras: Vec<u8>,
    pub key: Vec<u8>,
    pub value: Vec<u8>,
    pub key_len: Option<u16>,
    pub extras_len: Option<u8>,
    pub body_len: Option<u32>,
}

impl Frame {
    pub fn new(opcode: u8) -> Frame {
        Frame {
            magic: 0x80,
            opcode,
            datatype: 0,
            vbucket: 0,
            opaque: 0,
            cas: 0,
            extras: vec![],
            key: vec![],
            value: vec![],
            key_len: None,
            extras_len: None,
            body_len: None,
        }
    }
    pub fn bytes(&self) -> Vec<u8> {
        let mut b = Vec::with_capacity(24 + self.extras.len() + self.key.len() + self.value.len());
        b.push(self.magic);
        b.push(self.opcode);
        b.extend_from_slice(&self.key_len.unwrap_or(self.key.len() as u16).to_be_bytes());
        b.push(self.extras_len.unwrap_or(self.extras.len() as u8));
        b.push(self.datatype);
        b.extend_from_slice(&self.vbucket.to_be_bytes());
        let body = (self.extras.len() + self.key.len() + self.value.len()) as u32;
        b.extend_from_slice(&self.body_len.unwrap_or(body).to_be_bytes());
        b.extend_from_slice(&self.opaque.to_be_bytes());
        b.extend_from_slice(&self.cas.to_be_bytes());
        b.extend_from_slice(&self.extras);
        b.extend_from_slice(&self.key);
        b.extend_from_slice(&self.value);
        b
    }
}

pub mod op {
    pub const GET: u8 = 0x00;
    pub const SET: u8 = 0x01;
    pub const ADD: u8 = 0x02;
    pub const REPLACE: u8 = 0x03;
    pub const DELETE: u8 = 0x04;
    pub const INCR: u8 = 0x05;
    pub const DECR: u8 = 0x06;
    pub const QUIT: u8 = 0x07;
    pub const FLUSH: u8 = 0x08;
    pub const GETQ: u8 = 0x09;
    pub const NOOP: u8 = 0x0a;
    pub const VERSION: u8 = 0x0b;
    pub const GETK: u8 = 0x0c;
    pub const GETKQ: u8 = 0x0d;
    pub const APPEND: u8 = 0x0e;
    pub const PREPEND: u8 = 0x0f;
    pub const STAT: u8 = 0x10;
    pub const SETQ: u8 = 0x11;
    pub const ADDQ: u8 = 0x12;
    pub const REPLACEQ: u8 = 0x13;
    pub const DELETEQ: u8 = 0x14;
    pub const INCRQ: u8 = 0x15;
    pub const DECRQ: u8 = 0x16;
    pub const QUITQ: u8 = 0x17;
    pub const FLUSHQ: u8 = 0x18;
    pub const APPENDQ: u8 = 0x19;
    pub const PREPENDQ: u8 = 0x1a;
}

pub fn set_like(opcode: u8, key: &[u8], value: &[u8], flags: u32, exp: u32, cas: u64, opaque: u32) -> Frame {
    let mut f = Frame::new(opcode);
    f.key = key.to_vec();
    f.value = value.to_vec();
    f.extras = [flags.to_be_bytes(), exp.to_be_bytes()].concat();
    f.cas = cas;
    f.opaque = opaque;
    f
}
pub fn key_only(opcode: u8, key: &[u8], cas: u64, opaque: u32) -> Frame {
    let mut f = Frame::new(opcode);
    f.key = key.to_vec();
    f.cas = cas;
    f.opaque = opaque;
    f
}
pub fn append_like(opcode: u8, key: &[u8], value: &[u8], cas: u64, opaque: u32) -> Frame {
    let mut f = Frame::new(opcode);
    f.key = key.to_vec();
    f.value = value.to_vec();
    f.cas = cas;
    f.opaque = opaque;
    f
}
pub fn delta(opcode: u8, key: &[u8], delta: u64, initial: u64, exp: u32, cas: u64, opaque: u32) -> Frame {
    let mut f = Frame::new(opcode);
    f.key = key.to_vec();
    f.extras = [&delta.to_be_bytes()[..], &initial.to_be_bytes()[..], &exp.to_be_bytes()[..]].concat();
    f.cas = cas;
    f.opaque = opaque;
    f
}
pub fn flush(opcode: u8, delay: Option<u32>, opaque: u32) -> Frame {
    let mut f = Frame::new(opcode);
    if let Some(d) = delay {
        f.extras = d.to_be_bytes().to_vec();
    }
    f.opaque = opaque;
    f
}
pub fn bare(opcode: u8, opaque: u32) -> Frame {
    let mut f = Frame::new(opcode);
    f.opaque = opaque;
    f
}

/// request header as the protocol document lays it out
#[derive(Clone, Debug)]
pub struct ReqHdr {
    pub magic: u8,
    pub opcode: u8,
    pub key_len: u16,
    pub extras_len: u8,
    pub datatype: u8,
    pub body_len: u32,
    pub opaque: u32,
    pub cas: u64,
}

pub fn parse_req_hdr(b: &[u8]) -> Option<ReqHdr> {
    if b.len() < 24 {
        return None;
    }
    Some(ReqHdr {
        magic: b[0],
        opcode: b[1],
        key_len: u16::from_be_bytes([b[2], b[3]]),
        extras_len: b[4],
        datatype: b[5],
        body_len: u32::from_be_bytes([b[8], b[9], b[10], b[11]]),
        opaque: u32::from_be_bytes([b[12], b[13], b[14], b[15]]),
        cas: u64::from_be_bytes(b[16..24].try_into().unwrap()),
    })
}

/// a *standard* protocol command (extras of exactly the documented size); anything else is NonStandard
#[derive(Clone, Debug, PartialEq)]
pub enum Cmd {
    Get { key: Vec<u8>, quiet: bool, with_key: bool },
    Store { kind: u8, key: Vec<u8>, value: Vec<u8>, flags: u32, exp: u32, quiet: bool }, // kind = SET/ADD/REPLACE
    Concat { append: bool, key: Vec<u8>, value: Vec<u8>, quiet: bool },
    Delta { incr: bool, key: Vec<u8>, delta: u64, initial: u64, exp: u32, quiet: bool },
    Delete { key: Vec<u8>, quiet: bool },
    Flush { delay: u32, quiet: bool },
    Noop,
    Version,
    Stat,
    Quit { quiet: bool },
    Unsupported,
    NonStandard,
}

pub fn is_quiet_opcode(op_: u8) -> bool {
    matches!(op_, 0x09 | 0x0d | 0x11..=0x1a)
}

/// independent classification of one complete request frame
pub fn parse_cmd(b: &[u8]) -> Option<(ReqHdr, Cmd)> {
    let h = parse_req_hdr(b)?;
    if b.len() != 24 + h.body_len as usize {
        return Some((h, Cmd::NonStandard));
    }
    let body = &b[24..];
    let el = h.extras_len as usize;
    let kl = h.key_len as usize;
    if h.magic != 0x80 || h.datatype != 0 || el + kl > body.len() || kl > 250 {
        return Some((h, Cmd::NonStandard));
    }
    let extras = &body[..el];
    let key = body[el..el + kl].to_vec();
    let value = body[el + kl..].to_vec();
    use op::*;
    let c = match h.opcode {
        GET | GETQ | GETK | GETKQ if el == 0 && kl > 0 && value.is_empty() => Cmd::Get {
            key,
            quiet: matches!(h.opcode, GETQ | GETKQ),
            with_key: matches!(h.opcode, GETK | GETKQ),
        },
        SET | ADD | REPLACE | SETQ | ADDQ | REPLACEQ if el == 8 && kl > 0 => Cmd::Store {
            kind: match h.opcode {
                SET | SETQ => SET,
                ADD | ADDQ => ADD,
                _ => REPLACE,
            },
            key,
            value,
            flags: u32::from_be_bytes(extras[0..4].try_into().unwrap()),
            exp: u32::from_be_bytes(extras[4..8].try_into().unwrap()),
            quiet: h.opcode >= SETQ,
        },
        APPEND | PREPEND | APPENDQ | PREPENDQ if el == 0 && kl > 0 => Cmd::Concat {
            append: matches!(h.opcode, APPEND | APPENDQ),
            key,
            value,
            quiet: h.opcode >= APPENDQ,
        },
        INCR | DECR | INCRQ | DECRQ if el == 20 && kl > 0 && value.is_empty() => Cmd::Delta {
            incr: matches!(h.opcode, INCR | INCRQ),
            key,
            delta: u64::from_be_bytes(extras[0..8].try_into().unwrap()),
            initial: u64::from_be_bytes(extras[8..16].try_into().unwrap()),
            exp: u32::from_be_bytes(extras[16..20].try_into().unwrap()),
            quiet: h.opcode >= INCRQ,
        },
        DELETE | DELETEQ if el == 0 && kl > 0 && value.is_empty() => Cmd::Delete { key, quiet: h.opcode == DELETEQ },
        FLUSH | FLUSHQ if (el == 0 || el == 4) && kl == 0 && value.is_empty() => Cmd::Flush {
            delay: if el == 4 { u32::from_be_bytes(extras[0..4].try_into().unwrap()) } else { 0 },
            quiet: h.opcode == FLUSHQ,
        },
        NOOP if body.is_empty() => Cmd::Noop,
        VERSION if body.is_empty() => Cmd::Version,
        // `stat <group>` carries the group name as key (what libmemcached and memcached-tool send)
        STAT if el == 0 && value.is_empty() => Cmd::Stat,
        QUIT | QUITQ if body.is_empty() => Cmd::Quit { quiet: h.opcode == QUITQ },
        0x1c | 0x1d | 0x1e | 0x20 | 0x21 | 0x22 | 0x23 | 0x24 => Cmd::Unsupported,
        _ => Cmd::NonStandard,
    };
    Some((h, c))
}

#[derive(Clone, Debug)]
pub struct Resp {
    pub opcode: u8,
    pub key_len: u16,
    pub extras_len: u8,
    pub datatype: u8,
    pub status: u16,
    pub body_len: u32,
    pub opaque: u32,
    pub cas: u64,
    pub extras: Vec<u8>,
    pub key: Vec<u8>,
    pub value: Vec<u8>,
}

/// independent response parser: Err(reason) when the bytes are not exactly one well-formed frame
pub fn parse_resp(b: &[u8]) -> Result<Resp, String> {
    if b.len() < 24 {
        return Err(format!("response shorter than a header: {} bytes", b.len()));
    }
    if b[0] != 0x81 {
        return Err(format!("magic {:#x} != 0x81", b[0]));
    }
    let key_len = u16::from_be_bytes([b[2], b[3]]);
    let extras_len = b[4];
    let body_len = u32::from_be_bytes([b[8], b[9], b[10], b[11]]);
    if b.len() != 24 + body_len as usize {
        return Err(format!("body_length {} but {} bytes follow the header", body_len, b.len() - 24));
    }
    if (key_len as usize) + (extras_len as usize) > body_len as usize {
        return Err(format!("key_length {} + extras_length {} > body_length {}", key_len, extras_len, body_len));
    }
    let body = &b[24..];
    let el = extras_len as usize;
    let kl = key_len as usize;
    Ok(Resp {
        opcode: b[1],
        key_len,
        extras_len,
        datatype: b[5],
        status: u16::from_be_bytes([b[6], b[7]]),
        body_len,
        opaque: u32::from_be_bytes([b[12], b[13], b[14], b[15]]),
        cas: u64::from_be_bytes(b[16..24].try_into().unwrap()),
        extras: body[..el].to_vec(),
        key: body[el..el + kl].to_vec(),
        value: body[el + kl..].to_vec(),
    })
}

/// split a response stream into frames using only header lengths
pub fn split_resps(mut b: &[u8]) -> Result<Vec<Vec<u8>>, String> {
    let mut out = vec![];
    while !b.is_empty() {
        if b.len() < 24 {
            return Err(format!("trailing {} bytes are not a header", b.len()));
        }
        let body_len = u32::from_be_bytes([b[8], b[9], b[10], b[11]]) as usize;
        if b.len() < 24 + body_len {
            return Err(format!("frame announces {} body bytes, {} present", body_len, b.len() - 24));
        }
        out.push(b[..24 + body_len].to_vec());
        b = &b[24 + body_len..];
    }
    Ok(out)
}
