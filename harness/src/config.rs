//! Suite `config`: the real `memcrsd` binary as a child process under a matrix of configurations, each driven
//! with the same single-connection programs (compared with the model and with each other), plus probes of
//! the enforced item size limit, the enforced connection limit and real-time expiry.
use crate::gen::{self, GenOp, GenState};
use crate::rng::Rng;
use crate::wire::{self, hex, op};
use std::io::{Read, Write};
use std::net::{Shutdown, TcpStream};
use std::process::{Child, Command, Stdio};
use std::time::{Duration, Instant};

#[derive(Clone, Debug)]
pub struct Cfg {
    pub runtime: &'static str,
    pub threads: u32,
    pub eviction: &'static str,
    pub item_limit: u32,
    pub conn_limit: u32,
    pub port: u16,
    pub memory: &'static str,
}

impl Cfg {
    pub fn args(&self) -> Vec<String> {
        vec![
            "--port".into(), self.port.to_string(),
            "--runtime-type".into(), self.runtime.into(),
            "--threads".into(), self.threads.to_string(),
            "--eviction-policy".into(), self.eviction.into(),
            "--item-size-limit".into(), self.item_limit.to_string(),
            "--connection-limit".into(), self.conn_limit.to_string(),
            "--memory-limit".into(), self.memory.into(),
        ]
    }
    pub fn label(&self) -> String {
        format!("runtime={} threads={} eviction={} item={} conns={} memory={} port={}", self.runtime, self.threads, self.eviction, self.item_limit, self.conn_limit, self.memory, self.port)
    }
}

pub struct Proc {
    pub child: Child,
    pub port: u16,
}

impl Drop for Proc {
    fn drop(&mut self) {
        let _ = self.child.kill();
        let _ = self.child.wait();
    }
}

pub fn spawn(bin: &str, cfg: &Cfg) -> Option<Proc> {
    let child = Command::new(bin).args(cfg.args()).stdout(Stdio::null()).stderr(Stdio::null()).spawn().ok()?;
    let mut p = Proc { child, port: cfg.port };
    let t0 = Instant::now();
    while t0.elapsed() < Duration::from_secs(5) {
        if let Ok(s) = TcpStream::connect(("127.0.0.1", cfg.port)) {
            let _ = socket2::SockRef::from(&s).set_linger(Some(Duration::from_secs(0)));
            drop(s);
            std::thread::sleep(Duration::from_millis(30));
            return Some(p);
        }
        if let Ok(Some(_)) = p.child.try_wait() {
            return None;
        }
        std::thread::sleep(Duration::from_millis(10));
    }
    None
}

/// the harness's own reading of a size with a unit (bytes; SI = powers of 1000, binary = powers of 1024; case-insensitive)
pub fn size_bytes(s: &str) -> Option<u64> {
    let t = s.to_ascii_lowercase();
    let digits: String = t.chars().take_while(|c| c.is_ascii_digit()).collect();
    let n: u64 = digits.parse().ok()?;
    let m = match &t[digits.len()..] {
        "kb" => 1000,
        "kib" => 1024,
        "mb" => 1000 * 1000,
        "mib" => 1024 * 1024,
        "gb" => 1000 * 1000 * 1000,
        "gib" => 1024 * 1024 * 1024,
        _ => return None, // a bare number is not probed: the option's help text says megabytes, the parser reads bytes
    };
    Some(n * m)
}

/// C14 / C15 through the command line: a fresh process with `--eviction-policy random --memory-limit <spelling>`. Records of
/// 1000 value bytes (1024 accounted) under fresh keys: while they total half the limit every one must still be there; after
/// twice the limit has been stored the survivors must fit the limit plus one record.
fn memory_probe(bin: &str, cfg: &Cfg, viols: &mut Vec<(Vec<&'static str>, String)>) {
    let Some(limit) = size_bytes(cfg.memory) else { return };
    if cfg.eviction != "random" || limit > (2 << 20) {
        return;
    }
    // the configuration's own spelling, and the same kind of limit written in lower and in upper case
    for spelling in [cfg.memory, "64kb", "1mb", "100KiB", "64KB"] {
        let mut c2 = cfg.clone();
        c2.memory = spelling;
        memory_probe_one(bin, &c2, viols);
    }
}

fn memory_probe_one(bin: &str, cfg: &Cfg, viols: &mut Vec<(Vec<&'static str>, String)>) {
    let Some(limit) = size_bytes(cfg.memory) else { return };
    let mut c2 = cfg.clone();
    c2.port = crate::net::free_port();
    let Some(_p) = spawn(bin, &c2) else { return };
    let Ok(mut s) = TcpStream::connect(("127.0.0.1", c2.port)) else { return };
    s.set_nodelay(true).ok();
    let rec = 1024u64;
    let store = |s: &mut TcpStream, from: u64, to: u64| {
        let mut b = vec![];
        for i in from..to {
            b.extend(wire::set_like(op::SETQ, format!("m{}", i).as_bytes(), &vec![b'm'; 1000], 0, 0, 0, i as u32).bytes());
        }
        b.extend(wire::bare(op::NOOP, 0xfffe).bytes());
        let _ = s.write_all(&b);
        read_until_noop(s, 0xfffe)
    };
    let count = |s: &mut TcpStream, n: u64| -> u64 {
        let mut b = vec![];
        for i in 0..n {
            b.extend(wire::key_only(op::GETQ, format!("m{}", i).as_bytes(), 0, i as u32).bytes());
        }
        b.extend(wire::bare(op::NOOP, 0xfffd).bytes());
        let _ = s.write_all(&b);
        let out = read_until_noop(s, 0xfffd);
        wire::split_resps(&out).map_or(0, |fr| fr.iter().filter(|f| wire::parse_resp(f).map_or(false, |r| r.opcode == op::GETQ && r.status == 0)).count() as u64)
    };
    let n1 = limit / 2 / rec;
    let errs = store(&mut s, 0, n1);
    let e1 = wire::split_resps(&errs).map_or(0, |fr| fr.len().saturating_sub(1));
    let hits1 = count(&mut s, n1);
    if hits1 != n1 || e1 != 0 {
        viols.push((vec!["C15", "C20"], format!("--memory-limit {} ({} bytes), eviction policy random: of {} records of {} bytes under fresh keys ({} bytes in all, half the limit) only {} are still there ({} stores answered with an error)", cfg.memory, limit, n1, rec, n1 * rec, hits1, e1)));
        return;
    }
    let n2 = 2 * limit / rec + 2;
    store(&mut s, n1, n2);
    let hits2 = count(&mut s, n2);
    if hits2 * rec > limit + rec {
        viols.push((vec!["C14", "C20"], format!("--memory-limit {} ({} bytes), eviction policy random: after {} records of {} bytes under fresh keys, {} are still there: {} bytes stored, above the limit plus one record", cfg.memory, limit, n2, rec, hits2, hits2 * rec)));
    }
}

fn read_until_noop(s: &mut TcpStream, opaque: u32) -> Vec<u8> {
    let mut out = vec![];
    let mut buf = [0u8; 65536];
    let t0 = Instant::now();
    s.set_read_timeout(Some(Duration::from_millis(50))).ok();
    while t0.elapsed() < Duration::from_secs(20) {
        match s.read(&mut buf) {
            Ok(0) => break,
            Ok(n) => {
                out.extend_from_slice(&buf[..n]);
                // the noop's answer is the last 24 bytes once it has arrived
                if out.len() >= 24 {
                    let t = &out[out.len() - 24..];
                    if t[0] == 0x81 && t[1] == op::NOOP && t[12..16] == opaque.to_be_bytes() {
                        break;
                    }
                }
            }
            Err(e) if e.kind() == std::io::ErrorKind::WouldBlock || e.kind() == std::io::ErrorKind::TimedOut => {}
            Err(_) => break,
        }
    }
    out
}

fn read_until_close(s: &mut TcpStream, max: Duration) -> Vec<u8> {
    let mut out = vec![];
    let mut buf = [0u8; 65536];
    let t0 = Instant::now();
    s.set_read_timeout(Some(Duration::from_millis(50))).ok();
    while t0.elapsed() < max {
        match s.read(&mut buf) {
            Ok(0) => break,
            Ok(n) => out.extend_from_slice(&buf[..n]),
            Err(e) if e.kind() == std::io::ErrorKind::WouldBlock || e.kind() == std::io::ErrorKind::TimedOut => {}
            Err(_) => break,
        }
    }
    out
}

fn roundtrip(s: &mut TcpStream, frame: &[u8], ms: u64) -> Vec<u8> {
    let _ = s.write_all(frame);
    let mut out = vec![];
    let mut buf = [0u8; 65536];
    let t0 = Instant::now();
    s.set_read_timeout(Some(Duration::from_millis(10))).ok();
    while t0.elapsed() < Duration::from_millis(ms) {
        match s.read(&mut buf) {
            Ok(0) => break,
            Ok(n) => {
                out.extend_from_slice(&buf[..n]);
                if let Ok(fr) = wire::split_resps(&out) {
                    if !fr.is_empty() {
                        break;
                    }
                }
            }
            Err(_) => {}
        }
    }
    out
}

/// a single-connection program without clock dependence: one pipelined stream, answered until the server closes
pub fn gen_program(rng: &mut Rng, limit: u32) -> Vec<u8> {
    let mut p = gen::profile("C11");
    p.ttl_pct = 0;
    p.w[11] = 0; // no clock advances: the process has a real clock
    let mut g = GenState::new(rng, &p, 600.min(limit));
    let n = rng.range(8, 30);
    let mut stream = vec![];
    for _ in 0..n {
        if let GenOp::Req(b) = g.next_op(rng, &p) {
            stream.extend(b);
        }
    }
    stream
}

pub struct ConfigOut {
    pub ops: Vec<String>,
    pub outs: Vec<String>,
    pub viols: Vec<(usize, usize, Vec<&'static str>, String)>,
    pub configs: Vec<String>,
}

pub fn matrix(seed: u64, thorough: bool) -> Vec<Cfg> {
    let mut v = vec![];
    let mut port = crate::net::free_port();
    let mut rng = Rng::new(seed ^ 0xc0f);
    for runtime in ["current-thread", "multi-thread"] {
        for threads in [1u32, 2, 8] {
            for eviction in ["none", "random"] {
                let item_limit = *rng.pick(&[1024u32, 2048, 65536, 1048576]);
                let conn_limit = *rng.pick(&[1u32, 2, 3, 1024]);
                if !thorough && threads == 8 && eviction == "random" && runtime == "multi-thread" {
                    // quick tier keeps 11 of the 12 base combinations
                    continue;
                }
                v.push(Cfg { runtime, threads, eviction, item_limit, conn_limit, port, memory: "64MiB" });
                port = crate::net::free_port();
            }
        }
    }
    // values that do not fit 16 / 32 bits: a connection limit above 65535, memory limits of 4 GiB and more (not reached)
    let rt = *rng.pick(&["current-thread", "multi-thread"]);
    v.push(Cfg { runtime: rt, threads: 2, eviction: "random", item_limit: 65536, conn_limit: *rng.pick(&[65536u32, 65537, 65539, 131072]), port, memory: *rng.pick(&["4GiB", "8GiB", "4294968296", "16GiB"]) });
    // a memory limit that is reached, spelled with a unit in different ways (upper / lower case, SI and binary): the limit
    // enforced must be the one configured (C14 from above, C15 from below; see `memory_probe`)
    let rt = *rng.pick(&["current-thread", "multi-thread"]);
    v.push(Cfg { runtime: rt, threads: 2, eviction: "random", item_limit: 65536, conn_limit: 1024, port: crate::net::free_port(), memory: *rng.pick(&["64KB", "64kb", "100KiB", "1mb", "250kB", "1MiB", "300kib"]) });
    // an item size limit above the default of 1 MiB (the documented range is 1k..1024m) that is not a whole number of KiB
    let rt = *rng.pick(&["current-thread", "multi-thread"]);
    v.push(Cfg { runtime: rt, threads: 2, eviction: *rng.pick(&["none", "random"]), item_limit: *rng.pick(&[5000000u32, 1048577, 3000001, 2500000, 2097153]), conn_limit: 1024, port: crate::net::free_port(), memory: "64MiB" });
    v
}

pub fn run(bin: &str, seed: u64, thorough: bool) -> ConfigOut {
    let cfgs = matrix(seed, thorough);
    let mut rng = Rng::new(seed ^ 0x9);
    // the same programs for every configuration (per item limit the oversize behaviour differs, so programs stay small)
    let programs: Vec<Vec<u8>> = (0..(if thorough { 12 } else { 4 })).map(|_| gen_program(&mut rng, 1024)).collect();
    let results: Vec<(Vec<String>, Vec<String>, Vec<(Vec<&'static str>, String)>)> = std::thread::scope(|sc| {
        let hs: Vec<_> = cfgs
            .iter()
            .map(|cfg| {
                let programs = &programs;
                sc.spawn(move || run_one(bin, cfg, programs))
            })
            .collect();
        hs.into_iter().map(|h| h.join().unwrap()).collect()
    });
    let mut out = ConfigOut { ops: vec![], outs: vec![], viols: vec![], configs: cfgs.iter().map(|c| c.label()).collect() };
    // relational: every configuration must answer every program with the same bytes
    let mut reference: Option<Vec<String>> = None;
    for (cfg, (ops, outs, viols)) in cfgs.iter().zip(results.into_iter()) {
        let start = out.ops.len();
        let prog_outs: Vec<String> = ops.iter().zip(outs.iter()).filter(|(o, _)| o.as_str() == "eof").map(|(_, x)| x.clone()).collect();
        out.ops.extend(ops);
        out.outs.extend(outs);
        let end = out.ops.len();
        for (props, msg) in viols {
            out.viols.push((start, end, props, format!("[{}] {}", cfg.label(), msg)));
        }
        match &reference {
            None => reference = Some(prog_outs),
            Some(r) => {
                if *r != prog_outs {
                    let i = r.iter().zip(prog_outs.iter()).position(|(a, b)| a != b).unwrap_or(0);
                    out.viols.push((start, end, vec!["C20"], format!("[{}] program {} is answered differently than under [{}]", cfg.label(), i, cfgs[0].label())));
                }
            }
        }
    }
    out
}

fn run_one(bin: &str, cfg: &Cfg, programs: &[Vec<u8>]) -> (Vec<String>, Vec<String>, Vec<(Vec<&'static str>, String)>) {
    let mut ops = vec![];
    let mut outs = vec![];
    let mut viols: Vec<(Vec<&'static str>, String)> = vec![];
    // one fresh process per program so that every program starts from an empty store with CAS counter 1
    let mut ttl_probe_done = false;
    for (pi, prog) in programs.iter().enumerate() {
        ops.push(format!("ext {} {}", cfg.item_limit, cfg.args().join(" ")));
        // (a port that something else took between the probe and the child's bind is not the server's fault: other ports)
        let mut cfg_owned = Cfg { runtime: cfg.runtime, threads: cfg.threads, eviction: cfg.eviction, item_limit: cfg.item_limit, conn_limit: cfg.conn_limit, port: cfg.port, memory: cfg.memory };
        let mut spawned = spawn(bin, &cfg_owned);
        for _ in 0..3 {
            if spawned.is_some() {
                break;
            }
            cfg_owned.port = crate::net::free_port();
            spawned = spawn(bin, &cfg_owned);
        }
        let cfg = &cfg_owned;
        let proc_ = match spawned {
            Some(p) => p,
            None => {
                outs.push("spawn-failed".into());
                viols.push((vec!["C20"], "memcrsd did not start listening under this configuration".into()));
                return (ops, outs, viols);
            }
        };
        outs.push("ok".into());
        // the program, in two segments
        let cut = prog.len() / 2;
        let mut s = match TcpStream::connect(("127.0.0.1", cfg.port)) {
            Ok(s) => s,
            Err(_) => {
                viols.push((vec!["C20"], "cannot connect".into()));
                return (ops, outs, viols);
            }
        };
        s.set_nodelay(true).ok();
        ops.push("conn".into());
        outs.push("ok".into());
        let _ = s.write_all(&prog[..cut]);
        ops.push(format!("chunk {}", hex(&prog[..cut])));
        outs.push("sent".into());
        std::thread::sleep(Duration::from_millis(20));
        let _ = s.write_all(&prog[cut..]);
        ops.push(format!("chunk {}", hex(&prog[cut..])));
        outs.push("sent".into());
        let _ = s.shutdown(Shutdown::Write);
        let bytes = read_until_close(&mut s, Duration::from_secs(5));
        ops.push("eof".into());
        outs.push(format!("out {} closed", wire::hexd(&bytes)));
        drop(s);

        if pi == 0 {
            // --- the configured item size limit is the one enforced
            let mut c = TcpStream::connect(("127.0.0.1", cfg.port)).unwrap();
            c.set_nodelay(true).ok();
            let at = wire::set_like(op::SET, b"lim", &vec![b'x'; cfg.item_limit as usize - 8 - 3], 0, 0, 0, 1).bytes();
            let r = roundtrip(&mut c, &at, 3000);
            let st = wire::parse_resp(&r).map(|r| r.status).unwrap_or(0xffff);
            if st != 0 {
                viols.push((vec!["C20", "C13"], format!("a request whose body is exactly the configured item size limit {} was answered with status {:#x}", cfg.item_limit, st)));
            }
            let over = wire::set_like(op::SET, b"lim", &vec![b'x'; cfg.item_limit as usize - 8 - 3 + 1], 0, 0, 0, 2).bytes();
            let r = roundtrip(&mut c, &over, 3000);
            let st = wire::parse_resp(&r).map(|r| r.status).unwrap_or(0xffff);
            if st != 3 {
                viols.push((vec!["C20", "C13"], format!("a request whose body is one byte above the configured item size limit {} was answered with status {:#x}, not 'too large'", cfg.item_limit, st)));
            }
            drop(c);
            // --- the configured connection limit is the total limit enforced
            if cfg.conn_limit <= 3 || cfg.conn_limit > 60000 {
                std::thread::sleep(Duration::from_millis(50));
                let nconn = if cfg.conn_limit <= 3 { cfg.conn_limit + 2 } else { 4 };
                let want = cfg.conn_limit.min(nconn);
                let mut conns: Vec<TcpStream> = (0..nconn).map(|_| TcpStream::connect(("127.0.0.1", cfg.port)).unwrap()).collect();
                // one noop per connection, then wait for answers: a served connection keeps its slot, so the number of
                // answered connections only grows; it must reach the limit (the slot of the probe connection above may
                // take a moment to come back on a loaded machine) and never pass it
                let mut answered = vec![false; conns.len()];
                for (i, c) in conns.iter_mut().enumerate() {
                    c.set_nodelay(true).ok();
                    c.set_read_timeout(Some(Duration::from_millis(20))).ok();
                    let _ = c.write_all(&wire::bare(op::NOOP, i as u32).bytes());
                }
                let t0 = Instant::now();
                let mut full_since: Option<Instant> = None;
                let mut buf = [0u8; 256];
                while t0.elapsed() < Duration::from_millis(5000) {
                    for (i, c) in conns.iter_mut().enumerate() {
                        if !answered[i] {
                            if let Ok(n) = c.read(&mut buf) {
                                if n > 0 {
                                    answered[i] = true;
                                }
                            }
                        }
                    }
                    let served = answered.iter().filter(|a| **a).count() as u32;
                    if served >= want {
                        let since = *full_since.get_or_insert_with(Instant::now);
                        if served > want || since.elapsed() > Duration::from_millis(400) {
                            break;
                        }
                    }
                }
                let served = answered.iter().filter(|a| **a).count() as u32;
                if served != want {
                    viols.push((vec!["C20", "C17"], format!("{} of {} simultaneous connections are served under --connection-limit {}", served, nconn, cfg.conn_limit)));
                }
            }
            // --- the configured memory limit is the one enforced
            memory_probe(bin, cfg, &mut viols);
            // --- expiry follows real elapsed seconds
            if !ttl_probe_done {
                ttl_probe_done = true;
                // with a connection limit of 1..3 the slots may still be held by the probe above: use a fresh process
                drop(proc_);
                let proc2 = spawn(bin, cfg);
                if let Some(_p2) = proc2 {
                    let mut c = TcpStream::connect(("127.0.0.1", cfg.port)).unwrap();
                    c.set_nodelay(true).ok();
                    let t0 = Instant::now();
                    let r = roundtrip(&mut c, &wire::set_like(op::SET, b"ttl", b"v", 0, 6, 0, 1).bytes(), 1000);
                    if wire::parse_resp(&r).map(|r| r.status).unwrap_or(9) != 0 {
                        viols.push((vec!["C20"], "ttl probe: set failed".into()));
                    }
                    std::thread::sleep(Duration::from_millis(3300));
                    let r = roundtrip(&mut c, &wire::key_only(op::GET, b"ttl", 0, 2).bytes(), 1000);
                    let st1 = wire::parse_resp(&r).map(|r| r.status).unwrap_or(9);
                    if st1 != 0 {
                        viols.push((vec!["C20", "C05"], format!("an item stored with TTL 6 s is gone after {:.1} s of real time (status {:#x}): the clock runs fast", t0.elapsed().as_secs_f32(), st1)));
                    }
                    // real elapsed seconds, also across a pause of the whole process (a stopped VM, a debugger, SIGSTOP): the
                    // server is frozen for 5 s — its clock stood at 3 — and must have caught up with real time (8.4 s) when it
                    // is looked at 1.25 s after it resumed. (A clock that loses the seconds it was not scheduled reaches 6 only
                    // at 10 s of real time. The 1.25 s are the allowance for a loaded machine to run the server's timer task.)
                    let pid = _p2.child.id() as i32;
                    unsafe { libc::kill(pid, libc::SIGSTOP) };
                    std::thread::sleep(Duration::from_millis(5000));
                    unsafe { libc::kill(pid, libc::SIGCONT) };
                    std::thread::sleep(Duration::from_millis(1250));
                    let r = roundtrip(&mut c, &wire::key_only(op::GET, b"ttl", 0, 3).bytes(), 1000);
                    let st2 = wire::parse_resp(&r).map(|r| r.status).unwrap_or(9);
                    if st2 != 1 {
                        viols.push((vec!["C20", "C05", "C08"], format!("an item stored with TTL 6 s is still returned after {:.1} s of real time, 5 s of which the server process was stopped (status {:#x}): the clock runs slow, not at all, or loses the seconds it was not scheduled", t0.elapsed().as_secs_f32(), st2)));
                    }
                }
                continue;
            }
        }
        drop(proc_);
    }
    (ops, outs, viols)
}
