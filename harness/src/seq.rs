//! Suite `seq`: request bytes -> decode -> handle_request -> encode on the real code, injected clock.
use crate::gen::{self, GenOp, GenState};
use crate::oracle::{self, Oracle, Seen};
use crate::rng::Rng;
use crate::sut::Sut;
use crate::wire::{self, hex};
use std::collections::{BTreeMap, HashSet};
use std::fmt::Write as _;

pub struct Runner {
    pub sut: Sut,
    pub oracle: Oracle,
    pub now: u64,
    pub limit: u32,
    pub ops: Vec<String>,
    pub outs: Vec<String>,
    pub prog_start: Vec<usize>,
    pub violations: Vec<(usize, Vec<&'static str>, usize, String)>, // (program, props, line, msg)
    pub op_hist: BTreeMap<String, u64>,
    pub status_hist: BTreeMap<String, u64>,
    pub signatures: HashSet<u64>,
    pub nontrivial: u64,
    pub cur_sig: Vec<(u8, u16)>,
    pub cur_mut_ok: bool,
    pub cur_hit: bool,
    pub requests: u64,
    pub wellformed_checked: u64,
    pub oracle_checks: u64,
    pub policy_limit: Option<u64>,
    pub extra: String,
    pub cap_reported: bool,
    pub last_written_len: u64,
    pub prev_drift: i128,
    pub prev_keys: std::collections::HashMap<Vec<u8>, u64>,
    /// policy mode: the records stored before the request being judged (from the dump behind the previous request)
    pub prev_recs: Vec<(Vec<u8>, crate::sut::DumpRec)>,
    pub last_req: Option<(wire::ReqHdr, wire::Cmd, u16, bool)>,
    pub replaying: bool,
    pub drift_hist: BTreeMap<String, u64>,
    pub evictions: u64,
    pub trace: Option<std::fs::File>,
    pub panics_seen: u64,
}

fn fnv(sig: &[(u8, u16)]) -> u64 {
    let mut h: u64 = 0xcbf29ce484222325;
    for (a, b) in sig {
        for x in [*a as u64, *b as u64] {
            h ^= x;
            h = h.wrapping_mul(0x100000001b3);
        }
    }
    h
}

impl Runner {
    pub fn new() -> Runner {
        Runner {
            sut: Sut::new(1 << 20, None),
            oracle: Oracle::new(),
            now: 0,
            limit: 1 << 20,
            ops: vec![],
            outs: vec![],
            prog_start: vec![],
            violations: vec![],
            op_hist: BTreeMap::new(),
            status_hist: BTreeMap::new(),
            signatures: HashSet::new(),
            nontrivial: 0,
            cur_sig: vec![],
            cur_mut_ok: false,
            cur_hit: false,
            requests: 0,
            wellformed_checked: 0,
            oracle_checks: 0,
            policy_limit: None,
            extra: String::new(),
            cap_reported: false,
            last_written_len: 0,
            prev_drift: 0,
            prev_keys: Default::default(),
            prev_recs: vec![],
            last_req: None,
            replaying: false,
            drift_hist: BTreeMap::new(),
            evictions: 0,
            trace: None,
            panics_seen: 0,
        }
    }

    fn end_program(&mut self) {
        if self.prog_start.is_empty() {
            return;
        }
        let prog = self.prog_start.len() - 1;
        self.oracle_checks += self.oracle.checks;
        for v in self.oracle.violations.drain(..) {
            self.violations.push((prog, v.props, v.line, v.msg));
        }
        if self.cur_mut_ok && self.cur_hit && self.signatures.insert(fnv(&self.cur_sig)) {
            self.nontrivial += 1;
        }
        self.cur_sig.clear();
        self.cur_mut_ok = false;
        self.cur_hit = false;
    }

    /// execute one op line on the real code; returns the implementation's output line
    pub fn exec(&mut self, line: &str) -> String {
        // every line is on disk before it runs: if the implementation hangs, the last line is the culprit
        if let Some(f) = &mut self.trace {
            use std::io::Write;
            let _ = writeln!(f, "{}", line);
            let _ = f.flush();
        }
        let lineno = self.ops.len();
        let parts: Vec<&str> = line.split(' ').collect();
        let out = match parts.as_slice() {
            ["new", l] => {
                self.end_program();
                self.policy_limit = None;
                self.limit = l.parse().unwrap();
                self.sut = Sut::new(self.limit, self.policy_limit);
                self.oracle = Oracle::new();
                self.now = 0;
                self.prog_start.push(lineno);
                self.cap_reported = false;
                "ok".to_string()
            }
            ["newp", l, m] => {
                self.end_program();
                self.limit = l.parse().unwrap();
                let mem: u64 = m.parse().unwrap();
                self.policy_limit = Some(mem);
                self.sut = Sut::new(self.limit, self.policy_limit);
                self.oracle = Oracle::new();
                self.now = 0;
                self.prog_start.push(lineno);
                self.cap_reported = false;
                self.last_written_len = 0;
                self.prev_drift = 0;
                self.prev_keys.clear();
                self.prev_recs.clear();
                self.last_req = None;
                "ok".to_string()
            }
            [e, ..] if *e == "evict" => {
                // victim lines are regenerated from what the implementation does now
                return "ok".to_string();
            }
            ["now", t] => {
                self.now = t.parse().unwrap();
                self.sut.set_now(self.now);
                "ok".to_string()
            }
            ["req", hx] => {
                let b = wire::unhex(hx).unwrap();
                if self.policy_limit.is_some() {
                    self.sut.take_log();
                    let out = self.sut.req(&b);
                    let log = self.sut.take_log();
                    let victims: Vec<String> = log.iter().filter_map(|e| if let crate::sut::RecEv::Evicted(k, _) = e { Some(wire::hexd(k)) } else { None }).collect();
                    self.evictions += victims.len() as u64;
                    // the victims the implementation chose are an input of the model
                    self.ops.push(if victims.is_empty() { "evict".to_string() } else { format!("evict {}", victims.join(" ")) });
                    self.outs.push("ok".to_string());
                    self.judge_policy_req(&b, &out, &log);
                    out
                } else {
                    let out = self.sut.req(&b);
                    self.judge(lineno, &b, &out);
                    out
                }
            }
            ["dump"] => {
                let recs = self.sut.records();
                if let Some(l) = self.policy_limit {
                    self.judge_policy_dump(self.ops.len(), l, &recs);
                    format!("{} | usage={} stored={} tape=ok", self.sut.dump(), self.sut.usage(), self.sut.stored_bytes())
                } else {
                    self.oracle.final_dump(lineno, self.now, &recs);
                    self.sut.dump()
                }
            }
            ["dec", hx] => {
                let b = wire::unhex(hx).unwrap();
                let o = self.sut.dec(&b);
                // C10 memory clause: the connection buffer never exceeds max(initial capacity, item limit) + 64
                let bound = 4096usize.max(self.limit as usize) + 64;
                if self.sut.max_cap > bound && !self.cap_reported {
                    self.cap_reported = true;
                    self.oracle.violations.push(oracle::Violation {
                        props: vec!["C10"],
                        line: lineno,
                        msg: format!("connection buffer capacity reached {} bytes under an item limit of {} (bound {}), {} bytes buffered", self.sut.max_cap, self.limit, bound, self.sut.cbuf.len()),
                    });
                }
                if o.contains("P:decode_loop") {
                    self.oracle.violations.push(oracle::Violation {
                        props: vec!["C10", "C12", "C09"],
                        line: lineno,
                        msg: "decoding does not terminate on this input: the decoder hands out request after request without consuming a byte of the buffer (the connection task would never return to the socket)".to_string(),
                    });
                }
                o
            }
            ["codec"] => {
                self.sut.reset_codec();
                "ok".to_string()
            }
            ["conn"] => {
                self.sut.open_conn();
                "ok".to_string()
            }
            [n, ..] if *n == "note" => {
                if self.prog_start.is_empty() {
                    self.prog_start.push(lineno);
                }
                "ok".to_string()
            }
            ["chunk", hx] => {
                let b = wire::unhex(hx).unwrap();
                self.sut.chunk(&b)
            }
            [t, rx, now, rest @ ..] if *t == "tcase" => crate::stream::tcase_run(self.limit, rx.parse().unwrap(), now.parse().unwrap(), rest),
            ["obs", hx] => match wire::unhex(hx) {
                Some(b) => self.sut.obs(&b),
                None => "bad-op".to_string(),
            },
            ["blast", kind, hx] => match wire::unhex(hx) {
                Some(b) => self.sut.blast(kind, &b),
                None => "bad-op".to_string(),
            },
            ["eof"] => self.sut.eof(),
            ["fin"] => self.sut.fin(),
            _ => "bad-op".to_string(),
        };
        // a panic anywhere in the process (server tasks included) since the last line
        let pc = crate::sut::PANICS.load(std::sync::atomic::Ordering::SeqCst);
        if pc > self.panics_seen {
            self.panics_seen = pc;
            if !out.starts_with("panic") && !out.contains(" P:") {
                let msg = crate::sut::LAST_PANIC.lock().unwrap().clone();
                self.oracle.violations.push(oracle::Violation { props: vec!["C10"], line: lineno, msg: format!("panic while processing '{}': {}", &line[..line.len().min(60)], msg) });
            }
        }
        self.ops.push(line.to_string());
        self.outs.push(out.clone());
        out
    }

    fn judge(&mut self, lineno: usize, frame: &[u8], out: &str) {
        self.requests += 1;
        let (h, cmd) = match wire::parse_cmd(frame) {
            Some(x) => x,
            None => return,
        };
        *self.op_hist.entry(format!("{:#04x}", h.opcode)).or_insert(0) += 1;
        let key: Vec<u8> = {
            let el = h.extras_len as usize;
            let kl = h.key_len as usize;
            if frame.len() >= 24 + el + kl {
                frame[24 + el..24 + el + kl].to_vec()
            } else {
                vec![]
            }
        };
        // C13: a body above the item limit is refused with 'too large' whatever the opcode (loud or quiet), and — the
        // request not being executed — is no event for the per-key reference semantics
        if h.body_len > self.limit {
            let st = out.strip_prefix("resp ").and_then(|r| wire::unhex(r.split(' ').next().unwrap())).and_then(|b| wire::parse_resp(&b).ok()).map(|r| r.status);
            *self.status_hist.entry(format!("oversize:{:?}", st)).or_insert(0) += 1;
            self.cur_sig.push((h.opcode, st.unwrap_or(0xffff)));
            if st != Some(0x0003) {
                self.oracle.violations.push(oracle::Violation { props: vec!["C13"], line: lineno, msg: format!("a request (opcode {:#x}) whose body of {} bytes exceeds the item limit {} was answered {:?}, not 'too large'", h.opcode, h.body_len, self.limit, out.chars().take(80).collect::<String>()) });
            } else if let Some(b) = out.strip_prefix("resp ").and_then(|r| wire::unhex(r.split(' ').next().unwrap())) {
                self.wellformed_checked += 1;
                if let Err(e) = oracle::wellformed(&h, &key, &b) {
                    self.oracle.violations.push(oracle::Violation { props: vec!["C11"], line: lineno, msg: format!("response to opcode {:#x} malformed: {}", h.opcode, e) });
                }
            }
            return;
        }
        // C13, the other direction: a request whose body is within the limit is never rejected for size — whatever the size
        // of the item it produces (an append onto a large value, a value that crosses a constant other than the limit)
        if let Some(st) = out.strip_prefix("resp ").and_then(|r| wire::unhex(r.split(' ').next().unwrap())).and_then(|b| wire::parse_resp(&b).ok()).map(|r| r.status) {
            if st == 0x0003 {
                self.oracle.violations.push(oracle::Violation { props: vec!["C13"], line: lineno, msg: format!("a request (opcode {:#x}) whose body of {} bytes is within the item limit {} was answered 'too large'", h.opcode, h.body_len, self.limit) });
            }
        }
        if let Some(rest) = out.strip_prefix("resp ") {
            let tok = rest.split(' ').next().unwrap();
            if tok == "silent" {
                *self.status_hist.entry("silent".to_string()).or_insert(0) += 1;
                self.cur_sig.push((h.opcode, 0xffff));
                if matches!(cmd, wire::Cmd::Store { .. } | wire::Cmd::Concat { .. } | wire::Cmd::Delta { .. }) {
                    self.cur_mut_ok = true;
                }
                self.oracle.observe(lineno, self.now, &h, &cmd, Seen::Silent);
            } else {
                let bytes = wire::unhex(tok).unwrap();
                self.wellformed_checked += 1;
                if let Err(e) = oracle::wellformed(&h, &key, &bytes) {
                    self.oracle.violations.push(oracle::Violation { props: vec!["C11"], line: lineno, msg: format!("response to opcode {:#x} malformed: {}", h.opcode, e) });
                }
                match wire::parse_resp(&bytes) {
                    Ok(r) => {
                        *self.status_hist.entry(format!("{:#06x}", r.status)).or_insert(0) += 1;
                        self.cur_sig.push((h.opcode, r.status));
                        if r.status == 0 {
                            match cmd {
                                wire::Cmd::Store { .. } | wire::Cmd::Concat { .. } | wire::Cmd::Delta { .. } => self.cur_mut_ok = true,
                                wire::Cmd::Get { .. } => self.cur_hit = true,
                                _ => {}
                            }
                        }
                        self.oracle.observe(lineno, self.now, &h, &cmd, Seen::Resp(&r));
                    }
                    Err(_) => {
                        for v in self.oracle.keys.values_mut() {
                            *v = oracle::KState::Unknown;
                        }
                    }
                }
            }
        } else if out.starts_with("panic") {
            *self.status_hist.entry("panic".to_string()).or_insert(0) += 1;
            self.oracle.violations.push(oracle::Violation { props: vec!["C10"], line: lineno, msg: format!("request {} : {}", hex(frame), out) });
            for v in self.oracle.keys.values_mut() {
                *v = oracle::KState::Unknown;
            }
        } else {
            *self.status_hist.entry(out.to_string()).or_insert(0) += 1;
        }
    }

    fn judge_policy_req(&mut self, frame: &[u8], out: &str, log: &[crate::sut::RecEv]) {
        self.requests += 1;
        let (h, cmd) = match wire::parse_cmd(frame) {
            Some(x) => x,
            None => return,
        };
        *self.op_hist.entry(format!("{:#04x}", h.opcode)).or_insert(0) += 1;
        let mut status: u16 = 0xffff;
        if let Some(rest) = out.strip_prefix("resp ") {
            let tok = rest.split(' ').next().unwrap();
            if tok == "silent" {
                status = if matches!(cmd, wire::Cmd::Get { .. }) { 1 } else { 0 };
                *self.status_hist.entry("silent".to_string()).or_insert(0) += 1;
            } else if let Some(b) = wire::unhex(tok) {
                if let Ok(r) = wire::parse_resp(&b) {
                    status = r.status;
                    *self.status_hist.entry(format!("{:#06x}", r.status)).or_insert(0) += 1;
                    if r.status == 0 && matches!(cmd, wire::Cmd::Get { .. }) {
                        self.cur_hit = true;
                    }
                }
            }
        } else if out.starts_with("panic") {
            self.oracle.violations.push(oracle::Violation { props: vec!["C10"], line: self.ops.len(), msg: format!("request {} : {}", hex(frame), out) });
        }
        // C02 under eviction policy random: a mutation carrying a CAS that is not the current CAS of the live item it
        // addresses is refused with 'key exists' — unless the eviction scan of this very request chose that item
        if h.cas != 0 {
            let key: Option<&Vec<u8>> = match &cmd {
                wire::Cmd::Store { key, .. } | wire::Cmd::Concat { key, .. } | wire::Cmd::Delta { key, .. } | wire::Cmd::Delete { key, .. } => Some(key),
                _ => None,
            };
            if let Some(k) = key {
                let now = self.now;
                if let Some((_, rec)) = self.prev_recs.iter().find(|(pk, _)| pk == k) {
                    let live = rec.ttl == 0 || rec.ts + rec.ttl as u64 > now;
                    let victim = log.iter().any(|e| matches!(e, crate::sut::RecEv::Evicted(ek, _) if ek == k));
                    let numeric_needed = matches!(cmd, wire::Cmd::Delta { .. });
                    let non_numeric = numeric_needed && std::str::from_utf8(&rec.value).ok().and_then(|t| t.parse::<u64>().ok()).is_none();
                    if live && !victim && rec.cas != h.cas && status != 0x0002 && !(non_numeric && status == 0x0006) && status != 0xffff {
                        self.oracle.violations.push(oracle::Violation {
                            props: vec!["C02"],
                            line: self.ops.len(),
                            msg: format!(
                                "under eviction policy random a mutation (opcode {:#x}) carrying CAS {} on the live item {} whose current CAS is {} was answered with status {:#x}, not 'key exists' (inner calls: {:?})",
                                h.opcode, h.cas, wire::hexd(k), rec.cas, status, log
                            ),
                        });
                    }
                }
            }
        }
        // C07 under eviction policy random (any limit, also one below a single record): an incr/decr without CAS creates the
        // item on an absent key (unless the expiration field says 'do not create') and updates a live numeric one — a memory
        // limit may evict other items, or this one afterwards, but never turns the command into a failure
        if let wire::Cmd::Delta { key, exp, .. } = &cmd {
            if h.cas == 0 && status != 0xffff {
                let now = self.now;
                let rec = self.prev_recs.iter().find(|(pk, _)| pk == key).map(|(_, r)| r);
                // Some(true) live, Some(false) absent/expired, None = within a second of its deadline
                let live: Option<bool> = match rec {
                    None => Some(false),
                    Some(r) if r.ttl == 0 => Some(true),
                    Some(r) => {
                        let dl = r.ts + r.ttl as u64;
                        if dl > now + 1 { Some(true) } else if dl + 1 < now { Some(false) } else { None }
                    }
                };
                let text = rec.and_then(|r| std::str::from_utf8(&r.value).ok().map(|t| t.to_string()));
                let numeric = text.as_deref().map_or(false, |t| !t.is_empty() && t.bytes().all(|b| b.is_ascii_digit()) && t.parse::<u64>().is_ok());
                let expect: Option<u16> = match live {
                    Some(false) => Some(if *exp == 0xffff_ffff { 1 } else { 0 }),
                    Some(true) if numeric => Some(0),
                    _ => None,
                };
                if let Some(e) = expect {
                    if status != e {
                        self.oracle.violations.push(oracle::Violation {
                            props: vec!["C07"],
                            line: self.ops.len(),
                            msg: format!(
                                "under eviction policy random (memory limit {}) an incr/decr without CAS (expiration field {:#x}) on the {} key {} was answered with status {:#x}, not {:#x} (inner calls: {:?})",
                                self.policy_limit.unwrap_or(0), exp, if live == Some(true) { "live numeric" } else { "absent" }, wire::hexd(key), status, e, log
                            ),
                        });
                    }
                }
            }
        }
        let set_called = log.iter().any(|e| matches!(e, crate::sut::RecEv::Set(_)));
        if status == 0 && set_called {
            self.cur_mut_ok = true;
        }
        self.cur_sig.push((h.opcode, status));
        self.last_req = Some((h, cmd, status, set_called));
    }

    /// C14 / C15 after every command of a program under RandomPolicy
    fn judge_policy_dump(&mut self, lineno: usize, limit: u64, recs: &[(Vec<u8>, crate::sut::DumpRec)]) {
        let stored: u64 = recs.iter().map(|(_, r)| 24 + r.value.len() as u64).sum();
        let usage = self.sut.usage();
        let keys: std::collections::HashMap<Vec<u8>, u64> = recs.iter().map(|(k, r)| (k.clone(), 24 + r.value.len() as u64)).collect();
        let mut class = "none".to_string();
        if let Some((h, cmd, status, set_called)) = self.last_req.take() {
            let key: Option<Vec<u8>> = match &cmd {
                wire::Cmd::Get { key, .. } | wire::Cmd::Store { key, .. } | wire::Cmd::Concat { key, .. } | wire::Cmd::Delta { key, .. } | wire::Cmd::Delete { key, .. } => Some(key.clone()),
                _ => None,
            };
            let existed = key.as_ref().map_or(false, |k| self.prev_keys.contains_key(k));
            let name = match &cmd {
                wire::Cmd::Get { .. } => "get",
                wire::Cmd::Store { kind, .. } => match *kind { wire::op::SET => "set", wire::op::ADD => "add", _ => "replace" },
                wire::Cmd::Concat { append, .. } => if *append { "append" } else { "prepend" },
                wire::Cmd::Delta { incr, .. } => if *incr { "incr" } else { "decr" },
                wire::Cmd::Delete { .. } => "delete",
                wire::Cmd::Flush { .. } => "flush",
                _ => "other",
            };
            let now_present = key.as_ref().map_or(false, |k| keys.contains_key(k));
            class = if set_called && status == 0 {
                if existed { format!("{}-overwrite", name) } else { format!("{}-fresh", name) }
            } else if set_called {
                format!("{}-rejected", name)
            } else if existed && !now_present && name != "delete" {
                format!("{}-collects-expired", name)
            } else {
                name.to_string()
            };
            // C14: the record being written is never the victim
            if set_called && status == 0 {
                if let Some(k) = &key {
                    match keys.get(k) {
                        Some(l) => self.last_written_len = *l,
                        None => self.oracle.violations.push(oracle::Violation { props: vec!["C14"], line: lineno, msg: format!("opcode {:#x} on key {} was acknowledged but the record is not stored afterwards (evicted while being written?)", h.opcode, wire::kx(k)) }),
                    }
                }
            }
        }
        // C14: stored bytes within limit + the record just written
        if stored > limit + self.last_written_len {
            self.oracle.violations.push(oracle::Violation { props: vec!["C14"], line: lineno, msg: format!("{} bytes stored under a memory limit of {} (last record written: {} bytes) after {}", stored, limit, self.last_written_len, class) });
        }
        // C15: accounting tracks content
        let drift = usage as i128 - stored as i128;
        if drift != self.prev_drift && drift != 0 {
            *self.drift_hist.entry(class.clone()).or_insert(0) += 1;
            self.oracle.violations.push(oracle::Violation { props: vec!["C15"], line: lineno, msg: format!("accounting drift class={} : accounted usage {} vs {} bytes stored (difference {} -> {})", class, usage, stored, self.prev_drift, drift) });
        }
        self.prev_drift = drift;
        self.prev_keys = keys;
        self.prev_recs = recs.to_vec();
    }

    pub fn finish(&mut self) {
        self.end_program();
    }

    /// generate and run `count` programs adaptively (cas tokens come from the real responses)
    pub fn generate(&mut self, profile: &str, seed: u64, count: u64) {
        let p = gen::profile(profile);
        let mut master = Rng::new(seed);
        // programs under a limit above 64 KiB carry values (and dumps) of 100 KB and more: a bounded number per run
        let mut big_left = 60u32;
        if profile == "C06" {
            // directed, scale: values that grow by appends and prepends beyond 1 MiB and towards the configured limit of
            // several MiB, every request within the limit — each must be applied (C06: old+suffix / prefix+old; C13: never
            // rejected for size)
            self.exec("new 4194304");
            let piece = |c: u8, n: usize| vec![c; n];
            self.exec(&format!("req {}", hex(&wire::set_like(wire::op::SET, b"acc", &piece(b'a', 600 << 10), 7, 0, 0, 1).bytes())));
            self.exec(&format!("req {}", hex(&wire::append_like(wire::op::APPEND, b"acc", &piece(b'b', 600 << 10), 0, 2).bytes())));
            self.exec(&format!("req {}", hex(&wire::key_only(wire::op::GET, b"acc", 0, 3).bytes())));
            self.exec(&format!("req {}", hex(&wire::append_like(wire::op::PREPEND, b"acc", &piece(b'c', 300 << 10), 0, 4).bytes())));
            self.exec(&format!("req {}", hex(&wire::append_like(wire::op::APPENDQ, b"acc", b"z", 0, 5).bytes())));
            self.exec(&format!("req {}", hex(&wire::key_only(wire::op::GET, b"acc", 0, 6).bytes())));
            self.exec("dump");
        }
        if matches!(profile, "C01" | "C05" | "C08") {
            // directed, scale (1): more than a thousand stores over a few dozen keys on one server — whatever the store does
            // every so many operations must not touch what is live; all keys are read back every 150 stores
            let mut rng = master.fork();
            self.exec("new 1024");
            self.exec("now 100");
            let nkeys = 30 + rng.range(0, 20);
            let total = 1300 + rng.range(0, 900);
            for i in 0..total {
                let k = format!("lk{}", rng.below(nkeys)).into_bytes();
                let ttl = *rng.pick(&[0u32, 0, 500, 5000]);
                let opc = *rng.pick(&[wire::op::SET, wire::op::SET, wire::op::SETQ]);
                self.exec(&format!("req {}", hex(&wire::set_like(opc, &k, format!("v{}", i).as_bytes(), i as u32, ttl, 0, i as u32).bytes())));
                if i % 150 == 149 || i + 1 == total {
                    for j in 0..nkeys {
                        self.exec(&format!("req {}", hex(&wire::key_only(wire::op::GET, format!("lk{}", j).as_bytes(), 0, j as u32).bytes())));
                    }
                    self.exec(&format!("now {}", 100 + i / 150));
                }
            }
            self.exec("dump");
            // directed, scale (2): several hundred items, a delayed flush, the deadline passes: every one of them is gone
            // (and before the deadline every one is still there)
            let mut rng = master.fork();
            self.exec("new 1024");
            self.exec("now 50");
            let nkeys = 600 + rng.range(0, 500);
            for i in 0..nkeys {
                let ttl = *rng.pick(&[0u32, 0, 0, 1000, 100000]);
                self.exec(&format!("req {}", hex(&wire::set_like(wire::op::SETQ, format!("fk{}", i).as_bytes(), b"f", 0, ttl, 0, i as u32).bytes())));
            }
            let delay = 5 + rng.range(0, 20) as u32;
            self.exec(&format!("req {}", hex(&wire::flush(wire::op::FLUSH, Some(delay), 1).bytes())));
            self.exec(&format!("now {}", 50 + delay as u64 - 1));
            for i in (0..nkeys).step_by(7) {
                self.exec(&format!("req {}", hex(&wire::key_only(wire::op::GET, format!("fk{}", i).as_bytes(), 0, i as u32).bytes())));
            }
            self.exec(&format!("now {}", 50 + delay as u64 + rng.range(0, 2)));
            for i in 0..nkeys {
                self.exec(&format!("req {}", hex(&wire::key_only(wire::op::GET, format!("fk{}", i).as_bytes(), 0, i as u32).bytes())));
            }
            self.exec("dump");
        }
        for _ in 0..count {
            let mut rng = master.fork();
            // now and then a limit above 64 KiB: bodies whose length does not fit 16 bits
            let big = rng.chance(1, 25) && big_left > 0;
            if big {
                big_left -= 1;
            }
            let limit: u32 = if big { 80000 } else { *rng.pick(&[1024u32, 2048, 4096, 65536]) };
            self.exec(&format!("new {}", limit));
            let mut g = GenState::new(&mut rng, &p, limit);
            let n = rng.range(p.len.0, p.len.1);
            for _ in 0..n {
                match g.next_op(&mut rng, &p) {
                    GenOp::Now(t) => {
                        self.exec(&format!("now {}", t));
                    }
                    GenOp::Req(b) => {
                        let out = self.exec(&format!("req {}", hex(&b)));
                        self.exec("dump");
                        // learn cas tokens for the cas pool
                        if let Some(rest) = out.strip_prefix("resp ") {
                            let tok = rest.split(' ').next().unwrap();
                            if tok != "silent" {
                                if let (Some(bytes), Some(h)) = (wire::unhex(tok), wire::parse_req_hdr(&b)) {
                                    if let Ok(r) = wire::parse_resp(&bytes) {
                                        let el = h.extras_len as usize;
                                        let kl = h.key_len as usize;
                                        if r.status == 0 && b.len() >= 24 + el + kl && kl > 0 {
                                            g.note_cas(&b[24 + el..24 + el + kl], r.cas);
                                        }
                                    }
                                }
                            }
                        }
                    }
                }
            }
            if profile == "C19" {
                self.twin(&mut rng);
            }
            if profile == "C20" {
                self.policy_twin();
            }
        }
        self.finish();
    }

    /// programs under RandomPolicy: `pressure` = memory limits around the size of a few records (C14),
    /// otherwise limits far above the live set (C15)
    pub fn generate_policy(&mut self, profile: &str, seed: u64, count: u64) {
        let p = gen::profile(profile);
        let mut master = Rng::new(seed ^ 0x9011c4);
        // directed: fresh keys whose records fill the limit exactly (nothing may be evicted), one byte less, one byte more
        for (di, delta) in [0i64, -1, 1, 0].iter().enumerate() {
            let mut rng = master.fork();
            let lens: Vec<u64> = (0..rng.range(2, 5)).map(|_| rng.range(1, 90)).collect();
            let total: u64 = lens.iter().map(|l| 24 + l).sum();
            let mem = (total as i64 - delta) as u64;
            self.exec(&format!("newp 4096 {}", mem));
            for (i, l) in lens.iter().enumerate() {
                let key = format!("fill{}", i).into_bytes();
                let opc = if di == 3 && i % 2 == 1 { wire::op::ADD } else { wire::op::SET };
                self.exec(&format!("req {}", hex(&wire::set_like(opc, &key, &vec![b'f'; *l as usize], 0, 0, 0, i as u32).bytes())));
                self.exec("dump");
            }
            for i in 0..lens.len() {
                self.exec(&format!("req {}", hex(&wire::key_only(wire::op::GET, format!("fill{}", i).as_bytes(), 0, 100 + i as u32).bytes())));
                self.exec("dump");
            }
        }
        if profile == "C14" || profile == "C15" {
            // directed, scale: thousands of small records, then single stores each of which needs thousands of victims
            // (the bound is checked behind every large store; the store is dumped only there)
            let mut rng = master.fork();
            self.exec("newp 130000 131072");
            let smalls = 4800 + rng.range(0, 400);
            for i in 0..smalls {
                self.exec(&format!("req {}", hex(&wire::set_like(wire::op::SETQ, format!("s{}", i).as_bytes(), b"x", 0, 0, 0, i as u32).bytes())));
            }
            self.exec("dump");
            for j in 0..3u32 {
                self.exec(&format!("req {}", hex(&wire::set_like(wire::op::SET, format!("big{}", j).as_bytes(), &vec![b'B'; 120000], 0, 0, 0, j).bytes())));
                self.exec("dump");
            }
        }
        for _ in 0..count {
            let mut rng = master.fork();
            let mem: u64 = if profile == "C14" || profile == "C02" { *rng.pick(&[10u64, 40, 60, 100, 100, 150, 250, 400, 1000]) } else if profile == "C07" { *rng.pick(&[10u64, 30, 60, 100, 250, 1000, 5000]) } else { *rng.pick(&[2000u64, 5000, 20000]) };
            self.exec(&format!("newp 4096 {}", mem));
            let mut g = GenState::new(&mut rng, &p, if profile == "C14" || profile == "C02" { 400 } else { 300 });
            let n = rng.range(p.len.0, p.len.1);
            for _ in 0..n {
                match g.next_op(&mut rng, &p) {
                    GenOp::Now(t) => {
                        self.exec(&format!("now {}", t));
                    }
                    GenOp::Req(b) => {
                        let out = self.exec(&format!("req {}", hex(&b)));
                        self.exec("dump");
                        if let Some(rest) = out.strip_prefix("resp ") {
                            let tok = rest.split(' ').next().unwrap();
                            if tok != "silent" {
                                if let (Some(bytes), Some(h)) = (wire::unhex(tok), wire::parse_req_hdr(&b)) {
                                    if let Ok(r) = wire::parse_resp(&bytes) {
                                        let el = h.extras_len as usize;
                                        let kl = h.key_len as usize;
                                        if r.status == 0 && b.len() >= 24 + el + kl && kl > 0 {
                                            g.note_cas(&b[24 + el..24 + el + kl], r.cas);
                                        }
                                    }
                                }
                            }
                        }
                    }
                }
            }
        }
        self.finish();
    }

    /// C20: the program just finished, re-run on a store under RandomPolicy with a limit that is not reached
    /// (64 MiB): every response and the content after every command must be identical
    pub fn policy_twin(&mut self) {
        let start = *self.prog_start.last().unwrap();
        let orig_ops: Vec<String> = self.ops[start..].to_vec();
        let orig_outs: Vec<String> = self.outs[start..].to_vec();
        let limit: u32 = orig_ops[0].split(' ').nth(1).unwrap().parse().unwrap();
        let mut sut = Sut::new(limit, Some(64 << 20));
        let prog = self.prog_start.len() - 1;
        for (i, l) in orig_ops.iter().enumerate() {
            let p: Vec<&str> = l.split(' ').collect();
            let out = match p.as_slice() {
                ["new", _] => "ok".to_string(),
                ["now", t] => {
                    sut.set_now(t.parse().unwrap());
                    "ok".to_string()
                }
                ["req", hx] => sut.req(&wire::unhex(hx).unwrap()),
                ["dump"] => sut.dump(),
                _ => continue,
            };
            if out != orig_outs[i] {
                self.violations.push((prog, vec!["C20", "C01"], start + i, format!("with eviction policy random (64 MiB, not reached) line {} of the program answers [{}], with policy none [{}]", i, &out[..out.len().min(200)], &orig_outs[i][..orig_outs[i].len().min(200)])));
                break;
            }
        }
    }

    /// C19: re-run the program just finished with a random subset of positions switched between the loud
    /// and the quiet opcode of the same command, and compare effect and responses position by position
    pub fn twin(&mut self, rng: &mut Rng) {
        let start = *self.prog_start.last().unwrap();
        let orig_ops: Vec<String> = self.ops[start..].to_vec();
        let orig_outs: Vec<String> = self.outs[start..].to_vec();
        let mut toggled: Vec<bool> = vec![];
        let mut twin_ops: Vec<String> = vec![];
        for l in &orig_ops {
            let mut t = false;
            let mut nl = l.clone();
            if let Some(hx) = l.strip_prefix("req ") {
                let mut b = wire::unhex(hx).unwrap();
                if let Some((_, cmd)) = wire::parse_cmd(&b) {
                    let twin_op = match b[1] {
                        0x00 => Some(0x09), 0x09 => Some(0x00), 0x0c => Some(0x0d), 0x0d => Some(0x0c),
                        0x01 => Some(0x11), 0x11 => Some(0x01), 0x02 => Some(0x12), 0x12 => Some(0x02),
                        0x03 => Some(0x13), 0x13 => Some(0x03), 0x04 => Some(0x14), 0x14 => Some(0x04),
                        0x05 => Some(0x15), 0x15 => Some(0x05), 0x06 => Some(0x16), 0x16 => Some(0x06),
                        0x08 => Some(0x18), 0x18 => Some(0x08), 0x0e => Some(0x19), 0x19 => Some(0x0e),
                        0x0f => Some(0x1a), 0x1a => Some(0x0f), _ => None,
                    };
                    if let (Some(o), true) = (twin_op, cmd != wire::Cmd::NonStandard) {
                        if rng.chance(1, 2) {
                            b[1] = o;
                            t = true;
                            nl = format!("req {}", hex(&b));
                        }
                    }
                }
            }
            toggled.push(t);
            twin_ops.push(nl);
        }
        let tstart = self.ops.len();
        for l in &twin_ops {
            self.exec(l);
        }
        let twin_outs: Vec<String> = self.outs[tstart..].to_vec();
        let prog = self.prog_start.len() - 1;
        let mut report = |line: usize, msg: String, me: &mut Runner| {
            me.violations.push((prog, vec!["C19"], tstart + line, msg));
        };
        for i in 0..orig_ops.len() {
            let (a, b) = (&orig_outs[i], &twin_outs[i]);
            if orig_ops[i] == "dump" {
                if a != b {
                    report(i, format!("stored items differ after position {} of a loud/quiet twin pair: [{}] vs [{}]", i, a, b), self);
                    break;
                }
                continue;
            }
            if !toggled[i] {
                if a != b {
                    report(i, format!("untoggled position {} answers differently in the twin run: [{}] vs [{}]", i, a, b), self);
                    break;
                }
                continue;
            }
            // which one is the loud run?
            let ob = wire::unhex(orig_ops[i].strip_prefix("req ").unwrap()).unwrap();
            let orig_is_quiet = wire::is_quiet_opcode(ob[1]);
            let (loud, quiet, qop) = if orig_is_quiet { (b, a, ob[1]) } else { (a, b, wire::unhex(twin_ops[i].strip_prefix("req ").unwrap()).unwrap()[1]) };
            let is_get = matches!(ob[1], 0x00 | 0x09 | 0x0c | 0x0d);
            let ltok = loud.strip_prefix("resp ").unwrap_or("");
            let qtok = quiet.strip_prefix("resp ").unwrap_or("");
            if ltok.is_empty() || ltok == "silent" {
                report(i, format!("loud command at position {} was not answered: [{}]", i, loud), self);
                break;
            }
            let lb = wire::unhex(ltok.split(' ').next().unwrap()).unwrap_or_default();
            if lb.len() < 24 {
                continue;
            }
            let status = u16::from_be_bytes([lb[6], lb[7]]);
            let expect_silent = if is_get { status == 1 } else { status == 0 };
            if expect_silent {
                if qtok != "silent" {
                    report(i, format!("quiet command at position {} answered [{}] although its loud twin answered status {:#x}", i, quiet, status), self);
                    break;
                }
            } else {
                let mut want = lb.clone();
                want[1] = qop;
                if qtok.split(' ').next().unwrap() != hex(&want) {
                    report(i, format!("quiet command at position {} answered [{}], expected the loud answer with the quiet opcode [{}]", i, quiet, hex(&want)), self);
                    break;
                }
            }
        }
    }

    pub fn write(&self, dir: &str, suite: &str, profile: &str, seed: u64) {
        std::fs::create_dir_all(dir).unwrap();
        std::fs::write(format!("{}/ops.txt", dir), self.ops.join("\n") + "\n").unwrap();
        std::fs::write(format!("{}/impl.txt", dir), self.outs.join("\n") + "\n").unwrap();
        let mut o = String::new();
        for (prog, props, line, msg) in &self.violations {
            let start = self.prog_start[*prog];
            let end = self.prog_start.get(prog + 1).cloned().unwrap_or(self.ops.len());
            writeln!(o, "VIOL props={} start={} end={} line={} msg={}", props.join(","), start, end, line, msg).unwrap();
        }
        std::fs::write(format!("{}/oracle.txt", dir), o).unwrap();
        let hist = |m: &BTreeMap<String, u64>| m.iter().map(|(k, v)| format!("\"{}\":{}", k, v)).collect::<Vec<_>>().join(",");
        let stats = format!(
            "{{\"suite\":\"{}\",\"profile\":\"{}\",\"seed\":{},\"programs\":{},\"lines\":{},\"requests\":{},\"distinct_nontrivial\":{},\"oracle_checks\":{},\"wellformed_checked\":{},\"opcodes\":{{{}}},\"outcomes\":{{{}}},\"oracle_violations\":{}{}}}\n",
            suite,
            profile,
            seed,
            self.prog_start.len(),
            self.ops.len(),
            self.requests,
            self.nontrivial,
            self.oracle_checks,
            self.wellformed_checked,
            hist(&self.op_hist),
            hist(&self.status_hist),
            self.violations.len(),
            self.extra
        );
        std::fs::write(format!("{}/stats.json", dir), stats).unwrap();
    }
}
