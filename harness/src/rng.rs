/// splitmix64: every random choice of the harness derives from one state seeded by VERIF_SEED
#[derive(Clone)]
pub struct Rng(pub u64);

impl Rng {
    pub fn new(seed: u64) -> Rng {
        Rng(seed ^ 0x9e3779b97f4a7c15)
    }
    pub fn next(&mut self) -> u64 {
        self.0 = self.0.wrapping_add(0x9e3779b97f4a7c15);
        let mut z = self.0;
        z = (z ^ (z >> 30)).wrapping_mul(0xbf58476d1ce4e5b9);
        z = (z ^ (z >> 27)).wrapping_mul(0x94d049bb133111eb);
        z ^ (z >> 31)
    }
    pub fn below(&mut self, n: u64) -> u64 {
        if n == 0 {
            0
        } else {
            self.next() % n
        }
    }
    pub fn range(&mut self, lo: u64, hi: u64) -> u64 {
        lo + self.below(hi - lo + 1)
    }
    pub fn chance(&mut self, num: u64, den: u64) -> bool {
        self.below(den) < num
    }
    pub fn pick<'a, T>(&mut self, xs: &'a [T]) -> &'a T {
        &xs[self.below(xs.len() as u64) as usize]
    }
    pub fn bytes(&mut self, n: usize) -> Vec<u8> {
        (0..n).map(|_| self.next() as u8).collect()
    }
    /// weighted choice: returns index
    pub fn weighted(&mut self, w: &[u32]) -> usize {
        let total: u64 = w.iter().map(|x| *x as u64).sum();
        let mut r = self.below(total);
        for (i, x) in w.iter().enumerate() {
            if r < *x as u64 {
                return i;
            }
            r -= *x as u64;
        }
        w.len() - 1
    }
    pub fn fork(&mut self) -> Rng {
        Rng(self.next())
    }
}
