//! The real code, constructed from /repo's public API.
use bytes::{Bytes, BytesMut};
use memcrs::cache::cache::{Cache, KeyType, Record};
use memcrs::memcache::random_policy::RandomPolicy;
use memcrs::memcache::store::MemcStore;
use memcrs::memcache_server::handler::BinaryHandler;
use memcrs::memory_store::store::MemoryStore;
use memcrs::protocol::binary_codec::{BinaryRequest, BinaryResponse, MemcacheBinaryCodec};
use memcrs::server::timer::Timer;
use std::panic::{catch_unwind, AssertUnwindSafe};
use std::sync::atomic::{AtomicU64, Ordering};
use std::sync::Arc;
use tokio_util::codec::{Decoder, Encoder};

use crate::wire::{hex, hexd};

pub struct Clock(pub AtomicU64);
/// sched suite: the client thread whose clock reads during the current grant return the value from before the last
/// tick (its call had read the clock, the tick happened, other calls ran, then its map operation ran); -1 = nobody
pub static STALE_TID: std::sync::atomic::AtomicI64 = std::sync::atomic::AtomicI64::new(-1);
thread_local! {
    pub static CLOCK_TID: std::cell::Cell<Option<usize>> = const { std::cell::Cell::new(None) };
}
impl Timer for Clock {
    fn timestamp(&self) -> u64 {
        let t = self.0.load(Ordering::SeqCst);
        if let Some(i) = CLOCK_TID.with(|c| c.get()) {
            if STALE_TID.load(Ordering::SeqCst) == i as i64 {
                return t.saturating_sub(1);
            }
        }
        t
    }
}

#[derive(Clone, Debug)]
pub enum RecEv {
    Set(u64),
    DeleteOk(u64),
    Evicted(Vec<u8>, u64),
    /// `Cache::remove` asked of the inner store by the policy layer (the unchanged code never does)
    Removed(Vec<u8>, u64),
    Len(usize),
}

/// a recording `Cache` between RandomPolicy and MemoryStore: what the policy asked of the inner store
#[cfg(feature = "wrappers")]
pub struct Recorder {
    pub inner: Arc<MemoryStore>,
    pub log: std::sync::Mutex<Vec<RecEv>>,
}

#[cfg(feature = "wrappers")]
impl memcrs::cache::cache::impl_details::CacheImplDetails for Recorder {
    fn get_by_key(&self, key: &KeyType) -> memcrs::cache::error::Result<Record> {
        self.inner.get_by_key(key)
    }
    fn check_if_expired(&self, key: &KeyType, record: &Record) -> bool {
        self.inner.check_if_expired(key, record)
    }
}

#[cfg(feature = "wrappers")]
impl Cache for Recorder {
    fn get(&self, key: &KeyType) -> memcrs::cache::error::Result<Record> {
        self.inner.get(key)
    }
    fn set(&self, key: KeyType, record: Record) -> memcrs::cache::error::Result<memcrs::cache::cache::SetStatus> {
        self.log.lock().unwrap().push(RecEv::Set(record.len() as u64));
        self.inner.set(key, record)
    }
    fn delete(&self, key: KeyType, header: memcrs::cache::cache::CacheMetaData) -> memcrs::cache::error::Result<Record> {
        let r = self.inner.delete(key, header);
        if let Ok(rec) = &r {
            self.log.lock().unwrap().push(RecEv::DeleteOk(rec.len() as u64));
        }
        r
    }
    fn flush(&self, header: memcrs::cache::cache::CacheMetaData) {
        self.inner.flush(header)
    }
    fn len(&self) -> usize {
        let n = self.inner.len();
        self.log.lock().unwrap().push(RecEv::Len(n));
        n
    }
    fn is_empty(&self) -> bool {
        self.inner.is_empty()
    }
    fn as_read_only(&self) -> Box<dyn memcrs::cache::cache::CacheReadOnlyView> {
        self.inner.as_read_only()
    }
    fn remove_if(&self, f: &mut memcrs::cache::cache::CachePredicate) -> memcrs::cache::cache::RemoveIfResult {
        let r = self.inner.remove_if(f);
        for (k, rec) in r.iter().flatten() {
            self.log.lock().unwrap().push(RecEv::Evicted(k.to_vec(), rec.len() as u64));
        }
        r
    }
    fn remove(&self, key: &KeyType) -> Option<(KeyType, Record)> {
        let r = self.inner.remove(key);
        if let Some((k, rec)) = &r {
            self.log.lock().unwrap().push(RecEv::Removed(k.to_vec(), rec.len() as u64));
        }
        r
    }
}

/// without the wrappers: no recording cache (policy programs cannot be compared with the model then)
#[cfg(not(feature = "wrappers"))]
pub struct Recorder {
    pub log: std::sync::Mutex<Vec<RecEv>>,
}

pub struct Sut {
    pub clock: Arc<Clock>,
    pub inner: Arc<MemoryStore>,
    pub policy: Option<Arc<RandomPolicy>>,
    pub recorder: Option<Arc<Recorder>>,
    pub memc: Arc<MemcStore>,
    pub handler: BinaryHandler,
    pub limit: u32,
    // codec-level stream state (suite `codec`)
    pub codec: MemcacheBinaryCodec,
    pub cbuf: BytesMut,
    // socket-level state (suite `conn`): a real server over the same store, and the current connection
    pub server: Option<crate::net::Server>,
    pub conn: Option<crate::net::Conn>,
    pub store_dyn: Arc<dyn Cache + Send + Sync>,
    pub acc: Vec<u8>,
    pub max_cap: usize,
}

pub static PANICS: AtomicU64 = AtomicU64::new(0);
pub static LAST_PANIC: std::sync::Mutex<String> = std::sync::Mutex::new(String::new());

/// panics (also those inside server tasks on the tokio runtime) are counted, not printed
pub fn quiet_panics() {
    std::panic::set_hook(Box::new(|info| {
        PANICS.fetch_add(1, Ordering::SeqCst);
        let loc = info.location().map(|l| format!("{}:{}", l.file(), l.line())).unwrap_or_default();
        let msg = if let Some(s) = info.payload().downcast_ref::<&str>() {
            s.to_string()
        } else if let Some(s) = info.payload().downcast_ref::<String>() {
            s.clone()
        } else {
            "?".to_string()
        };
        if std::thread::current().name() == Some("main") {
            eprintln!("harness panic: {} at {}", msg, loc);
        }
        *LAST_PANIC.lock().unwrap() = format!("{} at {}", msg, loc);
    }));
}

impl Sut {
    pub fn new(limit: u32, policy_limit: Option<u64>) -> Sut {
        let clock = Arc::new(Clock(AtomicU64::new(0)));
        let inner = Arc::new(MemoryStore::new(clock.clone()));
        let (store, policy, recorder): (Arc<dyn Cache + Send + Sync>, Option<Arc<RandomPolicy>>, Option<Arc<Recorder>>) = match policy_limit {
            #[cfg(feature = "wrappers")]
            Some(l) => {
                let rec = Arc::new(Recorder { inner: inner.clone(), log: std::sync::Mutex::new(vec![]) });
                let p = Arc::new(RandomPolicy::new(rec.clone(), l));
                (p.clone(), Some(p), Some(rec))
            }
            #[cfg(not(feature = "wrappers"))]
            Some(l) => {
                let p = Arc::new(RandomPolicy::new(inner.clone(), l));
                (p.clone(), Some(p), None)
            }
            None => (inner.clone(), None, None),
        };
        let store_dyn = store.clone();
        let memc = Arc::new(MemcStore::new(store));
        Sut {
            clock,
            inner,
            policy,
            recorder,
            handler: BinaryHandler::new(memc.clone()),
            memc,
            limit,
            codec: MemcacheBinaryCodec::new(limit),
            cbuf: BytesMut::with_capacity(4096),
            server: None,
            conn: None,
            store_dyn,
            acc: vec![],
            max_cap: 4096,
        }
    }

    /// `conn`: open a fresh connection to a real server running over this store
    pub fn open_conn(&mut self) {
        if self.server.is_none() {
            self.server = Some(crate::net::start_server(self.store_dyn.clone(), self.limit, 64, 30));
        }
        self.conn = Some(crate::net::Conn::open(self.server.as_ref().unwrap().port));
        self.acc.clear();
    }

    pub fn chunk(&mut self, bytes: &[u8]) -> String {
        if self.conn.is_none() {
            self.open_conn();
        }
        let c = self.conn.as_mut().unwrap();
        if !c.closed {
            c.send(bytes);
            c.sync(&mut self.acc, std::time::Duration::from_secs(5));
        }
        "sent".to_string()
    }

    /// half-close and read everything until the server closes
    pub fn eof(&mut self) -> String {
        if self.conn.is_none() {
            self.open_conn();
        }
        let c = self.conn.as_mut().unwrap();
        if !c.closed {
            c.half_close();
            c.read_to_end(&mut self.acc, std::time::Duration::from_secs(8));
        }
        let out = std::mem::take(&mut self.acc);
        format!("out {} {}", hexd(&out), if c.closed { "closed" } else { "open" })
    }

    /// no more input: collect what has been answered after the server went quiet
    pub fn fin(&mut self) -> String {
        if self.conn.is_none() {
            self.open_conn();
        }
        let c = self.conn.as_mut().unwrap();
        if !c.closed {
            let more = c.drain(std::time::Duration::from_secs(5));
            self.acc.extend(more);
        }
        let out = std::mem::take(&mut self.acc);
        format!("out {} {}", hexd(&out), if c.closed { "closed" } else { "open" })
    }

    /// a second connection: send `bytes`, half-close, read to the end
    pub fn obs(&mut self, bytes: &[u8]) -> String {
        if self.server.is_none() {
            self.server = Some(crate::net::start_server(self.store_dyn.clone(), self.limit, 64, 30));
        }
        let mut c = crate::net::Conn::open(self.server.as_ref().unwrap().port);
        let mut acc = vec![];
        c.send(bytes);
        c.half_close();
        c.read_to_end(&mut acc, std::time::Duration::from_secs(8));
        format!("obs {}", hexd(&acc))
    }

    /// send everything at once on a fresh connection and abort it without reading (`rst`: SO_LINGER 0 close;
    /// `close`: shutdown both ways first). Returns when the store has stopped changing.
    pub fn blast(&mut self, kind: &str, bytes: &[u8]) -> String {
        if self.server.is_none() {
            self.server = Some(crate::net::start_server(self.store_dyn.clone(), self.limit, 64, 30));
        }
        self.conn = None;
        let mut c = crate::net::Conn::open(self.server.as_ref().unwrap().port);
        c.send(bytes);
        if kind == "close" {
            let _ = c.sock.shutdown(std::net::Shutdown::Both);
        }
        c.reset();
        // settle: the dump must be stable for 60 ms (the server task ends on the reset or after the last request)
        let mut last = self.dump();
        let mut stable = 0;
        let t0 = std::time::Instant::now();
        while stable < 6 && t0.elapsed() < std::time::Duration::from_secs(5) {
            std::thread::sleep(std::time::Duration::from_millis(10));
            let d = self.dump();
            if d == last {
                stable += 1;
            } else {
                stable = 0;
                last = d;
            }
        }
        "ok".to_string()
    }

    pub fn set_now(&self, t: u64) {
        self.clock.0.store(t, Ordering::SeqCst);
    }

    pub fn encode(&self, resp: BinaryResponse) -> Vec<u8> {
        let mut codec = MemcacheBinaryCodec::new(self.limit);
        let mut dst = BytesMut::new();
        codec.encode(resp, &mut dst).expect("encode");
        dst.to_vec()
    }

    pub fn handle(&self, req: BinaryRequest) -> Result<Option<Vec<u8>>, String> {
        match catch_unwind(AssertUnwindSafe(|| self.handler.handle_request(req).map(|r| self.encode(r)))) {
            Ok(r) => Ok(r),
            Err(e) => Err(panic_text(e)),
        }
    }

    /// one complete frame through a fresh decoder, the handler and the encoder
    pub fn req(&self, frame: &[u8]) -> String {
        let mut codec = MemcacheBinaryCodec::new(self.limit);
        let mut buf = BytesMut::from(frame);
        let dec = catch_unwind(AssertUnwindSafe(|| codec.decode(&mut buf)));
        match dec {
            Err(e) => format!("panic decode {}", panic_text(e)),
            Ok(Err(_)) => "err".to_string(),
            Ok(Ok(None)) => "more".to_string(),
            Ok(Ok(Some(req))) => {
                let rest = buf.len();
                let tail = if rest == 0 { String::new() } else { format!(" rest={}", rest) };
                match self.handle(req) {
                    Ok(Some(b)) => format!("resp {}{}", hex(&b), tail),
                    Ok(None) => format!("resp silent{}", tail),
                    Err(p) => format!("panic handle {}", p),
                }
            }
        }
    }

    /// codec-level stream: append bytes to the caller-owned buffer, decode until need-more / error
    pub fn dec(&mut self, chunk: &[u8]) -> String {
        // emulate `stream.read_buf(&mut buffer)`: a read delivers at most the spare capacity; with none
        // left BytesMut grows by 64 (BufMut::chunk_mut). The chunk therefore arrives in one or more reads,
        // the decoder running after each, exactly as in read_frame.
        let mut out: Vec<String> = vec![];
        let mut rest = chunk;
        let mut first = true;
        while first || !rest.is_empty() {
            first = false;
            if !rest.is_empty() {
                if self.cbuf.capacity() == self.cbuf.len() {
                    self.cbuf.reserve(64);
                }
                let n = rest.len().min(self.cbuf.capacity() - self.cbuf.len());
                self.cbuf.extend_from_slice(&rest[..n]);
                rest = &rest[n..];
                self.max_cap = self.max_cap.max(self.cbuf.capacity());
            }
            let (stop, toks) = self.dec_loop();
            // keep only the last need-more marker
            if !rest.is_empty() && !stop {
                out.extend(toks.into_iter().filter(|t| !t.starts_with('M')));
            } else {
                out.extend(toks);
            }
            self.max_cap = self.max_cap.max(self.cbuf.capacity());
            if stop {
                break;
            }
        }
        format!("dec {}", out.join(" "))
    }

    /// decode until need-more / error; returns (connection would end, tokens)
    fn dec_loop(&mut self) -> (bool, Vec<String>) {
        let mut out: Vec<String> = vec![];
        let mut stop = false;
        let mut idle_rounds = 0usize;
        loop {
            let before = self.cbuf.len();
            let r = {
                let codec = &mut self.codec;
                let buf = &mut self.cbuf;
                catch_unwind(AssertUnwindSafe(|| codec.decode(buf)))
            };
            // a decoder that keeps producing requests without consuming a byte never gets back to the socket
            if self.cbuf.len() == before && matches!(r, Ok(Ok(Some(_)))) {
                idle_rounds += 1;
                if idle_rounds > 64 {
                    out.truncate(out.len().saturating_sub(60));
                    out.push("P:decode_loop_emits_requests_without_consuming_input".to_string());
                    stop = true;
                    break;
                }
            } else {
                idle_rounds = 0;
            }
            match r {
                Err(e) => {
                    out.push(format!("P:{}", panic_text(e).replace(' ', "_")));
                    stop = true;
                    break;
                }
                Ok(Err(_)) => {
                    out.push("E".to_string());
                    stop = true;
                    break;
                }
                Ok(Ok(None)) => {
                    out.push(format!("M{}", self.cbuf.len()));
                    break;
                }
                Ok(Ok(Some(req))) => match self.handle(req) {
                    Ok(Some(b)) => out.push(format!("F{}", hex(&b))),
                    Ok(None) => out.push("Fsilent".to_string()),
                    Err(p) => {
                        out.push(format!("P:{}", p.replace(' ', "_")));
                        stop = true;
                        break;
                    }
                },
            }
        }
        (stop, out)
    }

    pub fn reset_codec(&mut self) {
        self.codec = MemcacheBinaryCodec::new(self.limit);
        self.cbuf = BytesMut::with_capacity(4096);
        self.max_cap = 4096;
    }

    pub fn records(&self) -> Vec<(Vec<u8>, DumpRec)> {
        Sut::records_of(&self.inner)
    }

    pub fn records_of(inner: &Arc<MemoryStore>) -> Vec<(Vec<u8>, DumpRec)> {
        let acc: Arc<std::sync::Mutex<Vec<(Vec<u8>, DumpRec)>>> = Arc::new(std::sync::Mutex::new(vec![]));
        let acc2 = acc.clone();
        inner.remove_if(&mut move |k: &KeyType, r: &Record| {
            let (ts, cas, flags, ttl, val) = r.verif_view();
            acc2.lock().unwrap().push((k.to_vec(), DumpRec { ts, cas, flags, ttl, value: val.to_vec() }));
            false
        });
        let mut v = acc.lock().unwrap().clone();
        v.sort_by(|a, b| hex(&a.0).cmp(&hex(&b.0)));
        v
    }

    pub fn dump_of(inner: &Arc<MemoryStore>) -> String {
        let recs = Sut::records_of(inner);
        let parts: Vec<String> = recs
            .iter()
            .map(|(k, r)| format!("k={} v={} f={} c={} ts={} ttl={}", hexd(k), hexd(&r.value), r.flags, r.cas, r.ts, r.ttl))
            .collect();
        format!("dump {}", parts.join(";"))
    }

    pub fn dump(&self) -> String {
        Sut::dump_of(&self.inner)
    }

    pub fn usage(&self) -> u64 {
        self.policy.as_ref().map(|p| p.verif_usage()).unwrap_or(0)
    }

    pub fn take_log(&self) -> Vec<RecEv> {
        match &self.recorder {
            Some(r) => std::mem::take(&mut *r.log.lock().unwrap()),
            None => vec![],
        }
    }

    pub fn stored_bytes(&self) -> u64 {
        self.records().iter().map(|(_, r)| 24 + r.value.len() as u64).sum()
    }
}

#[derive(Clone, Debug, PartialEq)]
pub struct DumpRec {
    pub ts: u64,
    pub cas: u64,
    pub flags: u32,
    pub ttl: u32,
    pub value: Vec<u8>,
}

pub fn panic_text(e: Box<dyn std::any::Any + Send>) -> String {
    if let Some(s) = e.downcast_ref::<&str>() {
        s.to_string()
    } else if let Some(s) = e.downcast_ref::<String>() {
        s.clone()
    } else {
        "?".to_string()
    }
}

#[allow(dead_code)]
pub fn key(b: &[u8]) -> KeyType {
    Bytes::copy_from_slice(b)
}
