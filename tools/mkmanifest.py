#!/usr/bin/env python3
"""regenerate MANIFEST.json from the table below (keeps it valid and in step with checklib/props.py)"""
import json, sys
sys.path.insert(0, "/verif/checklib")

TRUST = ("Trusted: Lean 4.33 kernel with axioms {propext, Classical.choice, Quot.sound} (audited by #print axioms on every run); "
         "the model is hand-written and tied to /repo's working tree on every run by the correspondence suites (sampling, plus "
         "small-scope enumeration where stated); harness/oracle/diff code; DashMap calls modelled as atomic; ")

CHECKS = {
 "C01": ("Theorems: read-your-writes after any history of foreign commands of any length (C01_read_your_writes), key isolation for all nine command kinds (C01_frame), no loss without delete/flush (C01_no_loss), non-zero acknowledged CAS. Tie: seq suite (real decoder+handler+encoder vs model, store dumped after every request) + last-acknowledged-write oracle on the implementation's own outputs.",
         "eviction policy none here; policy random transparency belongs to C20", "6/C01"),
 "C02": ("Theorems: success iff CAS matches / failure = key exists and store unchanged for set, replace, append, prepend, incr/decr, delete; acknowledged CAS is the one reported; over any history a CAS value identifies one version within a lifetime (C02_cas_identifies_version, by the invariant lifetime_inv). Tie: seq suite with a CAS pool (current, every stale token, current+1, extremes) on 1-3 keys; oracle tracks tokens per lifetime.",
         "counter below 2^64 within a history; lifetimes begun by a non-zero-CAS store on an absent/expired key are excluded exactly as the property says", "6/C02"),
 "C05": ("Theorems: live before / dead from timestamp+TTL, TTL 0 immortal, expired = absent for add/replace/append/prepend (and via C06/C07 for incr/decr), nothing prolongs a life (C05_nothing_prolongs, all command kinds incl. delayed flush), once invisible never visible again over any history with a monotone clock (C05_never_visible_again). Tie: seq suite with TTL pool and boundary-directed clock advances; per-key deadline oracle.",
         "clock monotone; TTLs up to 30 days (relative)", "6/C05"),
 "C06": ("Theorems: add iff absent, replace iff present, append/prepend produce old++suffix / prefix++old keeping flags and TTL, rejected commands leave the store unchanged field by field; presence = visibility (expired counts as absent). Tie: seq suite profile add/replace/append/prepend on absent, present, expired, deleted, flushed keys incl. empty operands; reference-semantics oracle.",
         "value lengths below 2^32-300", "6/C06"),
 "C07": ("Theorems: incr = (v+d) mod 2^64, decr = max(v-d,0), stored text = decimal of the returned number and parses back (parseU64_toDec, all n < 2^64), flags kept, creation with initial value / flags 0, no creation for expiration 0xffffffff, non-numeric -> status 6 and unchanged, what parses is characterised (digits incl. leading zeros, optional +; empty, sign, space, overflow rejected). Tie: seq suite with the decimal pool and extreme deltas; big-integer oracle.",
         "`+digits` values are unconstrained by the property (accepted by Rust's parser); the oracle accepts either outcome", "6/C07"),
 "C09": ("Theorems (generic in the store): feed (feed c a) b = feed c (a++b) for responses, store and connection state (C09_feed_feed, from the stream-append lemma drain_append over the full two-state decoder with the oversize-skip state); hence any two segmentations of the same bytes - any number of cuts anywhere - behave identically (C09_segmentation_independent); every emitted request is taken from exactly 24+body_length bytes, also when an oversized body arrives in pieces (C09_exact_consumption, C09_exact_skip, C09_skip_discards_exactly). Tie: codec suite (real Decoder on a caller-owned BytesMut, every single cut / pairs / byte-wise) and conn suite (real server over loopback with enforced read boundaries via NETLINK_SOCK_DIAG) vs model; relational oracle: all segmentations of a stream must agree on the implementation.",
         "chunks arrive within the idle timeout; kernel TCP and tokio are below the model", "6/C09"),
 "C10": ("Theorems: decode loop terminates for every byte string (drain is defined by well-founded recursion, decode1_emit_measure); every parser slice is within the body (C10_parse_in_bounds), get_value_len cannot underflow; wrong magic / opcode>=0x25 / data type != 0 close the connection (C10_rejected_header); key>250, extras>20, missing key, body<key+extras, unknown opcode produce no request for implemented commands (C10_rejected_body); protocol errors, oversized and unimplemented requests leave the store untouched (C10_not_executed); data retained between reads is below max(24, limit+1) bytes whatever headers announce (C10_buffer_logic, C10_retained_bytes_bounded). Tie: codec/conn suites with malformed tails, header boundary grid, panics caught per request (overflow checks on), corpus of the repaired panics.",
         "PARTIAL for the memory clause: BytesMut capacity (allocator growth) is measured, not modelled; panics inside tokio/DashMap are outside the model", "6/C10"),
 "C12": ("Theorems (generic in the store): the receive loop executes events in arrival order and concatenates outputs (C12_in_order); every loud request incl. unimplemented opcodes and oversized ones gets exactly one response (C12_loud_one); quiet mutations answer iff error, quiet gets iff not a miss (C12_quiet_*); quit answered then closed, quitq closed silently (C12_quit); nothing after quit/quitq/protocol error is executed or answered (C12_nothing_after_close, C12_closed_ignores_input); a pipeline of complete frames is handed over in order (C12_pipeline_order). Tie: conn/codec suites with loud/quiet/unimplemented opcodes and quit/quitq at every position; oracle matches response opaques against the request stream.",
         "one connection; write failures (peer not reading) end the connection by design", "6/C12"),
 "C13": ("Theorems: an oversized request of any opcode is answered with status 3 echoing opcode/opaque and leaves the store untouched (C13_too_large_answer); oversized frame ++ rest in ANY segmentation = the 'too large' answer followed by exactly what rest alone produces (C13_skip_exact, C13_any_segmentation); from a fresh connection a request is refused for size only if body_length > limit (C13_within_limit_never_rejected, invariant PState.sizeOK). Tie: conn suite with small limits, bodies limit+1 .. 3x limit for every opcode, every split of the body between first and later reads; corpus of the repaired skip arithmetic.",
         "limits 1 KiB - 4 KiB in the suites (list-based bytes in the model driver); larger limits are covered by the theorem's quantifier", "6/C13"),
 "C18": ("Theorems: a strict prefix of a frame decodes to no event (C18_truncated_no_event), an invalid header to one protocol error (C18_bad_header_no_request); complete frames followed by any tail: exactly the frames' events, each once, in order, then the tail's (C18_prefix_exact, C18_cut_mid_request); EOF and protocol errors execute nothing and never change the store (C18_eof_contained, C18_protoErr_contained); the store others see is the fold of the complete requests (C18_store_is_fold_of_complete). Tie: conn suite with truncated / invalid tails and half-close at every sampled cut; dumps taken through the shared store (the observer's view).",
         "PARTIAL: abortive resets (RST) and kernel delivery are outside the model - there the claim is 'a prefix, each at most once'", "6/C18"),
 "C11": ("Theorems (generic in the store: every outcome the storage layer can produce): every response the handler emits for any request of any opcode satisfies the layout predicate wellFormed (opcode and opaque echoed, status from the protocol table, 4 flag bytes exactly on hits, key echoed iff get-key, 8 bytes for counters, message text on errors, body length = extras+key+value) (C11_wellformed); a well-formed response occupies exactly 24+body_length bytes (C11_frame_length); magic 0x81 and data type 0. Tie: seq suite over all opcodes incl. unsupported and non-standard frames; every response of every suite is parsed by an independent parser in the harness.",
         "value lengths below 2^32-300 (body_length is a u32)", "6/C11"),
 "C14": ("Theorems (sequential clause, every limit incl. limits below one record, every record size, EVERY victim choice - the choice tape is universally quantified): the eviction loop keeps 'accounted usage >= stored bytes + pending record' and ends with usage <= limit or an emptied store (evictLoop_spec); after a store the bytes stored are <= max(limit, record) <= limit + record just written and the accounting still covers the content (C14_sequential); delete/get/flush preserve coverage (C14_covers_*); the loop consumes at most one victim per iteration and terminates (C14_terminates); an acknowledged store leaves its record stored whatever was evicted (C14_victim_not_pending). Tie: policy suite with a recording Cache between RandomPolicy and MemoryStore - observed victims are the model's choice tape (validated), accounted usage (hook), stored bytes and content compared after every command. Concurrent clause: see DESIGN.md (schedule enumeration, recorded finding).",
         "counter arithmetic does not wrap (usage + record < 2^64); the concurrent clause is not proved (PARTIAL)", "6/C14"),
 "C15": ("The full statement is FALSE of code and model: kernel-evaluated witnesses (C15_overwrite_drifts, C15_failed_cas_drifts, C15_flush_drifts, C15_expiry_drifts, C15_rmw_drifts, C15_drift_evicts_live_key) are the recorded findings (known_findings.json, one per drift class; the check prints KNOWN-FINDING for drift of those classes and reports any other). Proved part (C15_partial_*): fresh-key stores without pressure and reads of live keys keep the accounting exact and evict nothing. Tie: policy suite with the accounted usage read through the hook after every command; the model reproduces the drift exactly, so an accounting change of any other kind (e.g. delete no longer subtracting, flush zeroing the counter) breaks the correspondence or the victim validation with a concrete input.",
         "known findings: accounting drifts upward on overwrite, rejected store, flush, lazy expiry (a redesign, not a patch)", "6/C15"),
 "C19": ("Theorems (generic in the store): switching any request to the quiet opcode of its command leaves the store after handling identical and relates the responses exactly as the property says (errors identical apart from the opcode, successful quiet mutations and quiet get misses silent, quiet hits same payload) (C19_step); for command sequences of any length and any subset of positions switched, the final store is identical (C19_histories). Tie: seq suite in twin mode - every generated program is re-run with a random subset of positions toggled loud<->quiet; dumps after every request and the response relation are compared on the implementation, and both runs are compared with the model.",
         "the eleven commands with a quiet twin: set/add/replace/delete/incr/decr/append/prepend/flush/get/getk", "6/C19"),
 "C08": ("Theorems: delete removes exactly the addressed key (frame), not found / key exists rules, deleted stays gone; immediate flush hides everything at all times, delayed flush hides everything from now+n on, flushed stays gone over any history until re-stored, a flush never makes anything more visible, later stores unaffected. Tie: seq multi-key profile with deletes and immediate/delayed flushes at non-zero times; membership-and-deadline oracle.",
         "delete / CAS-store addressed to an expired uncollected record may answer as present or absent (the property does not list them)", "6/C08"),
}

def main():
    import props
    m = {
     "version": 1,
     "setup_cmd": "./check setup",
     "hooks": {"guard": "memcrs_verif",
               "enable": "RUSTFLAGS='--cfg memcrs_verif' via harness/.cargo/config.toml; the harness depends on /repo/memcrs by path and is rebuilt by every check",
               "baseline_off_cmd": "cd /repo && cargo test --workspace --no-fail-fast --offline",
               "source_commits": ["5e07e23"], "add_only": True},
     "engines": [
      {"name": "lean-model", "path": "lean/", "serves_properties": sorted(CHECKS), "kind_free_text": "Lean 4 executable model of memc-rs (MemoryStore, MemcStore, RandomPolicy, codec, handler, connection, server) + property theorems (lean/MemcVerif/Props) + compiled line-protocol driver"},
      {"name": "harness", "path": "harness/", "serves_properties": sorted(CHECKS), "kind_free_text": "Rust harness driving the real crate (cfg memcrs_verif) with generated and enumerated inputs; independent property oracles; check script checklib/"}],
     "checks": [], "not_applicable": [],
     "notes": "Every check: (a) rebuilds and audits the property's Lean obligations, (b) rebuilds the harness against /repo's working tree, (c) replays corpus witnesses, (d) runs the correspondence suites, (e) judges the implementation's outputs with the property oracle. known_findings.json lists recorded and fixed defects."}
    for p in sorted(CHECKS):
        text, note, ref = CHECKS[p]
        m["checks"].append({
          "property_id": p, "quick_cmd": f"./check {p} --tier quick", "thorough_cmd": f"./check {p} --tier thorough",
          "evidence_file": f"/verif/evidence/{p}.json", "replay_cmd_template": f"./check {p} --replay {{path}}", "engine": "lean-model",
          "level_claimed": {"category": "proof", "text": text, "design_ref": ref},
          "level_note": TRUST + note,
          "technique": "Lean 4 theorems over a hand-written executable model + differential correspondence against the real crate"})
    for i in range(1, 21):
        p = f"C{i:02d}"
        if p not in CHECKS:
            m["not_applicable"].append({"property_id": p, "reason": "check under construction in this session (DESIGN.md section 10 order); the technique applies to it"})
    json.dump(m, open("/verif/MANIFEST.json", "w"), indent=1)

main()
