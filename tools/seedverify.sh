#!/bin/bash
# seedverify.sh <Cxx> <id-suffix e.g. m5> <agent-outdir/mN> <worktree> : confirm a sub-agent's change in its scratch worktree
# (demo passes without the patch; with it the 92 tests pass and the demo fails) and file it under /verif/seeded/<Cxx>-<suffix>/.
# The checks are then run against it by tools/pmatrix.py.
set -u
P=$1; M=$2; SRC=$3; WT=$4
D=/verif/seeded/$P-$M
DEMO=$(echo "${P}_${M}_demo" | tr 'A-Z-' 'a-z_')
mkdir -p $D
cp $SRC/patch.diff $D/patch.diff; cp $SRC/demo.rs $D/demo.rs; cp $SRC/README.md $D/README.agent.md 2>/dev/null
cd $WT && git checkout -q -- . && git clean -fdq -e target
mkdir -p $WT/memcrs/tests; cp $D/demo.rs $WT/memcrs/tests/$DEMO.rs
( cd $WT/memcrs && CARGO_NET_OFFLINE=true cargo test --offline --test $DEMO 2>&1 | grep -E "^test result|panicked|error" | head -5 ) > $D/demo_without.txt
git apply $D/patch.diff || { echo "PATCH DOES NOT APPLY"; exit 3; }
( cd $WT/memcrs && CARGO_NET_OFFLINE=true cargo test --offline --lib 2>&1 | grep -E "^test result" ) > $D/suite_with.txt
( cd $WT/memcrs && CARGO_NET_OFFLINE=true cargo test --offline --test $DEMO 2>&1 | grep -E "^test result|panicked|error" | head -8 ) > $D/demo_with.txt
git checkout -q -- . && git clean -fdq -e target
echo "== $P-$M"; echo "--- demo without patch:"; cat $D/demo_without.txt; echo "--- suite with patch:"; cat $D/suite_with.txt; echo "--- demo with patch:"; cat $D/demo_with.txt
python3 - "$P" "$M" "$D" <<'PY'
import sys, json, os
P, M, D = sys.argv[1:4]
rd = lambda f: open(f"{D}/{f}").read().strip() if os.path.exists(f"{D}/{f}") else ""
meta = {"id": f"{P}-{M}", "breaks_property": P, "source": "independent sub-agent given only the property text and a scratch worktree of /repo",
        "needs_to_manifest": "see README.agent.md (written by the sub-agent)",
        "confirmed": {"suite_with_patch": rd("suite_with.txt"), "demo_without_patch": rd("demo_without.txt")[:300], "demo_with_patch": rd("demo_with.txt")[:600]}}
ok = "92 passed; 0 failed" in meta["confirmed"]["suite_with_patch"] and "ok." in meta["confirmed"]["demo_without_patch"] and ("FAILED" in meta["confirmed"]["demo_with_patch"] or "panicked" in meta["confirmed"]["demo_with_patch"])
meta["confirmed"]["all_three_hold"] = ok
json.dump(meta, open(f"{D}/meta.json", "w"), indent=1)
print("CONFIRMED" if ok else "NOT CONFIRMED")
PY
rm -f $D/demo_without.txt $D/suite_with.txt $D/demo_with.txt
