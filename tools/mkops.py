#!/usr/bin/env python3
"""Readable op scripts -> literal op lines (hex frames) for corpus entries and replays.
   Lines:  new <limit> | now <t> | dump | <cmd> key=.. val=.. flags=.. exp=.. cas=.. opaque=.. delta=.. init=.. delay=.. extras=<hex> raw=<hex>
   cmd in: get getq getk getkq set setq add addq replace replaceq append appendq prepend prependq incr incrq decr decrq
           delete deleteq flush flushq noop version stat quit quitq op<hex>
   prefix a command with 'chunk ' / 'dec ' to emit it as connection / codec input instead of 'req'."""
import sys
OPS = dict(get=0x00, set=0x01, add=0x02, replace=0x03, delete=0x04, incr=0x05, decr=0x06, quit=0x07, flush=0x08, getq=0x09,
           noop=0x0a, version=0x0b, getk=0x0c, getkq=0x0d, append=0x0e, prepend=0x0f, stat=0x10, setq=0x11, addq=0x12,
           replaceq=0x13, deleteq=0x14, incrq=0x15, decrq=0x16, quitq=0x17, flushq=0x18, appendq=0x19, prependq=0x1a)

def tobytes(s):
    if s.startswith("0x"):
        return bytes.fromhex(s[2:])
    return s.encode()

def frame(cmd, kv):
    opc = OPS[cmd] if cmd in OPS else int(cmd[2:], 16)
    key = tobytes(kv.get("key", ""))
    val = tobytes(kv.get("val", ""))
    cas = int(kv.get("cas", "0"), 0)
    opaque = int(kv.get("opaque", "0"), 0)
    base = cmd.rstrip("q") if cmd in OPS and cmd not in ("quit",) else cmd
    if "extras" in kv:
        extras = bytes.fromhex(kv["extras"]) if kv["extras"] != "-" else b""
    elif base in ("set", "add", "replace"):
        extras = int(kv.get("flags", "0"), 0).to_bytes(4, "big") + int(kv.get("exp", "0"), 0).to_bytes(4, "big")
    elif base in ("incr", "decr"):
        extras = int(kv.get("delta", "1"), 0).to_bytes(8, "big") + int(kv.get("init", "0"), 0).to_bytes(8, "big") + int(kv.get("exp", "0"), 0).to_bytes(4, "big")
    elif base == "flush" and "delay" in kv:
        extras = int(kv["delay"], 0).to_bytes(4, "big")
    else:
        extras = b""
    body = len(extras) + len(key) + len(val)
    if "body" in kv:
        body = int(kv["body"], 0)
    h = bytes([int(kv.get("magic", "0x80"), 0), opc]) + int(kv.get("keylen", str(len(key))), 0).to_bytes(2, "big") + \
        bytes([int(kv.get("extraslen", str(len(extras))), 0), int(kv.get("dtype", "0"), 0)]) + b"\0\0" + body.to_bytes(4, "big") + opaque.to_bytes(4, "big") + cas.to_bytes(8, "big")
    return h + extras + key + val

def line(l):
    parts = l.split()
    if not parts or parts[0].startswith("#"):
        return None
    if parts[0] in ("new", "now", "dump", "eof", "conn", "codec", "prog", "limit", "evict"):
        return l.strip()
    kind = "req"
    if parts[0] in ("chunk", "dec", "req"):
        kind = parts[0]
        parts = parts[1:]
    if parts[0] == "raw":
        return f"{kind} {parts[1]}"
    kv = dict(p.split("=", 1) for p in parts[1:])
    return f"{kind} {frame(parts[0], kv).hex()}"

if __name__ == "__main__":
    src = open(sys.argv[1]).read().splitlines() if len(sys.argv) > 1 else sys.stdin.read().splitlines()
    for l in src:
        o = line(l)
        if o:
            print(o)
