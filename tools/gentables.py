#!/usr/bin/env python3
"""
gentables.py [repo]  — the translator half of the tie.

Reads the tables and literals of memc-rs *from the source as it is now* and writes them as Lean data to
lean/MemcVerif/Generated/Tables.lean; lean/MemcVerif/Proofs/TablesTie.lean proves (kernel evaluation) that the hand-written
model uses exactly these values. Extracted: the `Command` enum (opcodes), the dispatch of `parse_request` (which opcodes go
to which per-opcode parser, which are 'not supported', which are rejected), `Magic`, the `CacheError` codes and their
`to_static_string` texts, the literals of `request_valid` (extras, key length), `OpCodeMax`, the crate version, the scratch-buffer
size of `skip_bytes`, the operators of the codec's size tests, the rules of `MemcStore::add_delta`.

A section the extractor cannot recognise (the source was restructured) becomes `none`: the corresponding theorem is then
vacuously true and the evidence says "tie not established for <section>" — a restructuring is not a violation. A section
that IS recognised and carries a different value makes the theorem false: the obligation no longer checks.
"""
import json, os, re, sys

repo = sys.argv[1] if len(sys.argv) > 1 else os.environ.get("VERIF_REPO", "/repo")
ROOT = os.path.dirname(os.path.dirname(os.path.abspath(__file__)))
OUT = os.path.join(ROOT, "lean", "MemcVerif", "Generated", "Tables.lean")
src = lambda p: open(os.path.join(repo, "memcrs", p)).read()
status = {}


def strip_comments(s):
    s = re.sub(r"/\*.*?\*/", "", s, flags=re.S)
    return re.sub(r"//[^\n]*", "", s)


def num(x):
    x = x.strip().replace("_", "")
    return int(x, 16) if x.lower().startswith("0x") else int(x)


def enum_body(text, name):
    m = re.search(r"pub\s+enum\s+" + name + r"\s*\{(.*?)\}", text, flags=re.S)
    if not m:
        return None
    out = []
    for part in m.group(1).split(","):
        part = part.strip()
        if not part:
            continue
        mm = re.fullmatch(r"(\w+)\s*=\s*(0[xX][0-9a-fA-F_]+|\d+)", part)
        if not mm:
            return None
        out.append((mm.group(1), num(mm.group(2))))
    return out


def section(name, f):
    try:
        v = f()
    except Exception:
        v = None
    status[name] = v is not None
    return v


def commands():
    return enum_body(strip_comments(src("src/protocol/binary.rs")), "Command")


def magic():
    e = dict(enum_body(strip_comments(src("src/protocol/binary.rs")), "Magic"))
    return (e["Request"], e["Response"])


GROUPS = {"parse_get_request": 0, "parse_append_prepend_request": 1, "parse_set_request": 2, "parse_delete_request": 3,
          "parse_inc_dec_request": 4, "parse_header_only_request": 5, "parse_flush_request": 6}


def dispatch():
    cmds = dict(commands())
    text = strip_comments(src("src/protocol/binary_codec.rs"))
    a = text.index("fn parse_request")
    a = text.index("FromPrimitive::from_u8(self.header.opcode)", a)
    a = text.index("{", a) + 1
    # the arms up to the `None =>` arm
    b = text.index("None =>", a)
    body = text[a:b]
    out = []
    # an arm: alternatives `Some(binary::Command::X) | ...` followed by `=>` and its expression
    pos = 0
    arm_re = re.compile(r"((?:\s*\|?\s*Some\(binary::Command::\w+\))+)\s*=>", re.S)
    arms = list(arm_re.finditer(body))
    if not arms:
        return None
    for i, m in enumerate(arms):
        names = re.findall(r"Command::(\w+)", m.group(1))
        expr = body[m.end():(arms[i + 1].start() if i + 1 < len(arms) else len(body))]
        g = None
        for fn, idx in GROUPS.items():
            if re.search(r"self\." + fn + r"\(", expr):
                g = idx if g is None else -1
        if g is None and "BinaryRequest::NotSupported" in expr:
            g = 7
        if g is None and re.search(r"\bErr\(", expr):
            g = 8
        if g is None or g < 0:
            return None
        for n in names:
            out.append((cmds[n], g))
    return sorted(out)


def errors():
    text = strip_comments(src("src/cache/error.rs"))
    variants = enum_body(text, "CacheError")
    statics = dict(re.findall(r'static\s+(\w+)\s*:\s*&str\s*=\s*"([^"\\]*)"\s*;', text))
    texts = {}
    for m in re.finditer(r'CacheError::(\w+)\s*=>\s*(?:"([^"\\]*)"|(\w+))\s*,', text):
        texts[m.group(1)] = m.group(2) if m.group(2) is not None else statics[m.group(3)]
    return [(code, list(texts[name].encode())) for name, code in variants]


def limits():
    text = strip_comments(src("src/protocol/binary_codec.rs"))
    a = text.index("fn request_valid")
    body = text[a:a + 900]
    e = re.search(r"self\.header\.extras_length\s*>\s*(\d+)", body)
    k = re.search(r"self\.header\.key_length\s*>\s*(\d+)", body)
    return (int(e.group(1)), int(k.group(1)))


def opcode_max():
    return dict(commands())["OpCodeMax"]


def version():
    t = open(os.path.join(repo, "memcrs", "Cargo.toml")).read()
    pkg = t[t.index("[package]"):]
    nxt = pkg.find("\n[", 1)
    pkg = pkg if nxt < 0 else pkg[:nxt]
    v = re.search(r'^version\s*=\s*"([^"]+)"', pkg, flags=re.M).group(1)
    if "crate_version!()" not in src("src/version.rs"):
        return None
    return list(v.encode())


def skip_buf():
    text = strip_comments(src("src/protocol/binary_connection.rs"))
    a = text.index("fn skip_bytes")
    m = re.search(r"let\s+buffer_size\s*=\s*([0-9_]+)\s*\*\s*([0-9_]+)\s*;", text[a:a + 600])
    return num(m.group(1)) * num(m.group(2))


def size_tests():
    """every comparison of the announced body length with the item size limit in the codec: 0 for `>`, 1 for `>=`, 2 for anything else"""
    text = strip_comments(src("src/protocol/binary_codec.rs"))
    ops = re.findall(r"self\.header\.body_length\s*(>=|>|<=|<|==|!=)\s*self\.item_size_limit", text)
    if not ops:
        return None
    return [0 if o == ">" else 1 if o == ">=" else 2 for o in ops]


def delta_rules():
    """`MemcStore::add_delta`: (the expiration value that forbids creation, 1 if it is compared with `!=` in the creating
    branch; 1 if incr is `wrapping_add`; 1 if decr is 'delta > value => 0, else value - delta')"""
    text = strip_comments(src("src/memcache/store.rs"))
    a = text.index("fn add_delta")
    body = text[a:a + 3500]
    m = re.search(r"if\s+header\.get_expiration\(\)\s*(!=|==)\s*(0[xX][0-9a-fA-F_]+|\d+)\s*\{", body)
    if not m:
        return None
    incr = re.search(r"if\s+increment\s*\{\s*value\s*=\s*value\.(\w+)\(delta\.delta\)\s*;", body)
    decr = re.search(r"else\s+if\s+delta\.delta\s*>\s*value\s*\{\s*value\s*=\s*0\s*;\s*\}\s*else\s*\{\s*value\s*-=\s*delta\.delta\s*;", body)
    if not incr:
        return None
    return (num(m.group(2)), 1 if m.group(1) == "!=" else 0, 1 if incr.group(1) == "wrapping_add" else 0, 1 if decr else 0)


def lean_opt(v, f):
    return "none" if v is None else "some " + f(v)


pair = lambda p: f"({p[0]}, {p[1]})"
lst = lambda l, f=str: "[" + ", ".join(f(x) for x in l) + "]"

c = section("commands", commands)
d = section("dispatch", dispatch)
m = section("magic", magic)
e = section("errors", errors)
l = section("limits", limits)
o = section("opcode_max", opcode_max)
v = section("version", version)
sb = section("skip_buf", skip_buf)
szt = section("size_tests", size_tests)
dr = section("delta_rules", delta_rules)

out = f'''/-!
GENERATED by tools/gentables.py from the memc-rs source on every run of a check — do not edit.
`none` = the extractor did not recognise that part of the source (the tie for it is then not established).
-/
namespace Memc.Gen

/-- `protocol/binary.rs` `enum Command`: the opcode values in declaration order -/
def opcodes : Option (List Nat) := {lean_opt(c, lambda c: lst([x[1] for x in c]))}

/-- `parse_request`: (opcode, parser) — 0 get, 1 append/prepend, 2 set/add/replace, 3 delete, 4 incr/decr, 5 header only,
    6 flush, 7 answered 'not supported', 8 rejected -/
def dispatch : Option (List (Nat × Nat)) := {lean_opt(d, lambda d: lst(d, pair))}

/-- `enum Magic`: (Request, Response) -/
def magic : Option (Nat × Nat) := {lean_opt(m, pair)}

/-- `cache/error.rs`: (code, `to_static_string` as bytes) in declaration order -/
def errors : Option (List (Nat × List UInt8)) := {lean_opt(e, lambda e: lst(e, lambda p: f"({p[0]}, {lst(p[1])})"))}

/-- `request_valid`: (largest extras length, largest key length) accepted -/
def limits : Option (Nat × Nat) := {lean_opt(l, pair)}

/-- `Command::OpCodeMax` -/
def opcodeMax : Option Nat := {lean_opt(o, str)}

/-- crate version (`MEMCRS_VERSION = crate_version!()`), as bytes -/
def version : Option (List UInt8) := {lean_opt(v, lst)}

/-- `skip_bytes`: size of the scratch buffer of the discard loop -/
def skipBuf : Option Nat := {lean_opt(sb, str)}

/-- every comparison `self.header.body_length OP self.item_size_limit` of the codec: 0 = `>`, 1 = `>=`, 2 = another operator -/
def sizeTests : Option (List Nat) := {lean_opt(szt, lst)}

/-- `MemcStore::add_delta`: (expiration value that forbids creation, 1 = it is tested with `!=` before creating, 1 = incr is
    `wrapping_add`, 1 = decr is 'delta > value ⇒ 0, else value − delta') -/
def deltaRules : Option (Nat × Nat × Nat × Nat) := {lean_opt(dr, lambda t: "(" + ", ".join(str(x) for x in t) + ")")}

end Memc.Gen
'''
os.makedirs(os.path.dirname(OUT), exist_ok=True)
old = open(OUT).read() if os.path.exists(OUT) else None
if old != out:
    open(OUT, "w").write(out)
print(json.dumps({"repo": repo, "sections": status, "changed": old != out}))
