#!/bin/bash
# soak.sh <first-seed> <last-seed> [parallel] : false-alarm soak — every quick check on the unchanged tree for a range of seeds.
# Meant for `vp run --with-repo -- tools/soak.sh 2 9 4` (uses $VP_RUN_REPO when set so that edits to /repo do not disturb it).
cd "$(dirname "$0")/.."
[ -n "${VP_RUN_REPO:-}" ] && export VERIF_REPO=$VP_RUN_REPO
A=$1; B=$2; J=${3:-4}
./check setup > soak-setup.log 2>&1 || { echo "SETUP FAILED"; tail -20 soak-setup.log; exit 1; }
: > soak.log
for s in $(seq $A $B); do
  printf "%s\n" C01 C02 C03 C04 C05 C06 C07 C08 C09 C10 C11 C12 C13 C14 C15 C16 C17 C18 C19 C20 | \
    xargs -P $J -I{} bash -c "o=\$(VERIF_SEED=$s ./check {} --tier quick 2>&1); rc=\$?; echo \"seed=$s {} rc=\$rc \$(echo \"\$o\" | grep -c VIOLATION) violations\" >> soak.log; if [ \$rc -ne 0 ]; then echo \"=== seed=$s {}\"; echo \"\$o\" | head -12; cp -r replays replays-$s-{} 2>/dev/null; fi"
done
echo "--- summary"; grep -c "rc=0" soak.log; grep -v "rc=0" soak.log
