#!/bin/bash
# thorough.sh [props...] : run the thorough tier of the given checks (default: all) on the unchanged tree, two at a time; timing + verdict
cd "$(dirname "$0")/.."
[ -n "${VP_RUN_REPO:-}" ] && export VERIF_REPO=$VP_RUN_REPO
./check setup > thorough-setup.log 2>&1 || { echo "SETUP FAILED"; tail -20 thorough-setup.log; exit 1; }
PROPS="${@:-C01 C02 C03 C04 C05 C06 C07 C08 C09 C10 C11 C12 C13 C14 C15 C16 C17 C18 C19 C20}"
: > thorough.log
printf "%s\n" $PROPS | xargs -P 2 -I{} bash -c "t0=\$(date +%s); o=\$(./check {} --tier thorough 2>&1); rc=\$?; echo \"{} rc=\$rc \$(( \$(date +%s) - t0 ))s \$(echo \"\$o\" | grep -c VIOLATION) violations\" >> thorough.log; if [ \$rc -ne 0 ]; then echo \"=== {}\"; echo \"\$o\" | grep -v KNOWN | head -12; cp -r replays replays-{} 2>/dev/null; fi"
echo "--- summary"; cat thorough.log
