#!/bin/bash
# seed.sh <Cxx> <mN> <outdir-of-agent> <worktree> <demo-test-name> : verify a sub-agent's mutation in the scratch worktree,
# run our checks against it on /repo, undo, and file it under /verif/seeded/<Cxx>-<mN>/
set -u
P=$1; M=$2; OUT=$3; WT=$4; DEMO=$5; shift 5
CHECKS="${@:-$P}"
D=/verif/seeded/$P-$M
mkdir -p $D
cp $OUT/$M/patch.diff $D/patch.diff; cp $OUT/$M/demo.rs $D/demo.rs; cp $OUT/$M/README.md $D/README.agent.md 2>/dev/null
[ -e $WT/.git ] || { rm -rf $WT; git -C /repo worktree prune; git -C /repo worktree add -q --detach $WT HEAD; }
cd $WT && git checkout -q -- . && git clean -fdq -e target
# 1. baseline: demo passes without the patch
mkdir -p $WT/memcrs/tests; cp $D/demo.rs $WT/memcrs/tests/$DEMO.rs
( cd $WT/memcrs && CARGO_NET_OFFLINE=true cargo test --offline --test $DEMO 2>&1 | grep -E "^test result|panicked|error" | head -5 ) > $D/demo_without.txt
# 2. with the patch: suite passes, demo fails
git apply $D/patch.diff || { echo "PATCH DOES NOT APPLY"; exit 3; }; mkdir -p $WT/memcrs/tests; cp $D/demo.rs $WT/memcrs/tests/$DEMO.rs
( cd $WT/memcrs && CARGO_NET_OFFLINE=true cargo test --offline --lib 2>&1 | grep -E "^test result" ) > $D/suite_with.txt
( cd $WT/memcrs && CARGO_NET_OFFLINE=true cargo test --offline --test $DEMO 2>&1 | grep -E "^test result|panicked|error" | head -8 ) > $D/demo_with.txt
git checkout -q -- . && git clean -fdq -e target
echo "--- demo without patch:"; cat $D/demo_without.txt; echo "--- suite with patch:"; cat $D/suite_with.txt; echo "--- demo with patch:"; cat $D/demo_with.txt
# 3. our checks against it
cd /repo && git apply $D/patch.diff || { echo "PATCH DOES NOT APPLY TO /repo"; exit 3; }
cd /verif
: > $D/checks.txt
for c in $CHECKS; do
  echo "=== ./check $c" >> $D/checks.txt
  ./check $c >> $D/checks.txt 2>&1; echo "rc=$?" >> $D/checks.txt
done
git -C /repo checkout -- .
grep -E "^===|^VIOLATION|^KNOWN|^rc=|^  " $D/checks.txt | cut -c1-260
python3 - "$P" "$M" "$D" "$CHECKS" <<'PY'
import sys, json, re
P, M, D, checks = sys.argv[1:5]
txt = open(f"{D}/checks.txt").read()
res = {}
cur = None
for l in txt.splitlines():
    m = re.match(r"=== ./check (\S+)", l)
    if m: cur = m.group(1); res[cur] = {"violation_lines": 0, "no_input": 0}
    elif l.startswith("VIOLATION") and cur:
        res[cur]["violation_lines"] += 1
        if l.rstrip().endswith("no-failing-input-found"): res[cur]["no_input"] += 1
    elif l.startswith("rc=") and cur: res[cur]["rc"] = int(l[3:])
readme = open(f"{D}/README.agent.md").read() if __import__("os").path.exists(f"{D}/README.agent.md") else ""
meta = {"id": f"{P}-{M}", "breaks_property": P, "source": "independent sub-agent given only the property text and a scratch worktree",
        "needs_to_manifest": "see README.agent.md", "confirmed": {"suite_with_patch": open(f"{D}/suite_with.txt").read().strip(),
        "demo_without_patch": open(f"{D}/demo_without.txt").read().strip()[:300], "demo_with_patch": open(f"{D}/demo_with.txt").read().strip()[:600]},
        "ran": [f"./check {c}" for c in checks.split()], "results": res}
json.dump(meta, open(f"{D}/meta.json", "w"), indent=1)
PY
