#!/usr/bin/env python3
"""regenerate the table of seeded changes in DESIGN.md (between the seeded-table markers) from seeded/*/meta.json"""
import json, os, re
V = "/verif"
desc = json.load(open(f"{V}/seeded/descriptions.json"))
rows = []
ids = sorted(d for d in os.listdir(f"{V}/seeded") if os.path.exists(f"{V}/seeded/{d}/meta.json"))
tot = tgt_input = tgt_any = any_input = 0
for i in ids:
    m = json.load(open(f"{V}/seeded/{i}/meta.json"))
    P = i.split("-")[0]
    res = m.get("results", {})
    cells = []
    for c, r in res.items():
        k = "input" if r.get("violation_lines", 0) > r.get("no_failing_input", r.get("no_input", 0)) else ("no-input" if r.get("violation_lines", 0) else "passes")
        cells.append(f"{c}: {k}")
    tot += 1
    t = res.get(P, {})
    ti = t.get("violation_lines", 0) > t.get("no_failing_input", t.get("no_input", 0))
    tgt_input += ti
    tgt_any += t.get("violation_lines", 0) > 0
    any_input += any(r.get("violation_lines", 0) > r.get("no_failing_input", r.get("no_input", 0)) for r in res.values())
    rows.append(f"| {i} | {desc.get(i, '(see README.agent.md)')} | {', '.join(cells)} |")
head = "| id | change (and what it needs to manifest) | checks run → result |\n|---|---|---|\n"
summary = (f"\n{tot} changes; the check of the property the change was written against reports {tgt_any} of them, {tgt_input} with a concrete "
           f"counterexample; {any_input} are reported with a concrete counterexample by at least one of the checks run against them.\n")
s = open(f"{V}/DESIGN.md").read()
a, b = s.index("<!-- seeded-table-begin -->"), s.index("<!-- seeded-table-end -->")
s = s[:a] + "<!-- seeded-table-begin -->\n" + head + "\n".join(rows) + "\n" + summary + s[b:]
open(f"{V}/DESIGN.md", "w").write(s)
print(summary)
