#!/usr/bin/env python3
"""
pmatrix.py [-j N] [--tier quick] [id ...]   (default: every seeded/<id>)

Runs the checks against seeded changes in parallel WITHOUT touching /repo: each of N workers owns a copy of /verif
(/tmp/vx_<w>) and a scratch worktree of /repo (/tmp/mx_<w>); for every seeded change it resets the worktree, applies
seeded/<id>/patch.diff, runs `VERIF_REPO=/tmp/mx_<w> ./check <P>` (P = the target property plus those listed in
seeded/<id>/also.txt) in its copy, and records the outcome in seeded/<id>/{checks.txt,meta.json}.
The registered checks themselves always run in /verif against /repo; this tool only measures what they detect.
"""
import json, os, re, subprocess, sys, threading, queue, shutil

VERIF = "/verif"


def sh(cmd, **kw):
    return subprocess.run(cmd, shell=True, stdout=subprocess.PIPE, stderr=subprocess.STDOUT, text=True, **kw)


def worker(w, q, tier, lock):
    vx, mx = f"/tmp/vx_{os.getpid()}_{w}", f"/tmp/mx_{os.getpid()}_{w}"
    with lock:   # git worktree add is not safe to run concurrently
        sh(f"git -C /repo worktree remove --force {mx}; rm -rf {mx}; git -C /repo worktree prune; git -C /repo worktree add -q --detach {mx} HEAD")
    os.makedirs(vx, exist_ok=True)
    sh(f"rsync -a --delete --exclude .git --exclude replays --exclude '.work/C*' --exclude .work/repo --exclude .work/build.lock {VERIF}/ {vx}/")
    while True:
        try:
            id_ = q.get_nowait()
        except queue.Empty:
            break
        d = f"{VERIF}/seeded/{id_}"
        P = id_.split("-")[0]
        also = open(f"{d}/also.txt").read().split() if os.path.exists(f"{d}/also.txt") else []
        sh(f"git -C {mx} checkout -q -- . && git -C {mx} clean -fdq -e target")
        r = sh(f"git -C {mx} apply {d}/patch.diff")
        if r.returncode != 0:
            with lock:
                print(id_, "PATCH-FAILS", r.stdout[:200], flush=True)
            continue
        txt = ""
        for c in [P] + also:
            r = sh(f"cd {vx} && VERIF_REPO={mx} timeout 1500 ./check {c} --tier {tier}")
            txt += f"=== ./check {c}\n{r.stdout}rc={r.returncode}\n"
        open(f"{d}/checks.txt", "w").write(txt.replace(vx, VERIF))
        res, cur = {}, None
        for l in txt.splitlines():
            m = re.match(r"=== ./check (\S+)", l)
            if m:
                cur = m.group(1)
                res[cur] = {"violation_lines": 0, "no_failing_input": 0, "first": None}
            elif l.startswith("VIOLATION") and cur:
                res[cur]["violation_lines"] += 1
                if l.rstrip().endswith("no-failing-input-found"):
                    res[cur]["no_failing_input"] += 1
            elif l.startswith("  ") and cur and res[cur]["first"] is None:
                res[cur]["first"] = l.strip()[:300]
            elif l.startswith("rc=") and cur:
                res[cur]["rc"] = int(l[3:])
        mp = f"{d}/meta.json"
        meta = json.load(open(mp)) if os.path.exists(mp) else {"id": id_, "breaks_property": P}
        meta.setdefault("source", "independent sub-agent given only the property text and a scratch worktree of /repo")
        meta.setdefault("needs_to_manifest", "see README.agent.md (written by the sub-agent)")
        meta["ran"] = [f"git apply seeded/{id_}/patch.diff (scratch worktree of /repo; equivalent to applying it to /repo)",
                       *[f"./check {c}" for c in [P] + also], "worktree reset"]
        meta["results"] = res
        tgt = res.get(P, {})
        meta["detected_by_target_check"] = tgt.get("rc") == 1
        meta["with_concrete_input"] = tgt.get("rc") == 1 and tgt.get("violation_lines", 0) > tgt.get("no_failing_input", 0)
        json.dump(meta, open(mp, "w"), indent=1)
        with lock:
            print(id_, {c: (r.get("rc"), "input" if r["violation_lines"] > r["no_failing_input"] else ("no-input" if r["violation_lines"] else "-")) for c, r in res.items()}, flush=True)
    with lock:
        sh(f"git -C /repo worktree remove --force {mx}; rm -rf {mx} {vx}; git -C /repo worktree prune")


def main():
    a = sys.argv[1:]
    j, tier, ids = 4, "quick", []
    while a:
        x = a.pop(0)
        if x == "-j":
            j = int(a.pop(0))
        elif x == "--tier":
            tier = a.pop(0)
        else:
            ids.append(x)
    if not ids:
        ids = sorted(x for x in os.listdir(f"{VERIF}/seeded") if os.path.exists(f"{VERIF}/seeded/{x}/patch.diff"))
    q = queue.Queue()
    for i in ids:
        q.put(i)
    lock = threading.Lock()
    ths = [threading.Thread(target=worker, args=(w, q, tier, lock)) for w in range(min(j, len(ids)))]
    for t in ths:
        t.start()
    for t in ths:
        t.join()


if __name__ == "__main__":
    main()
