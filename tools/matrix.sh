#!/bin/bash
# matrix.sh : apply every seeded mutation to /repo in turn, run the target property's check (plus any extra checks
# listed in seeded/<id>/also.txt), restore /repo, and record the outcome in seeded/<id>/meta.json
cd /verif
for d in seeded/*/; do
  id=$(basename $d); P=${id%%-*}
  [ -f $d/patch.diff ] || continue
  also=$(cat $d/also.txt 2>/dev/null)
  git -C /repo checkout -q -- . ; git -C /repo apply /verif/$d/patch.diff || { echo "$id PATCH-FAILS"; continue; }
  : > $d/checks.txt
  for c in $P $also; do
    echo "=== ./check $c" >> $d/checks.txt
    timeout 900 ./check $c >> $d/checks.txt 2>&1; echo "rc=$?" >> $d/checks.txt
  done
  git -C /repo checkout -q -- .
  python3 - "$id" "$P" "$d" "$P $also" <<'PY'
import sys, json, re, os
id_, P, D, checks = sys.argv[1:5]
txt = open(f"{D}/checks.txt").read()
res = {}; cur = None
for l in txt.splitlines():
    m = re.match(r"=== ./check (\S+)", l)
    if m: cur = m.group(1); res[cur] = {"violation_lines": 0, "no_failing_input": 0, "first": None}
    elif l.startswith("VIOLATION") and cur:
        res[cur]["violation_lines"] += 1
        if l.rstrip().endswith("no-failing-input-found"): res[cur]["no_failing_input"] += 1
    elif l.startswith("  ") and cur and res[cur]["first"] is None: res[cur]["first"] = l.strip()[:300]
    elif l.startswith("rc=") and cur: res[cur]["rc"] = int(l[3:])
meta = json.load(open(f"{D}/meta.json")) if os.path.exists(f"{D}/meta.json") else {"id": id_, "breaks_property": P}
meta.setdefault("source", "independent sub-agent given only the property text and a scratch worktree of /repo")
meta.setdefault("needs_to_manifest", "see README.agent.md (written by the sub-agent)")
meta["ran"] = [f"git -C /repo apply seeded/{id_}/patch.diff", *[f"./check {c}" for c in checks.split()], "git -C /repo checkout -- ."]
meta["results"] = res
tgt = res.get(P, {})
meta["detected_by_target_check"] = tgt.get("rc") == 1
meta["with_concrete_input"] = tgt.get("rc") == 1 and tgt.get("violation_lines", 0) > tgt.get("no_failing_input", 0)
json.dump(meta, open(f"{D}/meta.json", "w"), indent=1)
print(id_, {c: (r.get("rc"), "input" if r["violation_lines"] > r["no_failing_input"] else ("no-input" if r["violation_lines"] else "-")) for c, r in res.items()})
PY
done
git -C /repo checkout -q -- .
