import MemcVerif.Proofs.Cmds
import MemcVerif.Proofs.Policy
/-!
# C06 — add / replace / append / prepend

For every store state, clock reading, key and operand: presence is *visibility* (`vis`): an expired
record counts as absent (it is collected by the command's own `get`).
-/
namespace Memc
open MemStore

/-- add on a present key: 'key exists', and the store is unchanged field by field -/
theorem C06_add_present (s : MemStore) (now : Nat) (k : Key) (r x : Record) (h : s.vis now k = some x) :
    applyOp s now (.add k r) = (s, .err .keyExists) := by
  simp [applyOp, Cmd.add, memOps, get_vis_some h, Res.ofCas]

/-- add on an absent (never stored, deleted, flushed or expired) key stores exactly the operand -/
theorem C06_add_absent (s : MemStore) (now : Nat) (k : Key) (v : Bytes) (f ttl : Nat) (h : s.vis now k = none) :
    (applyOp s now (.add k (Record.new v 0 f ttl))).2 = .stored s.casId ∧
    (applyOp s now (.add k (Record.new v 0 f ttl))).1.mem.lookup k = some ⟨⟨now, s.casId, f, ttl⟩, v⟩ := by
  obtain ⟨h2, _⟩ := get_vis_none h
  have hc := get_casId s now k
  simp only [applyOp, Cmd.add, memOps]
  rcases hg : s.get now k with ⟨s', res⟩
  rw [hg] at h2 hc; simp only at h2 hc; subst h2
  simp only
  rw [set_cas0 _ _ _ _ (by simp [Record.new, Meta.new])]
  simp [Res.ofCas, hc, Mem.lookup_insert_self, stamp, Record.new, Meta.new]

/-- replace on an absent key: 'not found', nothing stored -/
theorem C06_replace_absent (s : MemStore) (now : Nat) (k : Key) (r : Record) (h : s.vis now k = none) :
    (applyOp s now (.replace k r)).2 = .err .notFound ∧
    (applyOp s now (.replace k r)).1.mem.lookup k = none := by
  obtain ⟨h2, h3⟩ := get_vis_none h
  simp only [applyOp, Cmd.replace, memOps]
  rcases hg : s.get now k with ⟨s', res⟩
  rw [hg] at h2 h3; simp only at h2 h3; subst h2
  simp [Res.ofCas, h3]

/-- replace on a present key (no CAS) stores exactly the operand -/
theorem C06_replace_present (s : MemStore) (now : Nat) (k : Key) (v : Bytes) (f ttl : Nat) (x : Record)
    (h : s.vis now k = some x) :
    (applyOp s now (.replace k (Record.new v 0 f ttl))).2 = .stored s.casId ∧
    (applyOp s now (.replace k (Record.new v 0 f ttl))).1.mem.lookup k = some ⟨⟨now, s.casId, f, ttl⟩, v⟩ := by
  simp only [applyOp, Cmd.replace, memOps, get_vis_some h]
  rw [set_cas0 _ _ _ _ (by simp [Record.new, Meta.new])]
  simp [Res.ofCas, Mem.lookup_insert_self, stamp, Record.new, Meta.new]

/-- append on a present key: value' = old ++ suffix, flags and TTL kept, new CAS acknowledged;
    `cas` is 0 or the item's current CAS -/
theorem C06_append_value (s : MemStore) (now : Nat) (k : Key) (suffix : Bytes) (cas : Nat) (x : Record)
    (h : s.vis now k = some x) (hc : cas = 0 ∨ cas = x.header.cas) :
    (applyOp s now (.append k (Record.new suffix cas 0 0))).2 = .stored s.casId ∧
    (applyOp s now (.append k (Record.new suffix cas 0 0))).1.mem.lookup k
      = some ⟨⟨now, s.casId, x.header.flags, x.header.ttl⟩, x.value ++ suffix⟩ := by
  simp only [applyOp, Cmd.append, memOps, get_vis_some h]
  have hl := vis_lookup h
  rcases hc with hc | hc
  · subst hc
    rw [set_cas0 _ _ _ _ (by simp [Record.new, Meta.new])]
    simp [Res.ofCas, Mem.lookup_insert_self, stamp, Record.new, Meta.new]
  · by_cases h0 : cas = 0
    · subst h0
      rw [set_cas0 _ _ _ _ (by simp [Record.new, Meta.new])]
      simp [Res.ofCas, Mem.lookup_insert_self, stamp, Record.new, Meta.new]
    · rw [set_match _ _ _ _ x (by simpa [Record.new, Meta.new] using h0) hl (by simp [Record.new, Meta.new, hc])]
      simp [Res.ofCas, Mem.lookup_insert_self, stamp, Record.new, Meta.new]

/-- prepend on a present key: value' = prefix ++ old, flags and TTL kept -/
theorem C06_prepend_value (s : MemStore) (now : Nat) (k : Key) (pre : Bytes) (cas : Nat) (x : Record)
    (h : s.vis now k = some x) (hc : cas = 0 ∨ cas = x.header.cas) :
    (applyOp s now (.prepend k (Record.new pre cas 0 0))).2 = .stored s.casId ∧
    (applyOp s now (.prepend k (Record.new pre cas 0 0))).1.mem.lookup k
      = some ⟨⟨now, s.casId, x.header.flags, x.header.ttl⟩, pre ++ x.value⟩ := by
  simp only [applyOp, Cmd.prepend, memOps, get_vis_some h]
  have hl := vis_lookup h
  rcases hc with hc | hc
  · subst hc
    rw [set_cas0 _ _ _ _ (by simp [Record.new, Meta.new])]
    simp [Res.ofCas, Mem.lookup_insert_self, stamp, Record.new, Meta.new]
  · by_cases h0 : cas = 0
    · subst h0
      rw [set_cas0 _ _ _ _ (by simp [Record.new, Meta.new])]
      simp [Res.ofCas, Mem.lookup_insert_self, stamp, Record.new, Meta.new]
    · rw [set_match _ _ _ _ x (by simpa [Record.new, Meta.new] using h0) hl (by simp [Record.new, Meta.new, hc])]
      simp [Res.ofCas, Mem.lookup_insert_self, stamp, Record.new, Meta.new]

/-- append / prepend on an absent key fail and store nothing -/
theorem C06_concat_absent (s : MemStore) (now : Nat) (k : Key) (r : Record) (h : s.vis now k = none) :
    (applyOp s now (.append k r)).2 = .err .notFound ∧ (applyOp s now (.append k r)).1.mem.lookup k = none ∧
    (applyOp s now (.prepend k r)).2 = .err .notFound ∧ (applyOp s now (.prepend k r)).1.mem.lookup k = none := by
  obtain ⟨h2, h3⟩ := get_vis_none h
  simp only [applyOp, Cmd.append, Cmd.prepend, memOps]
  rcases hg : s.get now k with ⟨s', res⟩
  rw [hg] at h2 h3; simp only at h2 h3; subst h2
  simp [Res.ofCas, h3]

/-- a rejected add / replace / append / prepend addressed to a present item leaves the whole store
    unchanged (value, flags, CAS, TTL, timestamp of every key) -/
theorem C06_rejected_unchanged (s : MemStore) (now : Nat) (k : Key) (r x : Record) (e : CacheError)
    (h : s.vis now k = some x) :
    ((applyOp s now (.add k r)).2 = .err e → (applyOp s now (.add k r)).1 = s) ∧
    ((applyOp s now (.replace k r)).2 = .err e → (applyOp s now (.replace k r)).1 = s) ∧
    ((applyOp s now (.append k r)).2 = .err e → (applyOp s now (.append k r)).1 = s) ∧
    ((applyOp s now (.prepend k r)).2 = .err e → (applyOp s now (.prepend k r)).1 = s) := by
  have hset : ∀ (y : Record), (Res.ofCas (s.set now k y).2 = .err e) → (s.set now k y).1 = s := by
    intro y hy
    rcases set_self_cases s now k y with ⟨h1, _⟩ | ⟨h1, _⟩ | ⟨h1, _⟩
    · rw [h1]
    · rw [h1] at hy; simp [Res.ofCas] at hy
    · rw [h1] at hy; simp [Res.ofCas] at hy
  refine ⟨?_, ?_, ?_, ?_⟩ <;> simp only [applyOp, Cmd.add, Cmd.replace, Cmd.append, Cmd.prepend, memOps, get_vis_some h]
  · intro _; trivial
  · exact hset _
  · exact hset _
  · exact hset _

/-- a rejected command addressed to an absent key stores nothing and changes no visible item -/
theorem C06_rejected_absent_invisible (s : MemStore) (now : Nat) (k k' : Key) (r : Record) :
    ((applyOp s now (.replace k r)).2 = .err .notFound →
      (applyOp s now (.replace k r)).1.vis now k' = s.vis now k') := by
  intro hres
  cases hv : s.vis now k with
  | some x =>
    exfalso
    simp only [applyOp, Cmd.replace, memOps, get_vis_some hv] at hres
    rcases set_self_cases s now k r with ⟨h1, _⟩ | ⟨h1, _⟩ | ⟨h1, _⟩ <;> rw [h1] at hres <;> simp [Res.ofCas] at hres
  | none =>
    have hl := get_lookup s now k k'
    obtain ⟨h2, _⟩ := get_vis_none hv
    simp only [applyOp, Cmd.replace, memOps]
    rcases hg : s.get now k with ⟨s', res⟩
    rw [hg] at h2 hl; simp only at h2 hl; subst h2
    rw [vis_def s' now k', hl]
    by_cases hk : k' = k
    · subst hk; simp [hv]
    · simp only [hk, if_false]; rw [vis_def]

/-- the same for append and prepend: a 'not found' answer means nothing was stored and no visible item changed -/
theorem C06_rejected_absent_invisible_concat (s : MemStore) (now : Nat) (k k' : Key) (r : Record) :
    ((applyOp s now (.append k r)).2 = .err .notFound →
      (applyOp s now (.append k r)).1.vis now k' = s.vis now k') ∧
    ((applyOp s now (.prepend k r)).2 = .err .notFound →
      (applyOp s now (.prepend k r)).1.vis now k' = s.vis now k') := by
  cases hv : s.vis now k with
  | some x =>
    constructor <;> intro hres <;> exfalso
    · simp only [applyOp, Cmd.append, memOps, get_vis_some hv] at hres
      rcases set_self_cases s now k _
        with ⟨h1, _⟩ | ⟨h1, _⟩ | ⟨h1, _⟩ <;> rw [h1] at hres <;> simp [Res.ofCas] at hres
    · simp only [applyOp, Cmd.prepend, memOps, get_vis_some hv] at hres
      rcases set_self_cases s now k _
        with ⟨h1, _⟩ | ⟨h1, _⟩ | ⟨h1, _⟩ <;> rw [h1] at hres <;> simp [Res.ofCas] at hres
  | none =>
    have hl := get_lookup s now k k'
    obtain ⟨h2, _⟩ := get_vis_none hv
    constructor <;> intro _ <;> simp only [applyOp, Cmd.append, Cmd.prepend, memOps] <;>
      (rcases hg : s.get now k with ⟨s', res⟩
       rw [hg] at h2 hl; simp only at h2 hl; subst h2
       rw [vis_def s' now k', hl]
       by_cases hk : k' = k
       · subst hk; simp [hv]
       · simp only [hk, if_false]; rw [vis_def])

/-! ## Behind the eviction policy

The conditional stores do not depend on memory: whatever the limit, the accounted usage and the victims the request's
own eviction takes, the refusals are the same and store nothing, and an accepted append / prepend leaves old ++ suffix
(prefix ++ old) with the item's flags — even when the request's own eviction removes the item between its read and its
write. -/

/-- add on a present key behind the policy: 'key exists', nothing changes (neither store nor accounting) -/
theorem C06_add_present_under_policy (p : Policy) (now : Nat) (k : Key) (r x : Record) (h : p.inner.vis now k = some x) :
    Cmd.add polOps p now k r = (p, .error .keyExists) := by
  simp [Cmd.add, polOps, Policy.get, get_vis_some h]

/-- replace / append / prepend on an absent key behind the policy: 'not found', the accounting is not charged and the key
    stays absent -/
theorem C06_absent_under_policy (p : Policy) (now : Nat) (k : Key) (r : Record) (h : p.inner.vis now k = none) :
    ((Cmd.replace polOps p now k r).2 = .error .notFound ∧ (Cmd.replace polOps p now k r).1.usage = p.usage ∧
      (Cmd.replace polOps p now k r).1.inner.mem.lookup k = none) ∧
    ((Cmd.append polOps p now k r).2 = .error .notFound ∧ (Cmd.append polOps p now k r).1.usage = p.usage ∧
      (Cmd.append polOps p now k r).1.inner.mem.lookup k = none) ∧
    ((Cmd.prepend polOps p now k r).2 = .error .notFound ∧ (Cmd.prepend polOps p now k r).1.usage = p.usage ∧
      (Cmd.prepend polOps p now k r).1.inner.mem.lookup k = none) := by
  obtain ⟨h2, h3⟩ := get_vis_none h
  simp only [Cmd.replace, Cmd.append, Cmd.prepend, polOps, Policy.get]
  rcases hg : p.inner.get now k with ⟨s', res⟩
  rw [hg] at h2 h3; simp only at h2 h3; subst h2
  simp [h3]

/-- add on an absent key behind the policy stores exactly the operand, under any limit -/
theorem C06_add_absent_under_policy (p : Policy) (now : Nat) (k : Key) (v : Bytes) (f ttl : Nat)
    (h : p.inner.vis now k = none) :
    (Cmd.add polOps p now k (Record.new v 0 f ttl)).2 = .ok p.inner.casId ∧
    (Cmd.add polOps p now k (Record.new v 0 f ttl)).1.inner.mem.lookup k = some ⟨⟨now, p.inner.casId, f, ttl⟩, v⟩ := by
  obtain ⟨h2, _⟩ := get_vis_none h
  have hc := get_casId p.inner now k
  simp only [Cmd.add, polOps, Policy.get]
  rcases hg : p.inner.get now k with ⟨s', res⟩
  rw [hg] at h2 hc; simp only at h2 hc; subst h2
  simp only
  have hs := policy_set_cas0 { p with inner := s' } now k (Record.new v 0 f ttl) (by simp [Record.new, Meta.new])
  rcases hx : Policy.set { p with inner := s' } now k (Record.new v 0 f ttl) with ⟨p', res'⟩
  rw [hx] at hs; simp only at hs
  obtain ⟨hs1, hs2⟩ := hs
  subst hs1
  simp [hs2, hc, stamp, Record.new, Meta.new]

/-- append / prepend (no CAS) on a present key behind the policy: old ++ suffix resp. prefix ++ old with the item's flags
    and TTL, under any limit and for every choice of victims -/
theorem C06_concat_under_policy (p : Policy) (now : Nat) (k : Key) (operand : Bytes) (x : Record)
    (h : p.inner.vis now k = some x) :
    ((Cmd.append polOps p now k (Record.new operand 0 0 0)).2 = .ok p.inner.casId ∧
     (Cmd.append polOps p now k (Record.new operand 0 0 0)).1.inner.mem.lookup k
       = some ⟨⟨now, p.inner.casId, x.header.flags, x.header.ttl⟩, x.value ++ operand⟩) ∧
    ((Cmd.prepend polOps p now k (Record.new operand 0 0 0)).2 = .ok p.inner.casId ∧
     (Cmd.prepend polOps p now k (Record.new operand 0 0 0)).1.inner.mem.lookup k
       = some ⟨⟨now, p.inner.casId, x.header.flags, x.header.ttl⟩, operand ++ x.value⟩) := by
  have hg := get_vis_some h
  simp only [Cmd.append, Cmd.prepend, polOps, Policy.get, hg]
  constructor
  · have hs := policy_set_cas0 p now k
      { header := { x.header with cas := (Record.new operand 0 0 0).header.cas }, value := x.value ++ (Record.new operand 0 0 0).value }
      (by simp [Record.new, Meta.new])
    obtain ⟨hs1, hs2⟩ := hs
    refine ⟨hs1, ?_⟩
    rw [hs2]; simp [stamp, Record.new, Meta.new]
  · have hs := policy_set_cas0 p now k
      { header := { x.header with cas := (Record.new operand 0 0 0).header.cas }, value := (Record.new operand 0 0 0).value ++ x.value }
      (by simp [Record.new, Meta.new])
    obtain ⟨hs1, hs2⟩ := hs
    refine ⟨hs1, ?_⟩
    rw [hs2]; simp [stamp, Record.new, Meta.new]

/-- the hypotheses are satisfiable: a store holding a live item -/
example : (⟨[([1], ⟨⟨0, 1, 7, 0⟩, [65]⟩)], 2⟩ : MemStore).vis 5 [1] = some ⟨⟨0, 1, 7, 0⟩, [65]⟩ := by decide

end Memc

#print axioms Memc.C06_add_present
#print axioms Memc.C06_add_absent
#print axioms Memc.C06_replace_absent
#print axioms Memc.C06_replace_present
#print axioms Memc.C06_append_value
#print axioms Memc.C06_prepend_value
#print axioms Memc.C06_concat_absent
#print axioms Memc.C06_rejected_unchanged
#print axioms Memc.C06_rejected_absent_invisible
#print axioms Memc.C06_rejected_absent_invisible_concat
#print axioms Memc.C06_add_present_under_policy
#print axioms Memc.C06_absent_under_policy
#print axioms Memc.C06_add_absent_under_policy
#print axioms Memc.C06_concat_under_policy
