import MemcVerif.Proofs.Frames
import MemcVerif.Proofs.TablesTie
/-!
# C10 — no client input can crash, hang or bloat request processing

* **no crash**: every model function is total and every arithmetic/slicing step of the Rust code that can
  panic is guarded: the per-opcode parsers only run on requests for which the bytes they consume are
  present (`C10_parse_in_bounds`), `get_value_len` never underflows (`C10_value_len_safe`), counters use
  wrapping/saturating arithmetic in the model exactly where the repaired code does.
* **no hang**: `drain` is defined by well-founded recursion on `pmeasure` (each emitted event strictly
  decreases it — `decode1_emit_measure`), so the decode loop terminates for every byte string.
* **rejected headers are never executed** (`C10_rejected_*`).
* **memory**: the data retained between reads is below max(24, limit+1) bytes (`C10_buffer_logic`);
  the allocator's capacity behaviour is measured by the harness (partial, see DESIGN.md).
-/
namespace Memc

variable {σ : Type} (C : CacheOps σ)

/-- number of body octets the Rust parser of the opcode's group consumes (`split_to` / `get_uN` calls) -/
def parseNeeds (h : ReqHeader) : Nat :=
  match opGroup h.opcode with
  | .get | .delete => h.keyLen
  | .headerOnly | .unsupported | .invalid => 0
  | .flush => if h.extrasLen = 4 then 4 else 0
  | .append => h.keyLen + valueLen h
  | .delta => 20 + h.keyLen
  | .set => 8 + h.keyLen + valueLen h

theorem requestValid_bounds {h : ReqHeader} {kr : Bool} (hv : requestValid h kr = true) :
    h.extrasLen ≤ 20 ∧ h.keyLen ≤ 250 ∧ h.keyLen + h.extrasLen ≤ h.bodyLen ∧ (kr = true → h.keyLen ≠ 0) := by
  unfold requestValid at hv
  split at hv
  · simp at hv
  · split at hv
    · simp at hv
    · split at hv
      · simp at hv
      · split at hv
        · simp at hv
        · rename_i h1 h2 h3 h4
          refine ⟨by omega, by omega, by omega, ?_⟩
          intro hk hz
          apply h3; simp [hk, hz]

/-- whenever a request is produced, the bytes its parser slices off are all there: no `split_to`,
    `get_u32`, `get_u64` can run past the end of the body -/
theorem C10_parse_in_bounds (h : ReqHeader) (body : Bytes) (r : Req) (hlen : body.length = h.bodyLen)
    (hp : parseBody h body = some r) : parseNeeds h ≤ body.length := by
  unfold parseBody at hp
  unfold parseNeeds
  split at hp <;> rename_i hg <;> simp only [hg]
  · split at hp
    · simp at hp
    · rename_i hv; simp at hv; have := requestValid_bounds hv; omega
  · split at hp
    · simp at hp
    · rename_i hv; simp at hv; have := requestValid_bounds hv; omega
  · omega
  · split at hp
    · simp at hp
    · rename_i hv; simp at hv; have := requestValid_bounds hv
      split <;> omega
  · split at hp
    · simp at hp
    · rename_i hv; simp at hv; have := requestValid_bounds hv
      simp only [valueLen]; omega
  · split at hp
    · simp at hp
    · split at hp
      · simp at hp
      · omega
  · split at hp
    · simp at hp
    · split at hp
      · simp at hp
      · omega
  · omega
  · simp at hp

/-- `get_value_len` (`body_length - (key_length + extras_length)`) is only evaluated after `request_valid` -/
theorem C10_value_len_safe (h : ReqHeader) (kr : Bool) (hv : requestValid h kr = true) :
    h.keyLen + h.extrasLen ≤ h.bodyLen ∧ h.keyLen + h.extrasLen < 65536 := by
  have := requestValid_bounds hv; omega

/-- wrong magic, opcode ≥ 0x25, or non-zero data type: the connection is closed, nothing is produced -/
theorem C10_rejected_header (limit : Nat) (buf : Bytes) (hlen : HEADER_LEN ≤ buf.length)
    (hbad : (parseHeader buf).magic ≠ 0x80 ∨ (parseHeader buf).opcode ≥ 0x25 ∨ (parseHeader buf).dataType ≠ 0) :
    decode1 limit .idle buf = .emit .protoErr .dead [] := by
  apply decode1_bad_header limit buf hlen
  simp only [headerValid, OPCODE_MAX]
  rcases hbad with h | h | h
  · simp [h]
  · have : ¬ (parseHeader buf).opcode < 0x25 := by omega
    simp [this]
  · simp [h]

/-- key longer than 250, more than 20 extras bytes, a missing required key, a body shorter than key+extras,
    or an unknown opcode (0x1b, 0x1f): no request is produced for the implemented commands; the opcodes the
    server does not implement yield a `notSupported` request, which is answered but never executed -/
theorem C10_rejected_body (h : ReqHeader) (body : Bytes)
    (hbad : h.keyLen > 250 ∨ h.extrasLen > 20 ∨ h.bodyLen < h.keyLen + h.extrasLen ∨ opGroup h.opcode = .invalid
      ∨ (h.keyLen = 0 ∧ (opGroup h.opcode = .get ∨ opGroup h.opcode = .delete ∨ opGroup h.opcode = .set
          ∨ opGroup h.opcode = .append ∨ opGroup h.opcode = .delta))) :
    parseBody h body = none ∨ parseBody h body = some (.notSupported h) := by
  have hrv : ∀ kr, (h.keyLen > 250 ∨ h.extrasLen > 20 ∨ h.bodyLen < h.keyLen + h.extrasLen) → requestValid h kr = false := by
    intro kr hb
    unfold requestValid
    rcases hb with hb | hb | hb
    · by_cases he : h.extrasLen > 20 <;> simp [he, hb]
    · simp [hb]
    · by_cases he : h.extrasLen > 20
      · simp [he]
      · by_cases hk : h.keyLen > 250
        · simp [he, hk]
        · simp [he, hk, hb]
  have hkey : h.keyLen = 0 → requestValid h true = false := by
    intro hk
    unfold requestValid
    by_cases he : h.extrasLen > 20
    · simp [he]
    · simp [he, hk]
  have keyed : (opGroup h.opcode = .get ∨ opGroup h.opcode = .delete ∨ opGroup h.opcode = .set
      ∨ opGroup h.opcode = .append ∨ opGroup h.opcode = .delta) → requestValid h true = false := by
    intro hgk
    rcases hbad with hb | hb | hb | hb | ⟨hk, _⟩
    · exact hrv _ (Or.inl hb)
    · exact hrv _ (Or.inr (Or.inl hb))
    · exact hrv _ (Or.inr (Or.inr hb))
    · rcases hgk with g | g | g | g | g <;> rw [g] at hb <;> simp at hb
    · exact hkey hk
  have unkeyed : (opGroup h.opcode = .headerOnly ∨ opGroup h.opcode = .flush) → requestValid h false = false := by
    intro hgk
    rcases hbad with hb | hb | hb | hb | ⟨_, hb⟩
    · exact hrv _ (Or.inl hb)
    · exact hrv _ (Or.inr (Or.inl hb))
    · exact hrv _ (Or.inr (Or.inr hb))
    · rcases hgk with g | g <;> rw [g] at hb <;> simp at hb
    · rcases hgk with g | g <;> rw [g] at hb <;> simp at hb
  cases hg : opGroup h.opcode with
  | unsupported => right; simp [parseBody, hg]
  | invalid => left; simp [parseBody, hg]
  | get => left; simp [parseBody, hg, keyed (Or.inl hg)]
  | delete => left; simp [parseBody, hg, keyed (Or.inr (Or.inl hg))]
  | set => left; simp [parseBody, hg, keyed (Or.inr (Or.inr (Or.inl hg)))]
  | append => left; simp [parseBody, hg, keyed (Or.inr (Or.inr (Or.inr (Or.inl hg))))]
  | delta => left; simp [parseBody, hg, keyed (Or.inr (Or.inr (Or.inr (Or.inr hg))))]
  | headerOnly => left; simp [parseBody, hg, unkeyed (Or.inl hg)]
  | flush => left; simp [parseBody, hg, unkeyed (Or.inr hg)]

/-- what is not a request is not executed: a protocol error, an oversized request and an unimplemented
    opcode leave the store exactly as it was -/
theorem C10_not_executed (now : Nat) (s : σ) (h : ReqHeader) :
    (execEv C now s .protoErr).1 = s ∧ (execEv C now s .protoErr).2.1 = [] ∧
    (execEv C now s (.frame (.tooLarge h))).1 = s ∧ (execEv C now s (.frame (.notSupported h))).1 = s := by
  simp [execEv, isQuitQ, handleRequest]

/-- the data a connection retains between reads: fewer than 24 bytes while waiting for a header, fewer
    than the announced body (itself within the limit) while waiting for a body, nothing while discarding
    an oversized body or after an error -/
def PState.bufOK (limit : Nat) : PState → Bytes → Prop
  | .idle, buf => buf.length < HEADER_LEN
  | .hdr h, buf => buf.length < h.bodyLen ∧ h.bodyLen ≤ limit
  | .skipping _ _, buf => buf = []
  | .dead, buf => buf = []

theorem decode1_needMore_bufOK (limit : Nat) (st : PState) (buf : Bytes) (st' : PState) (buf' : Bytes)
    (hd : decode1 limit st buf = .needMore st' buf') : st'.bufOK limit buf' := by
  have hbody : ∀ (h : ReqHeader) (b : Bytes), bodyStep limit h b = .needMore st' buf' → st'.bufOK limit buf' := by
    intro h b hb
    rw [bodyStep_eq] at hb
    split at hb
    · split at hb
      · simp at hb
      · simp at hb; obtain ⟨rfl, rfl⟩ := hb; rfl
    · split at hb
      · rename_i h1 h2
        simp at hb; obtain ⟨rfl, rfl⟩ := hb
        exact ⟨h2, by omega⟩
      · split at hb <;> simp at hb
  cases st with
  | idle =>
    rw [decode1_idle] at hd
    split at hd
    · rename_i hl; simp at hd; obtain ⟨rfl, rfl⟩ := hd; exact hl
    · split at hd
      · simp at hd
      · exact hbody _ _ hd
  | hdr h => rw [decode1_hdr] at hd; exact hbody _ _ hd
  | skipping h n =>
    simp only [decode1] at hd
    split at hd
    · simp at hd
    · simp at hd; obtain ⟨rfl, rfl⟩ := hd; rfl
  | dead => simp only [decode1] at hd; simp at hd; obtain ⟨rfl, rfl⟩ := hd; rfl

/-- after every read, however long the input and whatever lengths its headers announce -/
theorem C10_buffer_logic (limit : Nat) (st : PState) (buf : Bytes) :
    (drain limit st buf).2.1.bufOK limit (drain limit st buf).2.2 := by
  fun_induction drain limit st buf with
  | case1 st buf st' buf' hd => exact decode1_needMore_bufOK limit st buf st' buf' hd
  | case2 st buf e st' buf' hd r ih => exact ih

theorem C10_retained_bytes_bounded (limit : Nat) (st : PState) (buf : Bytes) :
    (drain limit st buf).2.2.length < max HEADER_LEN (limit + 1) := by
  have := C10_buffer_logic limit st buf
  generalize (drain limit st buf).2.1 = st' at this
  generalize (drain limit st buf).2.2 = b at this
  cases st' <;> simp only [PState.bufOK, HEADER_LEN] at this ⊢
  · omega
  · omega
  · subst this; simp; omega
  · subst this; simp; omega

/-! ## the tables of this property are the source's (regenerated from /repo on every run: `tools/gentables.py`) -/

/-- the thresholds the model's `requestValid` applies (extras ≤ 20, key ≤ 250) are the literals of `request_valid` in
    `binary_codec.rs` as it is now -/
theorem C10_limits_are_the_sources : Holds Gen.limits (fun l =>
      requestValid { hdr0 with extrasLen := l.1, bodyLen := l.1 + 1 } true = true ∧
      requestValid { hdr0 with extrasLen := l.1 + 1, bodyLen := l.1 + 2 } true = false ∧
      requestValid { hdr0 with keyLen := l.2, bodyLen := l.2 } true = true ∧
      requestValid { hdr0 with keyLen := l.2 + 1, bodyLen := l.2 + 1 } true = false) := tie_limits

/-- `OpCodeMax` and the set of opcodes that reach a parser: every value of the opcode byte that `parse_request` does not
    dispatch is rejected by the model too, and every dispatched one goes to the same parser -/
theorem C10_opcode_table_is_the_sources :
    Holds Gen.opcodeMax (fun n => n = OPCODE_MAX) ∧
    Holds Gen.dispatch (fun t => t.all (fun p => (opGroup p.1).idx == p.2) = true) ∧
    Holds Gen.dispatch (fun t => (List.range 256).all (fun op => t.any (fun p => p.1 == op) || (opGroup op).idx == 8) = true) :=
  ⟨tie_opcode_max, tie_dispatch, tie_dispatch_complete⟩

end Memc

#print axioms Memc.requestValid_bounds
#print axioms Memc.C10_parse_in_bounds
#print axioms Memc.C10_value_len_safe
#print axioms Memc.C10_rejected_header
#print axioms Memc.C10_rejected_body
#print axioms Memc.C10_not_executed
#print axioms Memc.decode1_needMore_bufOK
#print axioms Memc.C10_buffer_logic
#print axioms Memc.C10_retained_bytes_bounded
#print axioms Memc.C10_limits_are_the_sources
#print axioms Memc.C10_opcode_table_is_the_sources
