import MemcVerif.Model.Conc
import MemcVerif.Proofs.Alone
import MemcVerif.Model.Ops
import MemcVerif.Proofs.Cmds
/-!
# C04 — read-modify-write commands (add / replace / append / prepend / incr / decr)

The full statement ("every concurrent history containing them is equivalent to a sequential one") is **false**
of the code and of the model: `MemcStore` implements each as `get` followed by an unrelated `set`. The
witnesses below are concrete two-thread schedules, kernel-evaluated; they are the recorded findings, one per
get→set window. What holds (`…_partial`): a command carrying the item's current CAS is guarded — if anything
mutated the item between its get and its set, the set is refused with 'key exists' and nothing is lost; and a
command whose calls run uninterrupted is exactly the sequential command.
-/
namespace Memc
open MemStore

def ctr (v : Nat) : Record := ⟨⟨0, 1, 0, 0⟩, toDec v⟩
def storeWith (r : Record) : MemStore := ⟨[([1], r)], 2⟩
def incr1 : CCmd := .delta [1] (Meta.new 0 0 0) 1 0 true

/-- two concurrent adds of an absent key are both acknowledged -/
theorem C04_add_add_both_succeed :
    let sys : Sys := ⟨MemStore.init, [{ todo := [.add [1] (Record.new [65] 0 0 0)] }, { todo := [.add [1] (Record.new [66] 0 0 0)] }]⟩
    (sys.run 0 [0, 1, 0, 1]).threads.map (·.results) = [[.stored 1], [.stored 2]] := by decide

/-- two concurrent increments by 1 of the counter 5 both return 6: one update is lost -/
theorem C04_incr_lost_update :
    let sys : Sys := ⟨storeWith (ctr 5), [{ todo := [incr1] }, { todo := [incr1] }]⟩
    (sys.run 0 [0, 0, 1, 1, 0, 1]).threads.map (·.results) = [[.counter 2 6], [.counter 3 6]] := by decide

/-- two concurrent appends: the first one's suffix is missing from the final value -/
theorem C04_append_lost :
    let sys : Sys := ⟨storeWith ⟨⟨0, 1, 0, 0⟩, [88]⟩, [{ todo := [.append [1] (Record.new [65] 0 0 0)] }, { todo := [.append [1] (Record.new [66] 0 0 0)] }]⟩
    ((sys.run 0 [0, 0, 1, 1, 0, 1]).store.mem.lookup [1]).map (·.value) = some [88, 66] := by decide

/-- a replace racing a delete resurrects the deleted item: the delete is acknowledged, then the item is back -/
theorem C04_replace_resurrects_deleted :
    let sys : Sys := ⟨storeWith ⟨⟨0, 1, 0, 0⟩, [88]⟩, [{ todo := [.replace [1] (Record.new [65] 0 0 0)] }, { todo := [.delete [1] 0] }]⟩
    (sys.run 0 [0, 0, 1, 0]).threads.map (·.results) = [[.stored 2], [.deleted]] ∧
    ((sys.run 0 [0, 0, 1, 0]).store.mem.lookup [1]).map (·.value) = some [65] := by decide

/-! ## what holds -/

/-- **CAS-guarded commands lose nothing**: a replace / append / prepend / incr / decr that carries the CAS it
    read and finds, at its store call, an item whose CAS has moved on is refused with 'key exists' and the store
    is unchanged — for every state the other clients may have produced in between -/
theorem C04_cas_guarded_rmw_partial (s : MemStore) (now : Nat) (k : Key) (rec y nr : Record) (hd : Meta) (d i n : Nat) (inc : Bool)
    (hl : s.mem.lookup k = some y) (hmoved : y.header.cas ≠ rec.header.cas) (hc : rec.header.cas ≠ 0)
    (hnr : nr.header.cas = rec.header.cas) (hhd : hd.cas = rec.header.cas) (hp : parseU64 rec.value = some n) :
    afterGet s now (.replace k nr) (some rec) = (s, .err .keyExists) ∧
    afterGet s now (.append k nr) (some rec) = (s, .err .keyExists) ∧
    afterGet s now (.prepend k nr) (some rec) = (s, .err .keyExists) ∧
    afterGet s now (.delta k hd d i inc) (some rec) = (s, .err .keyExists) := by
  have hm : ∀ (x : Record), x.header.cas = rec.header.cas → s.set now k x = (s, .error .keyExists) := by
    intro x hx
    exact set_mismatch s now k x y (by rw [hx]; exact hc) hl (by rw [hx]; exact hmoved)
  refine ⟨?_, ?_, ?_, ?_⟩
  · simp only [afterGet]; rw [hm nr hnr]; rfl
  · simp only [afterGet]; rw [hm _ (by simp [hnr])]; rfl
  · simp only [afterGet]; rw [hm _ (by simp [hnr])]; rfl
  · simp only [afterGet, hp]; rw [hm _ (by simp [hhd])]

/-- **uninterrupted = atomic**: a thread whose calls run back to back performs exactly the sequential
    command of `MemcStore` (the model the sequential theorems C05–C08 are about); shown here for `add` -/
theorem C04_contiguous_add (s : MemStore) (now : Nat) (k : Key) (r : Record) :
    let t : Thread := { todo := [.add k r] }
    let x1 := t.step s now
    let x2 := x1.2.step x1.1 now
    let x3 := x2.2.step x2.1 now
    x3.1 = (Cmd.add memOps s now k r).1 ∧
    x3.2.results = [resOfCas (Cmd.add memOps s now k r).2] := by
  intro t x1 x2 x3
  cases hg : s.getByKey k with
  | error e =>
    -- absent: get_by_key, then the store call, then nothing
    have h1 : x1 = (s, { todo := [], phase := .decided (.add k r) none }) := by
      simp [x1, t, Thread.step, CCmd.key, hg, Thread.afterFound, needsSet]
    have h2 : x2 = ((s.set now k r).1, { todo := [], phase := .idle, results := [resOfCas (s.set now k r).2] }) := by
      simp [x2, h1, Thread.step, afterGet]
    have h3 : x3 = x2 := by
      simp [x3, h2, Thread.step]
    rw [h3, h2]
    simp [Cmd.add, memOps, MemStore.get, hg]
  | ok snap =>
    have h1 : x1 = (s, { todo := [], phase := .snapped (.add k r) snap }) := by
      simp [x1, t, Thread.step, CCmd.key, hg]
    cases hx : (s.checkIfExpired now k snap).2 with
    | false =>
      -- present and live: 'key exists' after the second call
      have h2 : x2 = ((s.checkIfExpired now k snap).1, { todo := [], phase := .idle, results := [.err .keyExists] }) := by
        simp [x2, h1, Thread.step, CCmd.key, hx, Thread.afterFound, needsSet, afterGet]
      have h3 : x3 = x2 := by simp [x3, h2, Thread.step]
      rw [h3, h2]
      simp [Cmd.add, memOps, MemStore.get, hg, hx, resOfCas]
    | true =>
      -- expired: collected by the second call, stored by the third
      have h2 : x2 = ((s.checkIfExpired now k snap).1, { todo := [], phase := .decided (.add k r) none }) := by
        simp [x2, h1, Thread.step, CCmd.key, hx, Thread.afterFound, needsSet]
      have h3 : x3 = (((s.checkIfExpired now k snap).1.set now k r).1,
          { todo := [], phase := .idle, results := [resOfCas ((s.checkIfExpired now k snap).1.set now k r).2] }) := by
        simp [x3, h2, Thread.step, afterGet]
      rw [h3]
      simp [Cmd.add, memOps, MemStore.get, hg, hx]

/-- **uninterrupted = atomic, for every command kind**: a client whose (at most three) `Cache` calls run back to
    back — no call of another client in between — performs exactly the one-at-a-time command of the sequential
    model (`applyOp`: the model the theorems of C01, C02, C05–C08 are about): same store, same answer, and it is
    finished. So every non-atomic behaviour of add/replace/append/prepend/incr/decr needs a foreign call inside
    the command's get→set window (the classes of the known findings), and the sequential theorems are theorems
    about the concurrent model whenever commands do not overlap. -/
theorem C04_uninterrupted_is_sequential (s : MemStore) (now : Nat) (c : CCmd) :
    (Thread.runAlone 3 { todo := [c] } s now).1 = (applyOp s now c.toOp).1 ∧
    (Thread.runAlone 3 { todo := [c] } s now).2.results.map CRes.toRes = [(applyOp s now c.toOp).2] ∧
    (Thread.runAlone 3 { todo := [c] } s now).2.finished = true := by
  have gf : ∀ c : CCmd, (∀ k r, c ≠ .set k r) → (∀ k cas, c ≠ .delete k cas) → (∀ ttl, c ≠ .flush ttl) →
      (Thread.runAlone 3 { todo := [c] } s now).1 = (applyOp s now c.toOp).1 ∧
      (Thread.runAlone 3 { todo := [c] } s now).2.results.map CRes.toRes = [(applyOp s now c.toOp).2] ∧
      (Thread.runAlone 3 { todo := [c] } s now).2.finished = true := by
    intro c h1 h2 h3
    rw [runAlone_getFirst s now c h1 h2 h3]
    obtain ⟨e1, e2⟩ := afterGet_seq s now c h1 h2 h3
    exact ⟨e1, by simp [e2], by simp [Thread.finished]⟩
  cases c with
  | set k r =>
    rw [runAlone_set]
    refine ⟨by simp [CCmd.toOp, applyOp], ?_, by simp [Thread.finished]⟩
    simp only [CCmd.toOp, applyOp, List.map]
    cases (s.set now k r).2 <;> simp [resOfCas, Res.ofCas, CRes.toRes]
  | delete k cas =>
    rw [runAlone_delete]
    simp only [CCmd.toOp, applyOp_delete, List.map]
    refine ⟨trivial, ?_, by simp [Thread.finished]⟩
    cases (s.delete k cas).2 <;> simp [delRes, CRes.toRes]
  | flush ttl =>
    rw [runAlone_flush]
    simp [CCmd.toOp, applyOp, CRes.toRes, Thread.finished]
  | get k => exact gf _ (by intros; simp) (by intros; simp) (by intros; simp)
  | add k r => exact gf _ (by intros; simp) (by intros; simp) (by intros; simp)
  | replace k r => exact gf _ (by intros; simp) (by intros; simp) (by intros; simp)
  | append k r => exact gf _ (by intros; simp) (by intros; simp) (by intros; simp)
  | prepend k r => exact gf _ (by intros; simp) (by intros; simp) (by intros; simp)
  | delta k h d i inc => exact gf _ (by intros; simp) (by intros; simp) (by intros; simp)

/-- non-vacuity: an incr on a stored counter run alone is the sequential incr -/
example : (Thread.runAlone 3 { todo := [incr1] } (storeWith (ctr 7)) 0).2.results = [.counter 2 8] := by decide

end Memc

#print axioms Memc.C04_add_add_both_succeed
#print axioms Memc.C04_incr_lost_update
#print axioms Memc.C04_append_lost
#print axioms Memc.C04_replace_resurrects_deleted
#print axioms Memc.C04_cas_guarded_rmw_partial
#print axioms Memc.C04_contiguous_add
#print axioms Memc.C04_uninterrupted_is_sequential
