import MemcVerif.Model.Handler
import MemcVerif.Proofs.BE
import MemcVerif.Proofs.RespRT
import MemcVerif.Proofs.TablesTie
/-!
# C11 — every response is a well-formed, correctly correlated frame

Generic in the store: `C : CacheOps σ` is arbitrary, so the statements hold for every store state and
every outcome (success and every error) the storage layer can produce.
-/
namespace Memc

def statusInTable (st : Nat) : Bool :=
  [0, 1, 2, 3, 4, 5, 6, 0x20, 0x21, 0x81, 0x82, 0x83, 0x84, 0x85, 0x86].contains st

def reqKey : Req → Bytes
  | .get _ k | .delete _ k | .set _ _ _ k _ | .append _ k _ | .delta _ _ _ _ k => k
  | _ => []

/-- the layout rules of the property, as a decidable predicate on (request, response) -/
def wellFormed (req : Req) (r : Resp) : Bool :=
  r.header.opcode == req.header.opcode && r.header.opaq == req.header.opaq &&
  match r with
  | .error h t => h.status != 0 && statusInTable h.status && h.keyLen == 0 && h.extrasLen == 0
      && h.bodyLen == t.length && !t.isEmpty
  | .get h _ key value => h.status == 0 && h.extrasLen == 4 && h.keyLen == key.length
      && h.bodyLen == 4 + key.length + value.length
      && (if getKeyOp req.header.opcode then key == reqKey req else key == [])
  | .plain h | .quit h => h.status == 0 && h.bodyLen == 0 && h.keyLen == 0 && h.extrasLen == 0
  | .version h v => h.status == 0 && h.keyLen == 0 && h.extrasLen == 0 && h.bodyLen == v.length
  | .counter h _ => h.status == 0 && h.bodyLen == 8 && h.keyLen == 0 && h.extrasLen == 0

theorem errorResp_wf (req : Req) (e : CacheError) (rh : RespHeader)
    (h1 : rh.opcode = req.header.opcode) (h2 : rh.opaq = req.header.opaq) (h3 : rh.keyLen = 0) (h4 : rh.extrasLen = 0) :
    wellFormed req (errorResp e rh) = true := by
  cases e <;> simp [wellFormed, errorResp, Resp.header, h1, h2, h3, h4, statusInTable, CacheError.code, CacheError.text]

theorem statusResp_wf (req : Req) (res : Except CacheError Nat) (rh : RespHeader)
    (h1 : rh.opcode = req.header.opcode) (h2 : rh.opaq = req.header.opaq) (h3 : rh.keyLen = 0) (h4 : rh.extrasLen = 0)
    (h5 : rh.status = 0) (h6 : rh.bodyLen = 0) :
    wellFormed req (statusResp rh res) = true := by
  cases res with
  | ok c => simp [statusResp, wellFormed, Resp.header, h1, h2, h3, h4, h5, h6]
  | error e => exact errorResp_wf req e rh h1 h2 h3 h4

theorem quietMut_wf (req : Req) (r r' : Resp) (h : wellFormed req r = true) (hq : intoQuietMutation r = some r') :
    wellFormed req r' = true := by
  cases r <;> simp [intoQuietMutation] at hq; subst hq; exact h

theorem quietGet_wf (req : Req) (r r' : Resp) (h : wellFormed req r = true) (hq : intoQuietGet r = some r') :
    wellFormed req r' = true := by
  cases r <;> simp [intoQuietGet] at hq
  · obtain ⟨_, rfl⟩ := hq; exact h
  all_goals (subst hq; exact h)

theorem wf_getFilter (req : Req) (r resp : Resp) (q : Bool) (hwf : wellFormed req r = true)
    (h : (if q = true then intoQuietGet r else some r) = some resp) : wellFormed req resp = true := by
  split at h
  · exact quietGet_wf _ _ _ hwf h
  · simp at h; subst h; exact hwf

theorem wf_mutFilter (req : Req) (r resp : Resp) (q : Bool) (hwf : wellFormed req r = true)
    (h : (if q = true then intoQuietMutation r else some r) = some resp) : wellFormed req resp = true := by
  split at h
  · exact quietMut_wf _ _ _ hwf h
  · simp at h; subst h; exact hwf

variable {σ : Type} (C : CacheOps σ)

/-- **every response the handler produces is well formed and correlated with its request**, for every
    request of every opcode, every store and every storage outcome -/
theorem C11_wellformed (s : σ) (now : Nat) (req : Req) (resp : Resp)
    (h : (handleRequest C s now req).2 = some resp) : wellFormed req resp = true := by
  cases req with
  | get hd key =>
    simp only [handleRequest, Req.header] at h
    generalize (C.get s now key).2 = res at h
    apply wf_getFilter _ _ _ _ ?_ h
    cases res with
    | ok x =>
      by_cases hk : getKeyOp hd.opcode = true
      · simp [wellFormed, Resp.header, Req.header, hk, reqKey]; omega
      · simp [wellFormed, Resp.header, Req.header, hk]; omega
    | error e => exact errorResp_wf _ e _ rfl rfl rfl rfl
  | delete hd key =>
    simp only [handleRequest, Req.header] at h
    generalize (C.delete s key hd.cas).2 = res at h
    apply wf_mutFilter _ _ _ _ ?_ h
    cases res with
    | ok r => simp [wellFormed, Resp.header, Req.header]
    | error e => exact errorResp_wf _ e _ rfl rfl rfl rfl
  | set hd flags exp key value =>
    simp only [handleRequest, Req.header] at h
    have key2 : ∀ (res : Except CacheError Nat),
        (if quietSetOp hd.opcode = true then intoQuietMutation (statusResp { opcode := hd.opcode, opaq := hd.opaq } res)
          else some (statusResp { opcode := hd.opcode, opaq := hd.opaq } res)) = some resp →
        wellFormed (.set hd flags exp key value) resp = true := fun res hh =>
      wf_mutFilter _ _ _ _ (statusResp_wf (.set hd flags exp key value) res _ rfl rfl rfl rfl rfl rfl) hh
    by_cases h1 : isSetOp hd.opcode = true
    · simp only [h1, if_true] at h; exact key2 _ h
    · by_cases h2 : isAddOp hd.opcode = true
      · simp only [h1, h2, if_true, if_false] at h; exact key2 _ h
      · simp only [h1, h2, if_false] at h; exact key2 _ h
  | append hd key value =>
    simp only [handleRequest, Req.header] at h
    have key2 : ∀ (res : Except CacheError Nat),
        (if quietAppendOp hd.opcode = true then intoQuietMutation (statusResp { opcode := hd.opcode, opaq := hd.opaq } res)
          else some (statusResp { opcode := hd.opcode, opaq := hd.opaq } res)) = some resp →
        wellFormed (.append hd key value) resp = true := fun res hh =>
      wf_mutFilter _ _ _ _ (statusResp_wf (.append hd key value) res _ rfl rfl rfl rfl rfl rfl) hh
    by_cases h1 : isAppendOp hd.opcode = true
    · simp only [h1, if_true] at h; exact key2 _ h
    · simp only [h1, if_false] at h; exact key2 _ h
  | delta hd d i exp key =>
    simp only [handleRequest, Req.header] at h
    generalize (Cmd.addDelta C s now (Meta.new hd.cas hd.opaq exp) key d i (isIncrOp hd.opcode)).2 = res at h
    apply wf_mutFilter _ _ _ _ ?_ h
    cases res with
    | ok r => simp [wellFormed, Resp.header, Req.header]
    | error e => exact errorResp_wf _ e _ rfl rfl rfl rfl
  | headerOnly hd =>
    simp only [handleRequest, Req.header] at h
    by_cases h1 : hd.opcode = 0x0a
    · simp [h1] at h; subst h; simp [wellFormed, Resp.header, Req.header, h1]
    · by_cases h2 : hd.opcode = 0x07
      · simp [h2] at h; subst h; simp [wellFormed, Resp.header, Req.header, h2]
      · by_cases h3 : hd.opcode = 0x17
        · simp [h3] at h
        · simp [h1, h2, h3] at h; subst h; simp [wellFormed, Resp.header, Req.header]
  | flush hd exp =>
    simp only [handleRequest, Req.header] at h
    by_cases h1 : quietFlushOp hd.opcode = true
    · simp [h1] at h
    · simp [h1] at h; subst h; simp [wellFormed, Resp.header, Req.header]
  | tooLarge hd =>
    simp only [handleRequest, Req.header] at h
    simp at h; subst h; exact errorResp_wf _ _ _ rfl rfl rfl rfl
  | notSupported hd =>
    simp only [handleRequest, Req.header] at h
    simp at h; subst h; exact errorResp_wf _ _ _ rfl rfl rfl rfl

/-- a well-formed response occupies exactly `24 + body_length` bytes: the client can find the next one -/
theorem C11_frame_length (req : Req) (r : Resp) (h : wellFormed req r = true) :
    (encode r).length = 24 + r.header.bodyLen := by
  have hh : (encodeHeader r.header).length = 24 := by simp [encodeHeader, putBE_length]
  cases r with
  | error hd t => simp [wellFormed, Resp.header] at h; simp [Resp.header] at hh; simp [encode, Resp.header]; omega
  | get hd fl key value => simp [wellFormed, Resp.header] at h; simp [Resp.header] at hh; simp [encode, Resp.header, putBE_length]; omega
  | plain hd => simp [wellFormed, Resp.header] at h; simp [Resp.header] at hh; simp [encode, Resp.header]; omega
  | quit hd => simp [wellFormed, Resp.header] at h; simp [Resp.header] at hh; simp [encode, Resp.header]; omega
  | version hd v => simp [wellFormed, Resp.header] at h; simp [Resp.header] at hh; simp [encode, Resp.header]; omega
  | counter hd v => simp [wellFormed, Resp.header] at h; simp [Resp.header] at hh; simp [encode, Resp.header, putBE_length]; omega

/-- the first byte of every response is the response magic 0x81 and the data type byte is 0 -/
theorem C11_magic_and_datatype (r : Resp) :
    (encode r).take 1 = [0x81] ∧ ((encode r).drop 5).take 1 = [0] := by
  simp [encode, encodeHeader, putBE]

/-- what is written is what a client reads: every header field of every response whose fields fit their
    widths is recovered from the encoded octets, whatever follows them on the stream -/
theorem C11_header_roundtrip (r : Resp) (hr : r.header.inRange) (rest : Bytes) :
    parseRespHeader (encode r ++ rest) = r.header := by
  obtain ⟨body, hb⟩ := encode_eq r
  rw [hb, List.append_assoc]
  exact parseRespHeader_encode _ hr _

/-- **the response stream stays parseable**: a client that reads 24 octets, then `body_length` more, cuts
    any concatenation of well-formed responses — of any number, to any requests — exactly at the response
    boundaries, so every response is found and correlated by its own header -/
theorem C11_client_framing (rs : List (Req × Resp)) (hwf : ∀ p ∈ rs, wellFormed p.1 p.2 = true)
    (hr : ∀ p ∈ rs, p.2.header.inRange) :
    clientSplit rs.length ((rs.map (fun p => encode p.2)).flatten) = rs.map (fun p => encode p.2) := by
  have h := clientSplit_responses (rs.map (·.2)) (by
    intro r hmem
    obtain ⟨p, hp, rfl⟩ := List.mem_map.mp hmem
    exact ⟨hr p hp, C11_frame_length p.1 p.2 (hwf p hp)⟩) rs.length (by simp)
  simp only [List.map_map, List.length_map] at h
  exact h

example : wellFormed (.get ⟨0x80, 0x0c, 1, 0, 0, 0, 1, 7, 0⟩ [65])
    (.get { opcode := 0x0c, opaq := 7, extrasLen := 4, keyLen := 1, bodyLen := 7, cas := 3 } 9 [65] [1, 2]) = true := by decide

/-! ## the tables of this property are the source's (regenerated from /repo on every run: `tools/gentables.py`) -/

/-- status codes and message texts (`cache/error.rs`), the two magic bytes (`protocol/binary.rs`) and the version string
    (`Cargo.toml` through `crate_version!`) of the model are those of the source as it is now -/
theorem C11_tables_are_the_sources :
    Holds Gen.errors (fun t => t = allErrors.map (fun e => (e.code, e.text))) ∧
    Holds Gen.magic (fun m =>
      headerValid { hdr0 with magic := m.1 } = true ∧ headerValid { hdr0 with magic := m.1 + 1 } = false ∧
      (encodeHeader { opcode := 0, opaq := 0 }).head? = some (UInt8.ofNat m.2)) ∧
    Holds Gen.version (fun v => v = VERSION) :=
  ⟨tie_errors, tie_magic, tie_version⟩

/-! ## The reserved header field

Bytes 6–7 of a request header (the 'vbucket id') sit where a response header has its status. Nothing the server does or
answers depends on them. -/

/-- the same request with another reserved field -/
def Req.withVbucket (v : Nat) : Req → Req
  | .get h k => .get { h with vbucket := v } k
  | .delete h k => .delete { h with vbucket := v } k
  | .set h f e k x => .set { h with vbucket := v } f e k x
  | .append h k x => .append { h with vbucket := v } k x
  | .delta h d i e k => .delta { h with vbucket := v } d i e k
  | .headerOnly h => .headerOnly { h with vbucket := v }
  | .flush h e => .flush { h with vbucket := v } e
  | .tooLarge h => .tooLarge { h with vbucket := v }
  | .notSupported h => .notSupported { h with vbucket := v }

/-- parsing does not look at the reserved field: the same request comes out, carrying the other value -/
theorem parseBody_vbucket (h : ReqHeader) (body : Bytes) (v : Nat) :
    parseBody { h with vbucket := v } body = (parseBody h body).map (Req.withVbucket v) := by
  have hv : ∀ b, requestValid { h with vbucket := v } b = requestValid h b := fun _ => rfl
  have hl : valueLen { h with vbucket := v } = valueLen h := rfl
  unfold parseBody
  simp only [hv, hl]
  cases opGroup h.opcode <;> simp only []
  · cases requestValid h true <;> simp [Req.withVbucket]
  · cases requestValid h true <;> simp [Req.withVbucket]
  · cases requestValid h true <;> simp [Req.withVbucket]
    by_cases hc : body.length < 8 + h.keyLen + valueLen h <;> simp [hc, Req.withVbucket]
  · cases requestValid h true <;> simp [Req.withVbucket]
  · cases requestValid h true <;> simp [Req.withVbucket]
    by_cases hc : body.length < 20 + h.keyLen <;> simp [hc, Req.withVbucket]
  · cases requestValid h false <;> simp [Req.withVbucket]
  · cases requestValid h false <;> simp [Req.withVbucket]
  · simp [Req.withVbucket]
  · simp

/-- **the reserved field of a request never reaches the store or the response**: for every store, clock and request, the
    state afterwards and the response (status, opaque, CAS, body — every field) are those of the same request with any other
    value in that field -/
theorem C11_reserved_field_ignored {σ : Type} (C : CacheOps σ) (s : σ) (now : Nat) (req : Req) (v : Nat) :
    handleRequest C s now (req.withVbucket v) = handleRequest C s now req := by
  cases req <;> rfl

/-- acceptance of a header does not depend on it either -/
theorem headerValid_vbucket (h : ReqHeader) (v : Nat) : headerValid { h with vbucket := v } = headerValid h := rfl

end Memc

#print axioms Memc.errorResp_wf
#print axioms Memc.statusResp_wf
#print axioms Memc.quietMut_wf
#print axioms Memc.quietGet_wf
#print axioms Memc.wf_getFilter
#print axioms Memc.wf_mutFilter
#print axioms Memc.C11_wellformed
#print axioms Memc.C11_frame_length
#print axioms Memc.C11_magic_and_datatype
#print axioms Memc.C11_header_roundtrip
#print axioms Memc.C11_client_framing
#print axioms Memc.C11_tables_are_the_sources
#print axioms Memc.parseBody_vbucket
#print axioms Memc.C11_reserved_field_ignored
#print axioms Memc.headerValid_vbucket
