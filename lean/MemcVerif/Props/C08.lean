import MemcVerif.Props.C05
import MemcVerif.Model.Policy
/-!
# C08 — delete and flush remove exactly what they should
-/
namespace Memc
open MemStore

/-- delete: removes exactly the addressed key; 'not found' when absent; 'key exists' and no effect on a
    CAS that is neither 0 nor current -/
theorem C08_delete_exact (s : MemStore) (k : Key) (cas : Nat) :
    (∀ k', k' ≠ k → (s.delete k cas).1.mem.lookup k' = s.mem.lookup k') ∧
    (s.mem.lookup k = none → s.delete k cas = (s, .error .notFound)) ∧
    (∀ x, s.mem.lookup k = some x → (cas = 0 ∨ x.header.cas = cas) →
        (s.delete k cas).2 = .ok x ∧ (s.delete k cas).1.mem.lookup k = none) ∧
    (∀ x, s.mem.lookup k = some x → ¬ (cas = 0 ∨ x.header.cas = cas) → s.delete k cas = (s, .error .keyExists)) := by
  refine ⟨fun k' h => delete_lookup_ne s cas h, delete_absent s k cas, ?_, ?_⟩
  · intro x hl h; rw [delete_ok s k cas x hl h]; simp [Mem.lookup_erase_self]
  · intro x hl h; exact delete_mismatch s k cas x hl h

/-- after a delete the key is invisible at every time, and stays so over any history without a store to it -/
theorem C08_deleted_stays_gone (s : MemStore) (k : Key) (cas : Nat) (x : Record) (now : Nat) (h : History)
    (hl : s.mem.lookup k = some x) (hc : cas = 0 ∨ x.header.cas = cas)
    (hno : ∀ e ∈ h, ¬ (e.2.key = some k ∧ e.2.stores = true)) (hmono : List.Pairwise (· ≤ ·) (now :: h.map (·.1)))
    (t' : Nat) (hle : ∀ e ∈ h, e.1 ≤ t') (htt : now ≤ t') :
    (runOps (s.delete k cas).1 h).vis t' k = none := by
  apply C05_never_visible_again k h _ now _ hno hmono t' hle htt
  rw [delete_ok s k cas x hl hc, vis_def]; simp [Mem.lookup_erase_self]

/-- immediate flush: every item stored before is unretrievable at every time -/
theorem C08_flush_now (s : MemStore) (now : Nat) (k : Key) (t : Nat) : (s.flush now 0).vis t k = none := by
  simp [vis_def, flush_lookup]

/-- delayed flush: every item stored before is unretrievable from `now + n` on at the latest -/
theorem C08_flush_delay (s : MemStore) (now n : Nat) (hn : n > 0) (k : Key) (t : Nat) (ht : now + n ≤ t) :
    (s.flush now n).vis t k = none := by
  rw [vis_def, flush_lookup]
  simp only [hn, if_true]
  cases hl : s.mem.lookup k with
  | none => simp
  | some x =>
    simp only [Option.map]
    have : (flushRecord now n x).expired t = true := by
      rw [expired_iff]
      unfold flushRecord
      split
      · simp; omega
      · rename_i hc
        have h1 : x.header.ttl ≠ 0 := fun e => hc (Or.inl e)
        have h2 : ¬ (x.header.timestamp + x.header.ttl > now + n) := fun e => hc (Or.inr e)
        exact ⟨h1, by omega⟩
    simp [this]

/-- … and stays unretrievable over any later history (monotone clock) until it is stored again -/
theorem C08_flushed_stays_gone (s : MemStore) (now n : Nat) (k : Key) (h : History) (t0 : Nat) (ht0 : now + n ≤ t0)
    (hno : ∀ e ∈ h, ¬ (e.2.key = some k ∧ e.2.stores = true)) (hmono : List.Pairwise (· ≤ ·) (t0 :: h.map (·.1)))
    (t' : Nat) (hle : ∀ e ∈ h, e.1 ≤ t') (htt : t0 ≤ t') :
    (runOps (s.flush now n) h).vis t' k = none := by
  apply C05_never_visible_again k h _ t0 _ hno hmono t' hle htt
  by_cases hn : n > 0
  · exact C08_flush_delay s now n hn k t0 ht0
  · have : n = 0 := by omega
    subst this; exact C08_flush_now s now k t0

/-- a flush never makes anything *more* visible: no deadline moves later -/
theorem C08_flush_only_shortens (s : MemStore) (now n : Nat) (k : Key) (t : Nat) (h : s.vis t k = none) :
    (s.flush now n).vis t k = none := by
  rw [vis_def] at h ⊢
  rw [flush_lookup]
  by_cases hn : n > 0
  · simp only [hn, if_true]
    cases hl : s.mem.lookup k with
    | none => simp
    | some x =>
      simp only [hl] at h
      simp only [Option.map]
      by_cases he : x.expired t = true
      · simp [flushRecord_expired_mono now n t x hn he]
      · simp [he] at h
  · simp [hn]

/-- items stored after a flush are not affected by it: the store leaves exactly the record it would
    leave in any other state (C01_read_your_writes holds for every state, flushed ones included) -/
theorem C08_later_stores_unaffected (s : MemStore) (now n t1 : Nat) (k : Key) (v : Bytes) (f ttl : Nat) (t : Nat)
    (hlive : ttl = 0 ∨ t < t1 + ttl) :
    (((s.flush now n).set t1 k (Record.new v 0 f ttl)).1.get t k).2
      = .ok ⟨⟨t1, (s.flush now n).casId, f, ttl⟩, v⟩ := by
  rw [set_cas0 _ _ _ _ (by simp [Record.new, Meta.new])]
  rw [get_result, vis_def]
  simp only [Mem.lookup_insert_self]
  have : (⟨⟨t1, (s.flush now n).casId, f, ttl⟩, v⟩ : Record).expired t = false := by
    simp only [Record.expired]
    rcases hlive with h | h
    · simp [h]
    · simp; omega
  simp [this, stamp, Record.new, Meta.new]

example : ((⟨[([1], ⟨⟨0, 1, 0, 0⟩, [65]⟩), ([2], ⟨⟨3, 2, 0, 50⟩, [66]⟩)], 3⟩ : MemStore).flush 10 5).vis 14 [1]
    = some ⟨⟨10, 1, 0, 5⟩, [65]⟩ := by decide

/-! ## Behind the eviction policy -/

/-- delete behind the policy is the store's delete: the same answer, the same keys removed, the other keys untouched; the
    accounting gives back exactly the removed record's bytes and is untouched by a refusal -/
theorem C08_delete_under_policy (p : Policy) (k : Key) (cas : Nat) :
    (p.delete k cas).2 = (p.inner.delete k cas).2 ∧
    (p.delete k cas).1.inner = (p.inner.delete k cas).1 ∧
    (∀ x, (p.inner.delete k cas).2 = .ok x → (p.delete k cas).1.usage = wsub p.usage x.len) ∧
    (∀ e, (p.inner.delete k cas).2 = .error e → (p.delete k cas).1.usage = p.usage) := by
  simp only [Policy.delete]
  cases h : (p.inner.delete k cas).2 with
  | ok x => simp
  | error e => simp

/-- flush behind the policy is the store's flush -/
theorem C08_flush_under_policy (p : Policy) (now n : Nat) (k : Key) (t : Nat) :
    (p.flush now n).inner = p.inner.flush now n ∧
    (n = 0 → (p.flush now n).inner.vis t k = none) := by
  refine ⟨rfl, ?_⟩
  intro hn; subst hn
  exact C08_flush_now p.inner now k t

end Memc

#print axioms Memc.C08_delete_exact
#print axioms Memc.C08_deleted_stays_gone
#print axioms Memc.C08_flush_now
#print axioms Memc.C08_flush_delay
#print axioms Memc.C08_flushed_stays_gone
#print axioms Memc.C08_flush_only_shortens
#print axioms Memc.C08_later_stores_unaffected
#print axioms Memc.C08_delete_under_policy
#print axioms Memc.C08_flush_under_policy
