import MemcVerif.Proofs.Policy
/-!
# C15 — no eviction without memory pressure (accounting tracks content)

The full statement is **false** of the code and of the model: the witnesses below (kernel-evaluated, `decide`)
are the recorded findings, one per drift class. Each is a concrete history in which the stored bytes stay
far below the limit while the accounted usage drifts away from them; `C15_drift_evicts_live_key` shows the
user-visible consequence (an unrelated live key is evicted although 68 bytes are stored under a limit of
1000). `C15_partial` is the part that holds: fresh-key stores without pressure, and reads of live keys,
keep the accounting exact.
-/
namespace Memc

def rec10 : Record := Record.new [1, 2, 3, 4, 5, 6, 7, 8, 9, 10] 0 0 0     -- 34 bytes

/-- the accounting equals the content -/
def Policy.Exact (p : Policy) : Prop := p.usage = p.inner.mem.bytes

/-! ## recorded findings: the statement fails -/

/-- overwriting a key does not give back the old record's bytes -/
theorem C15_overwrite_drifts :
    let p := ((Policy.init 1000).set 0 [1] rec10).1
    let q := (p.set 0 [1] rec10).1
    p.usage = 34 ∧ p.inner.mem.bytes = 34 ∧ q.inner.mem.bytes = 34 ∧ q.usage = 68 := by decide

/-- a rejected CAS store is accounted although nothing was stored -/
theorem C15_failed_cas_drifts :
    let p := ((Policy.init 1000).set 0 [1] rec10).1
    let q := (p.set 0 [1] (Record.new [9] 77 0 0)).1
    (p.set 0 [1] (Record.new [9] 77 0 0)).2.toBool = false ∧ q.inner.mem.bytes = 34 ∧ q.usage = 59 := by decide

/-- flush empties the store without touching the accounting -/
theorem C15_flush_drifts :
    let p := ((Policy.init 1000).set 0 [1] rec10).1
    (p.flush 0 0).inner.mem.bytes = 0 ∧ (p.flush 0 0).usage = 34 := by decide

/-- lazy expiry removes the record behind the policy's back -/
theorem C15_expiry_drifts :
    let p := ((Policy.init 1000).set 0 [1] (Record.new [1, 2] 0 0 5)).1
    (p.get 9 [1]).2.toBool = false ∧ (p.get 9 [1]).1.inner.mem.bytes = 0 ∧ (p.get 9 [1]).1.usage = 26 := by decide

/-- append (get then set of the whole new record) accounts the old bytes twice -/
theorem C15_rmw_drifts :
    let p := ((Policy.init 1000).set 0 [1] rec10).1
    let q := (Cmd.append polOps p 0 [1] (Record.new [11] 0 0 0)).1
    q.inner.mem.bytes = 35 ∧ q.usage = 69 := by decide

/-- the consequence users see: 30 overwrites of a 10-byte value under a limit of 1000 evict an unrelated
    live key (`[7]`) although only 68 bytes are stored -/
theorem C15_drift_evicts_live_key :
    let p0 := ((Policy.init 1000).set 0 [7] rec10).1
    let p := (List.range 28).foldl (fun p _ => (p.set 0 [1] rec10).1) p0
    let q := ({ p with tape := [[7]] }.set 0 [1] rec10).1
    p.inner.mem.bytes = 68 ∧ p.usage = 986 ∧ q.bad = false ∧ q.inner.mem.lookup [7] = none ∧ q.inner.mem.bytes = 34 := by
  decide

/-! ## what holds -/

theorem Mem.erase_absent (m : Mem) (k : Key) (h : m.lookup k = none) : m.erase k = m := by
  induction m with
  | nil => rfl
  | cons e m ih =>
    obtain ⟨k', r⟩ := e
    rw [Mem.lookup_cons] at h
    by_cases hk : k' = k
    · simp [hk] at h
    · simp [hk] at h
      rw [Mem.erase_cons]; simp [hk, ih h]

/-- a store to a fresh key without memory pressure keeps the accounting exact and evicts nothing -/
theorem C15_partial_fresh_store (p : Policy) (now : Nat) (k : Key) (r : Record)
    (hex : p.Exact) (habs : p.inner.mem.lookup k = none) (hcas : r.header.cas = 0)
    (hroom : p.usage + r.len ≤ p.limit) (hnw : p.usage + r.len < U64) (htape : p.tape = []) :
    (p.set now k r).1.Exact ∧ (p.set now k r).1.bad = p.bad ∧
    ∀ k', k' ≠ k → (p.set now k r).1.inner.mem.lookup k' = p.inner.mem.lookup k' := by
  unfold Policy.set Policy.incrMemUsage
  have hadd : wadd p.usage r.len = p.usage + r.len := wadd_exact hnw
  have hloop : Policy.evictLoop r.len p.tape { p with usage := wadd p.usage r.len } (wadd p.usage r.len)
      = { p with usage := p.usage + r.len } := by
    rw [htape]
    unfold Policy.evictLoop
    have hng : ¬ (p.usage + r.len > p.limit) := by omega
    simp only [hadd, hng, if_false, htape]
    simp
  rw [hloop]
  simp only
  rw [MemStore.set_cas0 _ _ _ _ hcas]
  refine ⟨?_, by trivial, ?_⟩
  · unfold Policy.Exact at *
    simp only [Mem.insert, Mem.bytes_cons, Mem.erase_absent _ _ habs]
    have : (MemStore.stamp r p.inner.casId now).len = r.len := rfl
    rw [this, hex]; omega
  · intro k' hne
    simp [Mem.lookup_insert_ne _ _ hne]

/-- reading a live key changes nothing at all -/
theorem C15_partial_live_get (p : Policy) (now : Nat) (k : Key) (x : Record) (h : p.inner.vis now k = some x) :
    (p.get now k).1 = p ∧ (p.get now k).2 = .ok x := by
  unfold Policy.get
  have hv : p.inner.get now k = (p.inner, .ok x) := by
    -- `vis = some` means the record is present and not expired
    have hl : p.inner.mem.lookup k = some x ∧ x.expired now = false := by
      rw [MemStore.vis_def] at h
      cases hl : p.inner.mem.lookup k with
      | none => simp [hl] at h
      | some r =>
        simp only [hl] at h
        by_cases he : r.expired now = true
        · simp [he] at h
        · simp [he] at h; subst h; simp [he]
    obtain ⟨hl, he⟩ := hl
    unfold MemStore.get MemStore.getByKey
    simp only [hl, MemStore.checkIfExpired]
    simp only [Record.expired] at he
    by_cases h0 : x.header.ttl = 0
    · simp [h0]
    · simp [h0] at he
      have : x.header.timestamp + x.header.ttl > now := by omega
      simp [h0, this]
  simp only [hv]
  constructor <;> trivial

end Memc

#print axioms Memc.C15_overwrite_drifts
#print axioms Memc.C15_failed_cas_drifts
#print axioms Memc.C15_flush_drifts
#print axioms Memc.C15_expiry_drifts
#print axioms Memc.C15_rmw_drifts
#print axioms Memc.C15_drift_evicts_live_key
#print axioms Memc.Mem.erase_absent
#print axioms Memc.C15_partial_fresh_store
#print axioms Memc.C15_partial_live_get
