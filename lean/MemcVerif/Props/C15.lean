import MemcVerif.Proofs.Policy
import MemcVerif.Proofs.WF
/-!
# C15 — no eviction without memory pressure (accounting tracks content)

The full statement is **false** of the code and of the model: the witnesses below (kernel-evaluated, `decide`)
are the recorded findings, one per drift class. Each is a concrete history in which the stored bytes stay
far below the limit while the accounted usage drifts away from them; `C15_drift_evicts_live_key` shows the
user-visible consequence (an unrelated live key is evicted although 68 bytes are stored under a limit of
1000). `C15_partial_*` is the part that holds: fresh-key stores without pressure, deletes, and reads of live or
absent keys keep the accounting exact (`C15_partial_history`: for every history made of those, of any length, the
counter is a function of the content, nothing else is lost, and the counter is 0 whenever the store is empty).
-/
namespace Memc

def rec10 : Record := Record.new [1, 2, 3, 4, 5, 6, 7, 8, 9, 10] 0 0 0     -- 34 bytes

/-- the accounting equals the content -/
def Policy.Exact (p : Policy) : Prop := p.usage = p.inner.mem.bytes

/-! ## recorded findings: the statement fails -/

/-- overwriting a key does not give back the old record's bytes -/
theorem C15_overwrite_drifts :
    let p := ((Policy.init 1000).set 0 [1] rec10).1
    let q := (p.set 0 [1] rec10).1
    p.usage = 34 ∧ p.inner.mem.bytes = 34 ∧ q.inner.mem.bytes = 34 ∧ q.usage = 68 := by decide

/-- a rejected CAS store is accounted although nothing was stored -/
theorem C15_failed_cas_drifts :
    let p := ((Policy.init 1000).set 0 [1] rec10).1
    let q := (p.set 0 [1] (Record.new [9] 77 0 0)).1
    (p.set 0 [1] (Record.new [9] 77 0 0)).2.toBool = false ∧ q.inner.mem.bytes = 34 ∧ q.usage = 59 := by decide

/-- flush empties the store without touching the accounting -/
theorem C15_flush_drifts :
    let p := ((Policy.init 1000).set 0 [1] rec10).1
    (p.flush 0 0).inner.mem.bytes = 0 ∧ (p.flush 0 0).usage = 34 := by decide

/-- lazy expiry removes the record behind the policy's back -/
theorem C15_expiry_drifts :
    let p := ((Policy.init 1000).set 0 [1] (Record.new [1, 2] 0 0 5)).1
    (p.get 9 [1]).2.toBool = false ∧ (p.get 9 [1]).1.inner.mem.bytes = 0 ∧ (p.get 9 [1]).1.usage = 26 := by decide

/-- append (get then set of the whole new record) accounts the old bytes twice -/
theorem C15_rmw_drifts :
    let p := ((Policy.init 1000).set 0 [1] rec10).1
    let q := (Cmd.append polOps p 0 [1] (Record.new [11] 0 0 0)).1
    q.inner.mem.bytes = 35 ∧ q.usage = 69 := by decide

/-- the consequence users see: 30 overwrites of a 10-byte value under a limit of 1000 evict an unrelated
    live key (`[7]`) although only 68 bytes are stored -/
theorem C15_drift_evicts_live_key :
    let p0 := ((Policy.init 1000).set 0 [7] rec10).1
    let p := (List.range 28).foldl (fun p _ => (p.set 0 [1] rec10).1) p0
    let q := ({ p with tape := [[7]] }.set 0 [1] rec10).1
    p.inner.mem.bytes = 68 ∧ p.usage = 986 ∧ q.bad = false ∧ q.inner.mem.lookup [7] = none ∧ q.inner.mem.bytes = 34 := by
  decide

/-! ## what holds -/

theorem Mem.erase_absent (m : Mem) (k : Key) (h : m.lookup k = none) : m.erase k = m := by
  induction m with
  | nil => rfl
  | cons e m ih =>
    obtain ⟨k', r⟩ := e
    rw [Mem.lookup_cons] at h
    by_cases hk : k' = k
    · simp [hk] at h
    · simp [hk] at h
      rw [Mem.erase_cons]; simp [hk, ih h]

/-- a store to a fresh key without memory pressure keeps the accounting exact and evicts nothing -/
theorem C15_partial_fresh_store (p : Policy) (now : Nat) (k : Key) (r : Record)
    (hex : p.Exact) (habs : p.inner.mem.lookup k = none) (hcas : r.header.cas = 0)
    (hroom : p.usage + r.len ≤ p.limit) (hnw : p.usage + r.len < U64) (htape : p.tape = []) :
    (p.set now k r).1.Exact ∧ (p.set now k r).1.bad = p.bad ∧
    ∀ k', k' ≠ k → (p.set now k r).1.inner.mem.lookup k' = p.inner.mem.lookup k' := by
  unfold Policy.set Policy.incrMemUsage
  have hadd : wadd p.usage r.len = p.usage + r.len := wadd_exact hnw
  have hloop : Policy.evictLoop r.len p.tape { p with usage := wadd p.usage r.len } (wadd p.usage r.len)
      = { p with usage := p.usage + r.len } := by
    rw [htape]
    unfold Policy.evictLoop
    have hng : ¬ (p.usage + r.len > p.limit) := by omega
    simp only [hadd, hng, if_false, htape]
    simp
  rw [hloop]
  simp only
  rw [MemStore.set_cas0 _ _ _ _ hcas]
  refine ⟨?_, by trivial, ?_⟩
  · unfold Policy.Exact at *
    simp only [Mem.insert, Mem.bytes_cons, Mem.erase_absent _ _ habs]
    have : (MemStore.stamp r p.inner.casId now).len = r.len := rfl
    rw [this, hex]; omega
  · intro k' hne
    simp [Mem.lookup_insert_ne _ _ hne]

/-- reading a live key changes nothing at all -/
theorem C15_partial_live_get (p : Policy) (now : Nat) (k : Key) (x : Record) (h : p.inner.vis now k = some x) :
    (p.get now k).1 = p ∧ (p.get now k).2 = .ok x := by
  unfold Policy.get
  have hv : p.inner.get now k = (p.inner, .ok x) := by
    -- `vis = some` means the record is present and not expired
    have hl : p.inner.mem.lookup k = some x ∧ x.expired now = false := by
      rw [MemStore.vis_def] at h
      cases hl : p.inner.mem.lookup k with
      | none => simp [hl] at h
      | some r =>
        simp only [hl] at h
        by_cases he : r.expired now = true
        · simp [he] at h
        · simp [he] at h; subst h; simp [he]
    obtain ⟨hl, he⟩ := hl
    unfold MemStore.get MemStore.getByKey
    simp only [hl, MemStore.checkIfExpired]
    simp only [Record.expired] at he
    by_cases h0 : x.header.ttl = 0
    · simp [h0]
    · simp [h0] at he
      have : x.header.timestamp + x.header.ttl > now := by omega
      simp [h0, this]
  simp only [hv]
  constructor <;> trivial

/-- a delete gives back exactly what it removes -/
theorem C15_partial_delete (p : Policy) (k : Key) (cas : Nat) (hex : p.Exact) (hwf : p.inner.mem.WF) (hlt : p.usage < U64) :
    (p.delete k cas).1.Exact ∧ (p.delete k cas).1.bad = p.bad ∧ (p.delete k cas).1.tape = p.tape ∧
    (p.delete k cas).1.limit = p.limit ∧ (p.delete k cas).1.usage ≤ p.usage ∧
    ∀ k', k' ≠ k → (p.delete k cas).1.inner.mem.lookup k' = p.inner.mem.lookup k' := by
  unfold Policy.delete Policy.Exact at *
  cases hl : p.inner.mem.lookup k with
  | none => rw [MemStore.delete_absent _ _ _ hl]; exact ⟨hex, by trivial, by trivial, by trivial, Nat.le_refl _, fun _ _ => rfl⟩
  | some r =>
    by_cases h : cas = 0 ∨ r.header.cas = cas
    · rw [MemStore.delete_ok _ _ _ r hl h]
      have hfree := Mem.bytes_erase_exact p.inner.mem k r hwf hl
      have hle : r.len ≤ p.usage := by omega
      simp only [wsub_exact hle hlt]
      refine ⟨?_, by trivial, by trivial, by trivial, ?_, fun k' hne => Mem.lookup_erase_ne _ hne⟩
      · show p.usage - r.len = (p.inner.mem.erase k).bytes
        omega
      · show p.usage - r.len ≤ p.usage
        omega
    · rw [MemStore.delete_mismatch _ _ _ r hl h]; exact ⟨hex, by trivial, by trivial, by trivial, Nat.le_refl _, fun _ _ => rfl⟩

/-- the commands that cannot make the accounting drift -/
inductive POp
  | set (k : Key) (r : Record)
  | get (k : Key)
  | delete (k : Key) (cas : Nat)

def POp.key : POp → Key
  | .set k _ | .get k | .delete k _ => k

def Policy.apply (p : Policy) (now : Nat) : POp → Policy
  | .set k r => (p.set now k r).1
  | .get k => (p.get now k).1
  | .delete k cas => (p.delete k cas).1

/-- no memory pressure and nothing that bypasses the accounting: the store is of a fresh key with CAS 0 and fits
    under the limit; the read is of a live or an absent key; deletes are unrestricted -/
def Policy.driftFree (p : Policy) (now : Nat) : POp → Bool
  | .set k r => p.inner.mem.lookup k == none && r.header.cas == 0 && decide (p.usage + r.len ≤ p.limit)
  | .get k => (p.inner.vis now k).isSome || p.inner.mem.lookup k == none
  | .delete _ _ => true

def Policy.driftFreeRun (p : Policy) : List (Nat × POp) → Bool
  | [] => true
  | (now, op) :: rest => p.driftFree now op && (p.apply now op).driftFreeRun rest

def Policy.runP (p : Policy) : List (Nat × POp) → Policy
  | [] => p
  | (now, op) :: rest => (p.apply now op).runP rest

/-- what is carried along a drift-free history -/
structure Policy.Good (p : Policy) : Prop where
  exact : p.Exact
  wf : p.inner.mem.WF
  tape : p.tape = []
  room : p.usage ≤ p.limit
  lt : p.limit < U64

theorem get_absent_noop (s : MemStore) (now : Nat) (k : Key) (h : s.mem.lookup k = none) : (s.get now k).1 = s := by
  unfold MemStore.get MemStore.getByKey
  simp [h]

/-- with room and no victims on the tape a store is the inner store's `set` plus the counter -/
theorem set_roomy (p : Policy) (now : Nat) (k : Key) (r : Record)
    (hroom : p.usage + r.len ≤ p.limit) (hnw : p.usage + r.len < U64) (htape : p.tape = []) :
    (p.set now k r).1 = { p with usage := p.usage + r.len, inner := (p.inner.set now k r).1 } := by
  obtain ⟨inner, usage, limit, tape, bad⟩ := p
  simp only at hroom hnw htape
  subst htape
  have hadd : wadd usage r.len = usage + r.len := wadd_exact hnw
  have hng : ¬ (wadd usage r.len > limit) := by omega
  show (⟨((Policy.evictLoop r.len [] ⟨inner, wadd usage r.len, limit, [], bad⟩ (wadd usage r.len)).inner.set now k r).1,
      (Policy.evictLoop r.len [] ⟨inner, wadd usage r.len, limit, [], bad⟩ (wadd usage r.len)).usage,
      (Policy.evictLoop r.len [] ⟨inner, wadd usage r.len, limit, [], bad⟩ (wadd usage r.len)).limit,
      (Policy.evictLoop r.len [] ⟨inner, wadd usage r.len, limit, [], bad⟩ (wadd usage r.len)).tape,
      (Policy.evictLoop r.len [] ⟨inner, wadd usage r.len, limit, [], bad⟩ (wadd usage r.len)).bad⟩ : Policy) = _
  unfold Policy.evictLoop
  simp only [hng, if_false]
  simp [hadd]

theorem C15_partial_step (p : Policy) (now : Nat) (op : POp) (hg : p.Good) (hd : p.driftFree now op = true) :
    (p.apply now op).Good ∧ (p.apply now op).bad = p.bad ∧ (p.apply now op).limit = p.limit ∧
    ∀ k', k' ≠ op.key → (p.apply now op).inner.mem.lookup k' = p.inner.mem.lookup k' := by
  cases op with
  | set k r =>
    simp only [Policy.driftFree, Bool.and_eq_true, beq_iff_eq, decide_eq_true_eq] at hd
    obtain ⟨⟨habs, hcas⟩, hroom⟩ := hd
    have hnw : p.usage + r.len < U64 := by have := hg.lt; omega
    obtain ⟨h1, h2, h3⟩ := C15_partial_fresh_store p now k r hg.exact habs hcas hroom hnw hg.tape
    have hs := set_roomy p now k r hroom hnw hg.tape
    refine ⟨⟨h1, ?_, ?_, ?_, ?_⟩, ?_, ?_, h3⟩
    · show (p.set now k r).1.inner.mem.WF
      rw [hs]; exact MemStore.WF_set _ _ _ _ hg.wf
    · show (p.set now k r).1.tape = []
      rw [hs]; exact hg.tape
    · show (p.set now k r).1.usage ≤ (p.set now k r).1.limit
      rw [hs]; exact hroom
    · show (p.set now k r).1.limit < U64
      rw [hs]; exact hg.lt
    · show (p.set now k r).1.bad = p.bad
      rw [hs]
    · show (p.set now k r).1.limit = p.limit
      rw [hs]
  | get k =>
    have hsame : (p.get now k).1 = p := by
      simp only [Policy.driftFree, Bool.or_eq_true, beq_iff_eq, Option.isSome_iff_exists] at hd
      rcases hd with ⟨x, hx⟩ | habs
      · exact (C15_partial_live_get p now k x hx).1
      · unfold Policy.get
        simp only [get_absent_noop p.inner now k habs]
    show (p.get now k).1.Good ∧ (p.get now k).1.bad = p.bad ∧ (p.get now k).1.limit = p.limit ∧ _
    rw [hsame]
    exact ⟨hg, rfl, rfl, fun _ _ => by show (p.get now k).1.inner.mem.lookup _ = _; rw [hsame]⟩
  | delete k cas =>
    have hlt : p.usage < U64 := by have := hg.lt; have := hg.room; omega
    obtain ⟨h1, h2, h3, h5, h6, h4⟩ := C15_partial_delete p k cas hg.exact hg.wf hlt
    have hin : (p.delete k cas).1.inner = (p.inner.delete k cas).1 := by
      unfold Policy.delete
      cases hres : (p.inner.delete k cas).2 <;> simp only [hres]
    refine ⟨⟨h1, ?_, ?_, ?_, ?_⟩, h2, h5, h4⟩
    · show (p.delete k cas).1.inner.mem.WF
      rw [hin]; exact MemStore.WF_delete _ _ _ hg.wf
    · show (p.delete k cas).1.tape = []
      rw [h3]; exact hg.tape
    · show (p.delete k cas).1.usage ≤ (p.delete k cas).1.limit
      rw [h5]; exact Nat.le_trans h6 hg.room
    · show (p.delete k cas).1.limit < U64
      rw [h5]; exact hg.lt

/-- **C15, the part that holds**: along every history of stores of fresh keys that fit, deletes and reads of live or
    absent keys — of any length, at any clock readings — the counter equals the bytes stored, nothing is evicted,
    and keys the history does not address keep their records -/
theorem C15_partial_history (p : Policy) (h : List (Nat × POp)) (hg : p.Good) (hd : p.driftFreeRun h = true) :
    (p.runP h).Good ∧ (p.runP h).bad = p.bad ∧
    ∀ k', (∀ e ∈ h, e.2.key ≠ k') → (p.runP h).inner.mem.lookup k' = p.inner.mem.lookup k' := by
  induction h generalizing p with
  | nil => exact ⟨hg, rfl, fun _ _ => rfl⟩
  | cons e rest ih =>
    obtain ⟨now, op⟩ := e
    simp only [Policy.driftFreeRun, Bool.and_eq_true] at hd
    obtain ⟨hd1, hd2⟩ := hd
    obtain ⟨g1, b1, _, l1⟩ := C15_partial_step p now op hg hd1
    obtain ⟨g2, b2, l2⟩ := ih (p.apply now op) g1 hd2
    refine ⟨g2, by rw [← b1]; exact b2, fun k' hk' => ?_⟩
    have h1 : op.key ≠ k' := hk' (now, op) (List.mem_cons_self ..)
    show ((p.apply now op).runP rest).inner.mem.lookup k' = _
    rw [l2 k' (fun e he => hk' e (List.mem_cons_of_mem _ he)), l1 k' (fun h => h1 h.symm)]

/-- "returns to its initial value whenever the store returns to empty" — along drift-free histories -/
theorem C15_partial_empty_means_zero (p : Policy) (h : List (Nat × POp)) (hg : p.Good) (hd : p.driftFreeRun h = true)
    (hempty : (p.runP h).inner.mem = []) : (p.runP h).usage = 0 := by
  have := (C15_partial_history p h hg hd).1.exact
  unfold Policy.Exact at this
  rw [this, hempty]; rfl

/-- the premises are met: an empty policy is `Good`, and a store / read / delete / store history is drift-free -/
example : (Policy.init 1000).Good ∧
    (Policy.init 1000).driftFreeRun [(0, .set [1] rec10), (1, .get [1]), (2, .get [9]), (3, .delete [1] 0), (4, .set [1] rec10)] = true := by
  refine ⟨⟨rfl, trivial, rfl, by decide, by decide⟩, ?_⟩
  decide

end Memc

#print axioms Memc.C15_overwrite_drifts
#print axioms Memc.C15_failed_cas_drifts
#print axioms Memc.C15_flush_drifts
#print axioms Memc.C15_expiry_drifts
#print axioms Memc.C15_rmw_drifts
#print axioms Memc.C15_drift_evicts_live_key
#print axioms Memc.Mem.erase_absent
#print axioms Memc.C15_partial_fresh_store
#print axioms Memc.C15_partial_live_get
#print axioms Memc.C15_partial_delete
#print axioms Memc.get_absent_noop
#print axioms Memc.set_roomy
#print axioms Memc.C15_partial_step
#print axioms Memc.C15_partial_history
#print axioms Memc.C15_partial_empty_means_zero
