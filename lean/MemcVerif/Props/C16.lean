import MemcVerif.Model.Conc
import MemcVerif.Props.C14
/-!
# C16 — every command completes: no deadlock or livelock between connections

In the model of L0–L2 no call retains a lock: each `Cache` trait call acquires and releases its shard locks
inside the call, and no call is made while a guard is held (that this is so in the code is what the
single-threaded suites with a watchdog, the `sched` suite "a granted call must return" and the `stress` suite
tie). Hence a thread's next call is always enabled whatever the others are doing (`Thread.step` is a total
function of the current store), and every command ends after a bounded number of its **own** calls, however
the calls of other threads are interleaved (`C16_progress`, `C16_bounded`). The eviction loop consumes at most
one victim per iteration and stops (C14_terminates). OS-level lock behaviour is outside the model (partial).
-/
namespace Memc

/-- calls a thread still has to make at most: three per queued command, fewer for the one in progress -/
def Thread.remaining (t : Thread) : Nat :=
  3 * t.todo.length + (match t.phase with | .idle => 0 | .snapped _ _ => 2 | .decided _ _ => 1)

theorem afterFound_remaining (t : Thread) (s : MemStore) (now : Nat) (c : CCmd) (found : Option Record) :
    (t.afterFound s now c found).2.remaining ≤ 3 * t.todo.length + 1 := by
  unfold Thread.afterFound
  split <;> simp [Thread.remaining]

/-- **progress**: whatever state the other threads left the store in, an unfinished thread's next call is
    enabled and strictly reduces the number of calls it still has to make -/
theorem C16_progress (t : Thread) (s : MemStore) (now : Nat) (h : t.finished = false) :
    (t.step s now).2.remaining < t.remaining := by
  unfold Thread.step
  cases hp : t.phase with
  | idle =>
    simp only
    cases ht : t.todo with
    | nil => simp [Thread.finished, hp, ht] at h
    | cons c rest =>
      simp only
      cases c with
      | set k r => simp [Thread.remaining, hp, ht]
      | delete k cas => simp [Thread.remaining, hp, ht]
      | flush ttl => simp [Thread.remaining, hp, ht]
      | get k =>
        simp only
        split
        · simp [Thread.remaining, hp, ht]; omega
        · have := afterFound_remaining { t with todo := rest } s now (.get k) none
          simp [Thread.remaining, hp, ht] at this ⊢; omega
      | add k r =>
        simp only
        split
        · simp [Thread.remaining, hp, ht]; omega
        · have := afterFound_remaining { t with todo := rest } s now (.add k r) none
          simp [Thread.remaining, hp, ht] at this ⊢; omega
      | replace k r =>
        simp only
        split
        · simp [Thread.remaining, hp, ht]; omega
        · have := afterFound_remaining { t with todo := rest } s now (.replace k r) none
          simp [Thread.remaining, hp, ht] at this ⊢; omega
      | append k r =>
        simp only
        split
        · simp [Thread.remaining, hp, ht]; omega
        · have := afterFound_remaining { t with todo := rest } s now (.append k r) none
          simp [Thread.remaining, hp, ht] at this ⊢; omega
      | prepend k r =>
        simp only
        split
        · simp [Thread.remaining, hp, ht]; omega
        · have := afterFound_remaining { t with todo := rest } s now (.prepend k r) none
          simp [Thread.remaining, hp, ht] at this ⊢; omega
      | delta k hd d i inc =>
        simp only
        split
        · simp [Thread.remaining, hp, ht]; omega
        · have := afterFound_remaining { t with todo := rest } s now (.delta k hd d i inc) none
          simp [Thread.remaining, hp, ht] at this ⊢; omega
  | snapped c snap =>
    simp only
    have := afterFound_remaining t (s.checkIfExpired now c.key snap).1 now c (if (s.checkIfExpired now c.key snap).2 then none else some snap)
    simp [Thread.remaining, hp] at this ⊢; omega
  | decided c found =>
    simp [Thread.remaining, hp]

/-- **bounded**: after `n` of its own calls a thread has at most `remaining - n` left — independent of the
    stores it finds, i.e. of every interleaving of other clients (flushes, expiry collection and evictions
    included: each of those is a single call of the thread that makes it) -/
theorem C16_bounded (t : Thread) (now : Nat) (stores : List MemStore) :
    (stores.foldl (fun th s => (th.step s now).2) t).finished = true
    ∨ (stores.foldl (fun th s => (th.step s now).2) t).remaining + stores.length ≤ t.remaining := by
  induction stores generalizing t with
  | nil => right; simp
  | cons s rest ih =>
    simp only [List.foldl_cons, List.length_cons]
    by_cases hf : t.finished = true
    · -- a finished thread stays finished
      left
      have hstay : ∀ (l : List MemStore) (th : Thread), th.finished = true → (l.foldl (fun th s => (th.step s now).2) th).finished = true := by
        intro l
        induction l with
        | nil => intro th h; exact h
        | cons s' l ih2 =>
          intro th h
          simp only [List.foldl_cons]
          apply ih2
          simp only [Thread.finished, Bool.and_eq_true, List.isEmpty_iff, beq_iff_eq] at h
          obtain ⟨h1, h2⟩ := h
          simp [Thread.step, h1, h2, Thread.finished]
      exact hstay rest _ (by
        simp only [Thread.finished, Bool.and_eq_true, List.isEmpty_iff, beq_iff_eq] at hf
        obtain ⟨h1, h2⟩ := hf
        simp [Thread.step, h1, h2, Thread.finished])
    · have hp := C16_progress t s now (by simpa using hf)
      rcases ih (t.step s now).2 with h | h
      · left; exact h
      · right; omega

/-- the eviction sweep of a store under memory pressure stops: at most one victim per iteration, and the
    victims come out of a finite store (restated from C14) -/
theorem C16_eviction_terminates (value : Nat) (tape : List Key) (p : Policy) (u : Nat) :
    (Policy.evictLoop value tape p u).tape.length ≤ tape.length := C14_terminates value tape p u

example : (({ todo := [.add [1] (Record.new [65] 0 0 0)] } : Thread).remaining) = 3 := by decide

end Memc

#print axioms Memc.afterFound_remaining
#print axioms Memc.C16_progress
#print axioms Memc.C16_bounded
#print axioms Memc.C16_eviction_terminates
