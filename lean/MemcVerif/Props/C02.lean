import MemcVerif.Proofs.Step
import MemcVerif.Model.Policy
/-!
# C02 — CAS guards against lost updates

* success iff the carried CAS equals the current one; failure is 'key exists' and changes nothing
  (set, replace, append, prepend, incr/decr, delete);
* the acknowledged CAS is the one retrievals report;
* within a lifetime a CAS value identifies one version of the item: over any history of any length,
  as long as the key stays present (and no store carrying a non-zero CAS re-creates it after expiry —
  the lifetime the property excludes), equal CAS implies equal value and flags.
-/
namespace Memc
open MemStore

/-- conditional `set` on a present item: success iff the CAS matches; failure = key exists, store unchanged -/
theorem C02_set_cas_iff (s : MemStore) (now : Nat) (k : Key) (r x : Record)
    (hl : s.mem.lookup k = some x) (hc : r.header.cas ≠ 0) :
    (r.header.cas = x.header.cas → (s.set now k r).2 = .ok s.casId) ∧
    (r.header.cas ≠ x.header.cas → s.set now k r = (s, .error .keyExists)) := by
  constructor
  · intro h; rw [set_match s now k r x hc hl h.symm]
  · intro h; exact set_mismatch s now k r x hc hl (fun e => h e.symm)

/-- the same for the read-modify-write commands addressed to a visible item: they succeed iff the
    carried CAS is 0 or the current one, and a rejected one leaves the whole store unchanged -/
theorem C02_rmw_cas_iff (s : MemStore) (now : Nat) (k : Key) (v : Bytes) (cas f ttl : Nat) (x : Record)
    (h : s.vis now k = some x) (hc : cas ≠ 0) :
    (cas ≠ x.header.cas →
        applyOp s now (.replace k (Record.new v cas f ttl)) = (s, .err .keyExists) ∧
        applyOp s now (.append k (Record.new v cas 0 0)) = (s, .err .keyExists) ∧
        applyOp s now (.prepend k (Record.new v cas 0 0)) = (s, .err .keyExists)) ∧
    (cas = x.header.cas →
        (applyOp s now (.replace k (Record.new v cas f ttl))).2 = .stored s.casId ∧
        (applyOp s now (.append k (Record.new v cas 0 0))).2 = .stored s.casId ∧
        (applyOp s now (.prepend k (Record.new v cas 0 0))).2 = .stored s.casId) := by
  have hl : s.mem.lookup k = some x := by
    rw [vis_def] at h
    cases hl : s.mem.lookup k with
    | none => simp [hl] at h
    | some r => simp only [hl] at h; by_cases he : r.expired now = true <;> simp [he] at h; simp [h]
  constructor
  · intro hne
    simp only [applyOp, Cmd.replace, Cmd.append, Cmd.prepend, memOps, get_vis_some h]
    refine ⟨?_, ?_, ?_⟩ <;>
      (rw [set_mismatch s now k _ x (by simpa [Record.new, Meta.new] using hc) hl (by simp [Record.new, Meta.new]; exact fun e => hne e.symm)]
       simp [Res.ofCas])
  · intro heq
    simp only [applyOp, Cmd.replace, Cmd.append, Cmd.prepend, memOps, get_vis_some h]
    refine ⟨?_, ?_, ?_⟩ <;>
      (rw [set_match s now k _ x (by simpa [Record.new, Meta.new] using hc) hl (by simp [Record.new, Meta.new, heq])]
       simp [Res.ofCas])

/-- counters: a stale CAS is rejected with 'key exists' and nothing changes -/
theorem C02_delta_stale (s : MemStore) (now : Nat) (k : Key) (hd : Meta) (d i : Nat) (inc : Bool) (x : Record) (n : Nat)
    (h : s.vis now k = some x) (hp : parseU64 x.value = some n) (hc : hd.cas ≠ 0) (hne : hd.cas ≠ x.header.cas) :
    applyOp s now (.delta k hd d i inc) = (s, .err .keyExists) := by
  have hl : s.mem.lookup k = some x := by
    rw [vis_def] at h
    cases hl : s.mem.lookup k with
    | none => simp [hl] at h
    | some r => simp only [hl] at h; by_cases he : r.expired now = true <;> simp [he] at h; simp [h]
  simp only [applyOp, Cmd.addDelta, memOps, get_vis_some h, hp]
  rw [set_mismatch s now k _ x (by simpa using hc) hl (by simp; exact fun e => hne e.symm)]

/-- delete: succeeds iff the CAS is 0 or current; otherwise 'key exists' and no effect -/
theorem C02_delete_cas_iff (s : MemStore) (k : Key) (cas : Nat) (x : Record) (hl : s.mem.lookup k = some x) :
    ((cas = 0 ∨ x.header.cas = cas) → (s.delete k cas).2 = .ok x ∧ (s.delete k cas).1.mem.lookup k = none) ∧
    (¬ (cas = 0 ∨ x.header.cas = cas) → s.delete k cas = (s, .error .keyExists)) := by
  constructor
  · intro h; rw [delete_ok s k cas x hl h]; simp [Mem.lookup_erase_self]
  · intro h; exact delete_mismatch s k cas x hl h

/-- the CAS a store acknowledges is the CAS the next retrieval reports -/
theorem C02_ack_is_reported (s : MemStore) (now : Nat) (k : Key) (r : Record) (c : Nat)
    (h : (s.set now k r).2 = .ok c) :
    ∃ rec, ((s.set now k r).1.get now k).2 = .ok rec ∧ rec.header.cas = c ∧ rec.value = r.value ∧ rec.header.flags = r.header.flags := by
  have fresh : ∀ c', (⟨(s.mem.insert k (stamp r c' now)), s.casId + 1⟩ : MemStore).vis now k = some (stamp r c' now) ∧
      ({ s with mem := s.mem.insert k (stamp r c' now) } : MemStore).vis now k = some (stamp r c' now) := by
    intro c'
    simp [vis_def, Mem.lookup_insert_self, stamp_fresh_not_expired]
  rcases set_self_cases s now k r with ⟨h1, _⟩ | ⟨h1, _⟩ | ⟨h1, _⟩
  · rw [h1] at h; simp at h
  · rw [h1] at h ⊢; simp at h; subst h
    refine ⟨stamp r s.casId now, ?_, by simp [stamp], by simp [stamp], by simp [stamp]⟩
    simp only [get_result, (fresh s.casId).1]
  · rw [h1] at h ⊢; simp at h; subst h
    refine ⟨stamp r (satSucc r.header.cas) now, ?_, by simp [stamp], by simp [stamp], by simp [stamp]⟩
    simp only [get_result, (fresh _).2]

/-! ## uniqueness within a lifetime, over histories of any length -/

/-- the steps the property excludes: a command carrying a non-zero CAS addressed to `k` while its
    record is expired (it begins a new lifetime with a client-derived CAS) -/
def ExcludedStep (s : MemStore) (now : Nat) (op : Op) (k : Key) : Prop :=
  op.key = some k ∧ op.cas ≠ 0 ∧ ∃ x, s.mem.lookup k = some x ∧ x.expired now = true

/-- `k` stays present, and no excluded step happens, along the whole history -/
def Lifetime (k : Key) : MemStore → History → Prop
  | _, [] => True
  | s, (now, op) :: rest =>
    ¬ ExcludedStep s now op k ∧ (applyOp s now op).1.mem.lookup k ≠ none ∧ Lifetime k (applyOp s now op).1 rest

/-- invariant carried along a lifetime: the current record is the original version, or carries a
    strictly larger counter-issued CAS -/
theorem lifetime_inv (k : Key) (x : Record) (h : History) :
    ∀ (s : MemStore) (y : Record), s.mem.lookup k = some y → y.header.cas < s.casId →
      (sameItem x y ∨ x.header.cas < y.header.cas) → Lifetime k s h →
      ∃ z, (runOps s h).mem.lookup k = some z ∧ z.header.cas < (runOps s h).casId ∧
        (sameItem x z ∨ x.header.cas < z.header.cas) := by
  induction h with
  | nil => intro s y hl hf hinv _; exact ⟨y, hl, hf, hinv⟩
  | cons e rest ih =>
    obtain ⟨now, op⟩ := e
    intro s y hl hf hinv hlife
    obtain ⟨hnex, hpres, hrest⟩ := hlife
    simp only [runOps]
    have hle := applyOp_casId_le s now op
    rcases step_alt s now op k y hl with h1 | ⟨r', h1, hs⟩ | ⟨r', h1, hc, hn, _, _, _⟩ | ⟨r', h1, hx, hcas, hkey, _, _⟩
    · exact absurd h1 hpres
    · have hs : sameItem y r' := by
        rcases hs with rfl | ⟨t, _, rfl⟩
        · exact sameItem_refl _
        · exact flushRecord_same now t y
      refine ih _ r' h1 (by rw [hs.2.2]; omega) ?_ hrest
      rcases hinv with hsame | hlt
      · left; exact ⟨hs.1.trans hsame.1, hs.2.1.trans hsame.2.1, hs.2.2.trans hsame.2.2⟩
      · right; rw [hs.2.2]; exact hlt
    · refine ih _ r' h1 (by omega) ?_ hrest
      right
      rcases hinv with hsame | hlt
      · rw [hc, ← hsame.2.2]; exact hf
      · omega
    · exact absurd ⟨hkey, hcas, y, hl, hx⟩ hnex

/-- **a CAS value identifies one version**: in a lifetime that starts with a counter-issued CAS, if after
    any history the item reports the same CAS as before, it has the same value and flags — so a client
    holding `(value, cas)` whose CAS-store succeeds has not been overtaken by any mutation. -/
theorem C02_cas_identifies_version (s : MemStore) (k : Key) (x z : Record) (h : History)
    (hl : s.mem.lookup k = some x) (hfresh : x.header.cas < s.casId) (hlife : Lifetime k s h)
    (hz : (runOps s h).mem.lookup k = some z) (hcas : z.header.cas = x.header.cas) :
    z.value = x.value ∧ z.header.flags = x.header.flags := by
  obtain ⟨z', hz', _, hinv⟩ := lifetime_inv k x h s x hl hfresh (Or.inl (sameItem_refl x)) hlife
  rw [hz] at hz'; simp at hz'; subst hz'
  rcases hinv with hsame | hlt
  · exact ⟨hsame.1, hsame.2.1⟩
  · omega

/-- counter-issued lifetimes exist: an unconditional store yields a record below the counter -/
theorem C02_unconditional_store_is_fresh (s : MemStore) (now : Nat) (k : Key) (r : Record) (h0 : r.header.cas = 0) :
    ∃ x, (s.set now k r).1.mem.lookup k = some x ∧ x.header.cas < (s.set now k r).1.casId := by
  rw [set_cas0 s now k r h0]
  exact ⟨stamp r s.casId now, by simp [Mem.lookup_insert_self], by simp [stamp]⟩

/-- non-vacuity: a concrete lifetime with a successful CAS store, a failed one and a foreign command -/
example : Lifetime [1] ⟨[([1], ⟨⟨0, 1, 0, 0⟩, [65]⟩)], 2⟩
    [(1, .set [1] (Record.new [66] 1 0 0)), (2, .set [1] (Record.new [67] 1 0 0)), (3, .get [2])] := by
  simp [Lifetime, ExcludedStep, applyOp, MemStore.set, Record.new, Meta.new, Mem.lookup, Mem.insert, Mem.erase,
    Op.key, Op.cas, MemStore.get, MemStore.getByKey, Record.expired]


/-! ## under eviction policy random

The property quantifies over both eviction policies. `RandomPolicy::set` evicts first and hands the store to the inner
`set` afterwards, so what a conditional store is compared with is the item *as it survived this request's eviction*. -/

/-- the eviction loop touches only its victims: an item that is not among them is stored afterwards exactly as before -/
theorem evictLoop_lookup_of_not_victim (value : Nat) (tape : List Key) (p : Policy) (u : Nat) (k : Key) (hk : k ∉ tape) :
    (Policy.evictLoop value tape p u).inner.mem.lookup k = p.inner.mem.lookup k := by
  induction tape generalizing p u with
  | nil => unfold Policy.evictLoop; split <;> (try split) <;> rfl
  | cons v rest ih =>
    unfold Policy.evictLoop
    have hv : k ≠ v := fun h => hk (by simp [h])
    have hr : k ∉ rest := fun h => hk (by simp [h])
    by_cases hg : u > p.limit
    · simp only [hg, if_true]
      by_cases he : p.inner.len = 0
      · simp [he]
      · simp only [he, if_false]
        cases hl : p.inner.mem.lookup v with
        | none => rfl
        | some r =>
          simp only
          rw [ih _ _ hr]; exact Mem.lookup_erase_ne _ hv
    · simp [hg]

/-- **CAS guards against lost updates under memory pressure too**: whatever the memory limit, the accounted usage and the
    victims this request evicts, a store carrying a non-zero CAS that is not the current CAS of an item which is not one of
    those victims is refused with 'key exists', and the item is left exactly as it was -/
theorem C02_policy_stale_cas (p : Policy) (now : Nat) (k : Key) (r old : Record)
    (hl : p.inner.mem.lookup k = some old) (hv : k ∉ p.tape)
    (hc : r.header.cas ≠ 0) (hne : old.header.cas ≠ r.header.cas) :
    (p.set now k r).2 = .error .keyExists ∧ (p.set now k r).1.inner.mem.lookup k = some old := by
  have h1 : (p.incrMemUsage r.len).inner.mem.lookup k = some old := by
    unfold Policy.incrMemUsage
    rw [evictLoop_lookup_of_not_victim _ _ _ _ _ hv]; exact hl
  unfold Policy.set
  simp only
  rw [MemStore.set_mismatch _ now k r old hc h1 hne]
  exact ⟨rfl, h1⟩

/-- **… and so does a delete behind the policy**: with a CAS that is neither 0 nor the item's current one the answer is
    'key exists' and nothing changes — neither the store nor the accounting; with CAS 0 or the current CAS the item is
    removed and exactly its bytes are given back -/
theorem C02_policy_delete_cas_iff (p : Policy) (k : Key) (cas : Nat) (x : Record) (hl : p.inner.mem.lookup k = some x) :
    (¬ (cas = 0 ∨ x.header.cas = cas) → p.delete k cas = (p, .error .keyExists)) ∧
    ((cas = 0 ∨ x.header.cas = cas) →
      (p.delete k cas).2 = .ok x ∧ (p.delete k cas).1.inner.mem.lookup k = none ∧
      (p.delete k cas).1.usage = wsub p.usage x.len) := by
  constructor
  · intro h
    simp [Policy.delete, delete_mismatch p.inner k cas x hl h]
  · intro h
    simp [Policy.delete, delete_ok p.inner k cas x hl h, Mem.lookup_erase_self]

/-- non-vacuity: limit 60, an item of 25 bytes stored with CAS 1, a 50-byte store with the stale CAS 7 that evicts
    nothing it addresses (empty victim tape) -/
example : ((({ inner := ⟨[([1], ⟨⟨0, 1, 0, 0⟩, [65]⟩)], 2⟩, usage := 25, limit := 1000 } : Policy).set 0 [1]
    (Record.new [66] 7 0 0)).2 matches .error .keyExists) = true := by decide

end Memc

#print axioms Memc.C02_set_cas_iff
#print axioms Memc.C02_rmw_cas_iff
#print axioms Memc.C02_delta_stale
#print axioms Memc.C02_delete_cas_iff
#print axioms Memc.C02_ack_is_reported
#print axioms Memc.lifetime_inv
#print axioms Memc.C02_cas_identifies_version
#print axioms Memc.C02_unconditional_store_is_fresh
#print axioms Memc.evictLoop_lookup_of_not_victim
#print axioms Memc.C02_policy_stale_cas
#print axioms Memc.C02_policy_delete_cas_iff
