import MemcVerif.Model.Server
/-!
# C17 — the connection limit is enforced and slots are always returned

Over every sequence of connection life-cycles of any length, for every limit. The seven ways a connection
can end are one event (`finish`) because `Drop for Client` is the only place a permit is returned and every
exit of `Client::handle` drops the client; that they all do is what the `server` suite ties to the code.
Tokio's semaphore and task scheduling are trusted.
-/
namespace Memc
open Srv

/-- permits and served connections always add up to the limit -/
def Srv.Inv (s : Srv) : Prop := s.permits + s.active.length = s.limit

theorem settle_inv (fuel : Nat) (s : Srv) (h : s.Inv) : (settle fuel s).Inv ∧ (settle fuel s).limit = s.limit := by
  induction fuel generalizing s with
  | zero => exact ⟨h, rfl⟩
  | succ f ih =>
    unfold settle
    cases hh : s.holding with
    | some j =>
      simp only
      by_cases hp : s.permits > 0
      · simp only [hp, if_true]
        by_cases hg : s.gone.contains j = true
        · simp only [hg, if_true]
          exact ih _ h
        · simp only [hg, Bool.false_eq_true, if_false]
          have h' : Srv.Inv { s with holding := none, permits := s.permits - 1, active := s.active ++ [j] } := by
            unfold Srv.Inv at *; simp; omega
          exact ih _ h'
      · simp only [hp, if_false]; exact ⟨h, by trivial⟩
    | none =>
      simp only
      cases hb : s.backlog with
      | nil => exact ⟨h, rfl⟩
      | cons j rest => exact ih _ h

theorem step_inv (s : Srv) (e : SEv) (h : s.Inv) : (step s e).Inv ∧ (step s e).limit = s.limit := by
  cases e with
  | connect i => exact settle_inv _ _ h
  | finish i =>
    unfold step
    by_cases ha : s.active.contains i = true
    · simp only [ha, if_true]
      have hm : i ∈ s.active := by simpa using ha
      have h' : Srv.Inv { s with active := s.active.erase i, permits := s.permits + 1 } := by
        unfold Srv.Inv at *
        simp only [List.length_erase_of_mem hm]
        have : 0 < s.active.length := List.length_pos_of_mem hm
        omega
      exact settle_inv _ _ h'
    · simp only [ha, Bool.false_eq_true, if_false]
      split <;> exact ⟨h, rfl⟩

/-- **at most `limit` connections are served, after any history** -/
theorem C17_inv (limit : Nat) (es : List SEv) :
    (run (Srv.init limit) es).Inv ∧ (run (Srv.init limit) es).limit = limit := by
  have hgen : ∀ (s : Srv), s.Inv → (run s es).Inv ∧ (run s es).limit = s.limit := by
    induction es with
    | nil => intro s h; exact ⟨h, rfl⟩
    | cons e rest ih =>
      intro s h
      simp only [run, List.foldl_cons]
      obtain ⟨h1, h2⟩ := step_inv s e h
      have := ih (step s e) h1
      exact ⟨this.1, by rw [← h2]; exact this.2⟩
  exact hgen _ (by simp [Srv.Inv, Srv.init])

theorem C17_at_most_limit (limit : Nat) (es : List SEv) : (run (Srv.init limit) es).served.length ≤ limit := by
  obtain ⟨h1, h2⟩ := C17_inv limit es
  unfold Srv.Inv at h1; unfold served; omega

/-- **every slot comes back, exactly once**: when no connection is being served any more the server can
    again serve `limit` fresh ones — and never more (the permit count is exactly the limit) -/
theorem C17_fresh_limit_again (limit : Nat) (es : List SEv) (hnone : (run (Srv.init limit) es).active = []) :
    (run (Srv.init limit) es).permits = limit := by
  obtain ⟨h1, h2⟩ := C17_inv limit es
  unfold Srv.Inv at h1; rw [hnone] at h1; simp at h1; omega

/-- **picked up as soon as a slot frees**: a connection held by the accept loop is served by the very
    event that ends a served one -/
theorem C17_pickup (s : Srv) (i j : Nat) (hi : s.active.contains i = true) (hj : s.holding = some j)
    (hgone : s.gone.contains j = false) : j ∈ (step s (.finish i)).served := by
  unfold step
  simp only [hi, if_true]
  unfold settle
  simp only [hj]
  have : s.permits + 1 > 0 := by omega
  simp only [this, if_true, hgone, Bool.false_eq_true, if_false]
  -- after serving j the loop may accept further connections but never removes j
  have keep : ∀ (fuel : Nat) (t : Srv), j ∈ t.active → j ∈ (settle fuel t).active := by
    intro fuel
    induction fuel with
    | zero => intro t h; exact h
    | succ f ih =>
      intro t h
      unfold settle
      cases t.holding with
      | some k =>
        simp only
        split
        · split
          · exact ih _ h
          · exact ih _ (by simp; left; exact h)
        · exact h
      | none =>
        simp only
        cases t.backlog with
        | nil => exact h
        | cons k rest => exact ih _ h
  exact keep _ _ (by simp [served])

/-- the accept loop has nothing left to do: either a connection is held and no permit is free, or nobody waits -/
def Srv.Stuck (s : Srv) : Prop :=
  (s.holding.isSome = true ∧ s.permits = 0) ∨ (s.holding = none ∧ s.backlog = [])

/-- the fuel given to `settle` is enough: the loop always runs to the point where it has to wait -/
theorem settle_stuck (fuel : Nat) (s : Srv)
    (h : 2 * s.backlog.length + (if s.holding.isSome then 1 else 0) < fuel) : (settle fuel s).Stuck := by
  induction fuel generalizing s with
  | zero => omega
  | succ f ih =>
    unfold settle
    cases hh : s.holding with
    | some j =>
      simp only [hh, Option.isSome_some, if_true] at h
      simp only
      by_cases hp : s.permits > 0
      · simp only [hp, if_true]
        by_cases hg : s.gone.contains j = true
        · simp only [hg, if_true]
          exact ih _ (by simp; omega)
        · simp only [hg, Bool.false_eq_true, if_false]
          exact ih _ (by simp; omega)
      · simp only [hp, if_false]
        exact Or.inl ⟨by simp [hh], by omega⟩
    | none =>
      simp only [hh, Option.isSome_none, Bool.false_eq_true, if_false] at h
      simp only
      cases hb : s.backlog with
      | nil => exact Or.inr ⟨hh, hb⟩
      | cons j rest =>
        simp only [hb, List.length_cons] at h
        exact ih _ (by simp; omega)

/-- **work conserving**: after any history, nobody waits (held or in the backlog) while a permit is free — a
    connection is refused service only because `limit` others are being served -/
theorem C17_work_conserving (limit : Nat) (es : List SEv) : (run (Srv.init limit) es).Stuck := by
  have hgen : ∀ (s : Srv), s.Stuck → (run s es).Stuck := by
    induction es with
    | nil => intro s h; exact h
    | cons e rest ih =>
      intro s h
      simp only [run, List.foldl_cons]
      apply ih
      cases e with
      | connect i =>
        simp only [step]
        apply settle_stuck
        simp only [List.length_append, List.length_cons, List.length_nil]
        split <;> omega
      | finish i =>
        unfold step
        by_cases ha : s.active.contains i = true
        · simp only [ha, if_true]
          apply settle_stuck
          simp only
          split <;> omega
        · simp only [ha, Bool.false_eq_true, if_false]
          split
          · exact h
          · exact h
  exact hgen _ (Or.inr ⟨rfl, rfl⟩)

/-- spelled out: a free permit means nobody is waiting -/
theorem C17_free_permit_nobody_waits (limit : Nat) (es : List SEv) (hp : (run (Srv.init limit) es).permits > 0) :
    (run (Srv.init limit) es).holding = none ∧ (run (Srv.init limit) es).backlog = [] := by
  rcases C17_work_conserving limit es with ⟨_, h0⟩ | h
  · omega
  · exact h

/-- non-vacuity and an end-to-end instance: limit 1, three connections, the first two end -/
example : (run (Srv.init 1) [.connect 0, .connect 1, .connect 2, .finish 0, .finish 1]).served = [2] := by decide

/-- the configuration is enforced as given (C20): one semaphore in every runtime, total limit = configured -/
theorem C17_config_total_limit (c : Config) : (effective c).totalConnLimit = c.connLimit ∧ (effective c).semaphores = 1 := by
  simp [effective]

end Memc

#print axioms Memc.settle_inv
#print axioms Memc.step_inv
#print axioms Memc.C17_inv
#print axioms Memc.C17_at_most_limit
#print axioms Memc.C17_fresh_limit_again
#print axioms Memc.C17_pickup
#print axioms Memc.C17_config_total_limit
#print axioms Memc.settle_stuck
#print axioms Memc.C17_work_conserving
#print axioms Memc.C17_free_permit_nobody_waits
