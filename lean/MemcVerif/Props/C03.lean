import MemcVerif.Model.Conc
import MemcVerif.Proofs.Cmds
import MemcVerif.Proofs.Lin
/-!
# C03 — concurrent get / set / CAS-set / delete on a key are atomic

Model: `Conc` — every `Cache` trait call is one atomic step on the shared store, `Cache::get` is two of them
(snapshot, then "collect the stored record if *it* is expired"); any number of threads, any schedule. The
clock is constant during a concurrent phase.

Because every command has exactly one effectful call (set: the store call; delete: the remove_if; get: none —
its answer is fixed by the snapshot, and its second call only ever removes a record that is expired, i.e.
invisible), each command takes effect at one call inside its interval: the order of those calls is the
one-at-a-time order. The theorems below are the facts this argument rests on, proved for every state.
OS-level atomicity of a single DashMap call is trusted; the `sched` and `stress` suites tie it.
-/
namespace Memc
open MemStore

/-- the second half of `get` answers from the snapshot alone … -/
theorem C03_get_decides_on_snapshot (s : MemStore) (now : Nat) (k : Key) (snap : Record) :
    (s.checkIfExpired now k snap).2 = snap.expired now := by
  unfold checkIfExpired Record.expired
  by_cases h0 : snap.header.ttl = 0
  · simp [h0]
  · by_cases h1 : snap.header.timestamp + snap.header.ttl > now
    · simp [h0, h1]
    · simp [h0, h1]; split <;> (try split) <;> simp [h0]

/-- … and changes the store only by removing a record that is itself expired (hence invisible): every
    other key, and a live record under the same key, are left exactly as they are -/
theorem C03_collect_only_expired (s : MemStore) (now : Nat) (k : Key) (snap : Record) :
    (s.checkIfExpired now k snap).1 = s ∨
    (∃ cur, s.mem.lookup k = some cur ∧ cur.expired now = true ∧
      (s.checkIfExpired now k snap).1 = { s with mem := s.mem.erase k }) := by
  unfold checkIfExpired
  by_cases h0 : snap.header.ttl = 0
  · simp [h0]
  · by_cases h1 : snap.header.timestamp + snap.header.ttl > now
    · simp [h0, h1]
    · simp only [h0, h1, if_false]
      cases hl : s.mem.lookup k with
      | none => simp
      | some cur =>
        simp only
        by_cases he : cur.expired now = true
        · right; exact ⟨cur, rfl, he, by simp [he]⟩
        · left; simp [he]

/-- **an acknowledged store is never undone by a concurrent retrieval**, including one that is collecting
    the expired predecessor it read earlier: whatever snapshot the reader holds, its collection step leaves a
    record stored at the current time in place -/
theorem C03_ack_not_undone (s : MemStore) (now : Nat) (k : Key) (r snap : Record) (c : Nat)
    (hack : (s.set now k r).2 = .ok c) :
    ((s.set now k r).1.checkIfExpired now k snap).1 = (s.set now k r).1 := by
  rcases C03_collect_only_expired (s.set now k r).1 now k snap with h | ⟨cur, hl, he, _⟩
  · exact h
  · exfalso
    rcases set_self_cases s now k r with ⟨h1, _⟩ | ⟨h1, _⟩ | ⟨h1, _⟩
    · rw [h1] at hack; simp at hack
    · rw [h1] at hl; simp [Mem.lookup_insert_self] at hl; subst hl
      rw [stamp_fresh_not_expired] at he; simp at he
    · rw [h1] at hl; simp [Mem.lookup_insert_self] at hl; subst hl
      rw [stamp_fresh_not_expired] at he; simp at he

/-- the same with a clock that has moved on: a store acknowledged at time `now` is not undone by a collection running at
    any later time `now'` at which the stored item is still within its life (TTL 0, or `now' < now + TTL`) — whatever
    snapshot, however old, the collecting reader holds -/
theorem C03_ack_not_undone_later (s : MemStore) (now now' : Nat) (k : Key) (r snap : Record) (c : Nat)
    (hack : (s.set now k r).2 = .ok c) (hlive : r.header.ttl = 0 ∨ now' < now + r.header.ttl) :
    ((s.set now k r).1.checkIfExpired now' k snap).1 = (s.set now k r).1 := by
  rcases C03_collect_only_expired (s.set now k r).1 now' k snap with h | ⟨cur, hl, he, _⟩
  · exact h
  · exfalso
    have hfresh : ∀ c', (stamp r c' now).expired now' = false := by
      intro c'
      simp only [Record.expired, stamp]
      rcases hlive with h0 | h1
      · simp [h0]
      · simp; omega
    rcases set_self_cases s now k r with ⟨h1, _⟩ | ⟨h1, _⟩ | ⟨h1, _⟩
    · rw [h1] at hack; simp at hack
    · rw [h1] at hl; simp [Mem.lookup_insert_self] at hl; subst hl
      rw [hfresh] at he; simp at he
    · rw [h1] at hl; simp [Mem.lookup_insert_self] at hl; subst hl
      rw [hfresh] at he; simp at he

/-- the calls that may hit key `k` while CAS-stores with the same token race: the stores themselves and the two
    halves of any number of concurrent gets -/
inductive Call
  | casSet (r : Record)
  | snapshot
  | collect (snap : Record)
deriving Repr

def runCalls (now : Nat) (k : Key) : MemStore → List Call → MemStore × Nat
  | s, [] => (s, 0)
  | s, .casSet r :: rest =>
    let x := s.set now k r
    let y := runCalls now k x.1 rest
    (y.1, (match x.2 with | .ok _ => 1 | .error _ => 0) + y.2)
  | s, .snapshot :: rest => runCalls now k s rest
  | s, .collect snap :: rest => runCalls now k (s.checkIfExpired now k snap).1 rest

/-- once a CAS-store with token `c` has won, the item carries a different CAS and is live: the state in which
    every further store with token `c` fails -/
def Won (s : MemStore) (now : Nat) (k : Key) (c : Nat) : Prop :=
  ∃ y, s.mem.lookup k = some y ∧ y.header.cas ≠ c ∧ y.expired now = false ∧ c < s.casId

theorem won_no_more_wins (now : Nat) (k : Key) (c : Nat) (calls : List Call)
    (hall : ∀ call ∈ calls, ∀ r, call = .casSet r → r.header.cas = c) (hc : c ≠ 0) :
    ∀ s, Won s now k c → (runCalls now k s calls).2 = 0 := by
  induction calls with
  | nil => intro s _; rfl
  | cons call rest ih =>
    intro s hw
    have hrest : ∀ call ∈ rest, ∀ r, call = .casSet r → r.header.cas = c :=
      fun x hx => hall x (List.mem_cons_of_mem _ hx)
    obtain ⟨y, hl, hne, hlive, hfresh⟩ := hw
    cases call with
    | casSet r =>
      have hr : r.header.cas = c := hall _ (List.mem_cons_self ..) r rfl
      simp only [runCalls]
      rw [set_mismatch s now k r y (by rw [hr]; exact hc) hl (by rw [hr]; exact hne)]
      simp only
      rw [ih hrest s ⟨y, hl, hne, hlive, hfresh⟩]
    | snapshot => simp only [runCalls]; exact ih hrest s ⟨y, hl, hne, hlive, hfresh⟩
    | collect snap =>
      simp only [runCalls]
      rcases C03_collect_only_expired s now k snap with h | ⟨cur, hl2, he, _⟩
      · rw [h]; exact ih hrest s ⟨y, hl, hne, hlive, hfresh⟩
      · rw [hl] at hl2; simp at hl2; subst hl2; rw [hlive] at he; simp at he

/-- **of any number of concurrent CAS-stores carrying the same CAS at most one succeeds**, under every
    interleaving with each other and with the two halves of any number of concurrent gets, from every initial
    state of the key (absent, present, present-but-expired); `c` is a token the counter has passed -/
theorem C03_one_cas_winner (now : Nat) (k : Key) (c : Nat) (calls : List Call)
    (hall : ∀ call ∈ calls, ∀ r, call = .casSet r → r.header.cas = c) (hc : c ≠ 0) (hmax : c + 1 < U64) :
    ∀ s, c < s.casId → (runCalls now k s calls).2 ≤ 1 := by
  induction calls with
  | nil => intro s _; simp [runCalls]
  | cons call rest ih =>
    intro s hfresh
    have hrest : ∀ call ∈ rest, ∀ r, call = .casSet r → r.header.cas = c :=
      fun x hx => hall x (List.mem_cons_of_mem _ hx)
    cases call with
    | snapshot => simp only [runCalls]; exact ih hrest s hfresh
    | collect snap =>
      simp only [runCalls]
      rcases C03_collect_only_expired s now k snap with h | ⟨cur, _, _, h⟩
      · rw [h]; exact ih hrest s hfresh
      · rw [h]; exact ih hrest _ hfresh
    | casSet r =>
      have hr : r.header.cas = c := hall _ (List.mem_cons_self ..) r rfl
      simp only [runCalls]
      rcases set_self_cases s now k r with ⟨h1, _⟩ | ⟨h1, _⟩ | ⟨h1, hl, _⟩
      · rw [h1]; simp only; have := ih hrest s hfresh; omega
      · -- this store wins with a counter-issued CAS: nobody else can
        rw [h1]; simp only
        have hw : Won { mem := s.mem.insert k (stamp r s.casId now), casId := s.casId + 1 } now k c :=
          ⟨stamp r s.casId now, by simp [Mem.lookup_insert_self], by simp [stamp]; omega, stamp_fresh_not_expired _ _ _, by simp; omega⟩
        rw [won_no_more_wins now k c rest hrest hc _ hw]
        simp
      · -- the key was absent: this store wins with CAS c+1
        rw [h1]; simp only
        have hs : satSucc r.header.cas = c + 1 := by simp [satSucc, hr, hmax]
        have hw : Won { s with mem := s.mem.insert k (stamp r (satSucc r.header.cas) now) } now k c :=
          ⟨stamp r (satSucc r.header.cas) now, by simp [Mem.lookup_insert_self], by simp [stamp, hs], stamp_fresh_not_expired _ _ _, hfresh⟩
        rw [won_no_more_wins now k c rest hrest hc _ hw]
        simp

/-- non-vacuity: three racing CAS-stores with token 1 and a concurrent get, item present with CAS 1 -/
example : (runCalls 0 [1] ⟨[([1], ⟨⟨0, 1, 0, 0⟩, [65]⟩)], 2⟩
    [.snapshot, .casSet (Record.new [66] 1 0 0), .casSet (Record.new [67] 1 0 0), .collect ⟨⟨0, 1, 0, 0⟩, [65]⟩,
     .casSet (Record.new [68] 1 0 0)]).2 = 1 := by decide

/-! ## Linearizability of whole executions

`Sys.run` is the concurrent system: any number of client threads, each running its own program of get / set /
CAS-set / delete commands (on any keys — in particular all on one), interleaved call by call by an arbitrary
schedule. The theorems say that what the clients were answered and what the store holds afterwards are those of
the commands taking effect **one at a time**, each at one moment between its first and its last call. -/

/-- **every execution is a sequence of atomic events**: for every initial store, every number of clients, all
    programs of get/set/CAS-set/delete and every schedule (finished or not) there is a log — one event per started
    command, in the order of their linearization points, plus internal collections of expired records — such that
    the store is the log's result, each client's started commands appear in the log in that client's own order, and
    each client has been answered (or, between the two calls of a get, is already owed) exactly the log's results
    for it. -/
theorem C03_execution_is_atomic_events (sys0 : Sys) (hfresh : sys0.fresh) (now : Nat) (sched : List Nat) :
    ∃ log : List Ev,
      (sys0.run now sched).store = (runEvs sys0.store now log).1 ∧
      (sys0.run now sched).threads.length = sys0.threads.length ∧
      ∀ i t0 t, sys0.threads[i]? = some t0 → (sys0.run now sched).threads[i]? = some t →
        t0.todo = cmdsOf i log ++ t.todo ∧
        outsOf i (runEvs sys0.store now log).2 = t.results ++ t.pending now := by
  obtain ⟨log, h⟩ := rel_run now sys0 sched sys0 [] (rel_init now sys0 hfresh)
  exact ⟨log, h.store, h.len, fun i t0 t h0 h1 => ⟨(h.thr i t0 t h0 h1).todo, (h.thr i t0 t h0 h1).outs⟩⟩

/-- the internal event of that log — the collection half of a get — never changes what any retrieval of any key
    can see: it removes at most a record whose deadline has passed -/
theorem C03_collect_invisible (s : MemStore) (now : Nat) (k : Key) (snap : Record) (k' : Key) :
    (s.checkIfExpired now k snap).1.vis now k' = s.vis now k' := by
  rcases C03_collect_only_expired s now k snap with h | ⟨cur, hl, he, h⟩
  · rw [h]
  · rw [h]
    by_cases hk : k' = k
    · subst hk; simp [vis_def, Mem.lookup_erase_self, hl, he]
    · simp [vis_def, Mem.lookup_erase_ne _ hk]

/-- **linearizability** against the sequential model (`applyOp`, the model of C01, C02, C05–C08), stated for
    concurrent phases in which nothing stored has passed its deadline (then collections do nothing; with expired
    records around, `C03_execution_is_atomic_events` and `C03_collect_invisible` are the statement): when every
    client has finished there is **one one-at-a-time ordering** `lin` of all commands that respects each client's
    own order, whose sequential execution ends in exactly the final store and hands every client exactly the
    responses it received. -/
theorem C03_linearizable (sys0 : Sys) (hfresh : sys0.fresh) (now : Nat) (sched : List Nat)
    (hlive : AllLive sys0.store now) (hq : (sys0.run now sched).quiescent = true) :
    ∃ lin : List (Nat × CCmd),
      (sys0.run now sched).store = (runSeq sys0.store now lin).1 ∧
      ∀ i t0 t, sys0.threads[i]? = some t0 → (sys0.run now sched).threads[i]? = some t →
        (lin.filterMap (fun p => if p.1 = i then some p.2 else none) = t0.todo) ∧
        (t.results.map CRes.toRes =
          (runSeq sys0.store now lin).2.filterMap (fun p => if p.1 = i then some p.2 else none)) := by
  obtain ⟨log, h⟩ := rel_run now sys0 sched sys0 [] (rel_init now sys0 hfresh)
  obtain ⟨e1, e2, _⟩ := runEvs_eq_runSeq now log h.plainLog sys0.store hlive
  refine ⟨linOf log, by rw [h.store, e1], ?_⟩
  intro i t0 t h0 h1
  have hr := h.thr i t0 t h0 h1
  have hfin : t.finished = true := by
    have := List.all_eq_true.mp hq t (List.mem_of_getElem? h1)
    exact this
  have htodo : t.todo = [] := by
    simp [Thread.finished] at hfin; exact hfin.1
  have hphase : t.phase = .idle := by
    simp [Thread.finished] at hfin; exact hfin.2
  refine ⟨?_, ?_⟩
  · rw [hr.todo, htodo, List.append_nil]
    simp only [linOf, cmdsOf, List.filterMap_filterMap]
    congr 1; funext e; cases e <;> simp
  · rw [← e2]
    have ho := hr.outs
    simp only [Thread.pending, hphase, List.append_nil] at ho
    rw [← ho]
    simp only [outsOf, List.filterMap_map, List.map_filterMap]
    congr 1; funext p; simp only [Function.comp]; split <;> simp

/-- non-vacuity: two clients racing a CAS-store, a get and a delete on one key from a fresh, live state; the schedule
    interleaves the two halves of the get with the other client's store -/
example : let sys0 : Sys := ⟨⟨[([1], ⟨⟨0, 1, 0, 0⟩, [65]⟩)], 2⟩,
      [{ todo := [.get [1], .delete [1] 0] }, { todo := [.set [1] (Record.new [66] 1 0 0)] }]⟩
    sys0.fresh ∧ AllLive sys0.store 0 ∧ (sys0.run 0 [0, 1, 0, 0]).quiescent = true := by
  refine ⟨?_, ?_, by decide⟩
  · intro t ht; simp at ht; rcases ht with rfl | rfl <;> simp [CCmd.plain]
  · intro k r h
    simp [Mem.lookup] at h
    obtain ⟨_, rfl⟩ := h; decide


/-- the schedules the `sched` suite drives may contain a tick of the clock and a stale clock reading (`Sys.runToks`);
    without them they are the schedules of the theorems above -/
theorem C03_runToks_of_grants (sys : Sys) (now : Nat) (is : List Nat) :
    sys.runToks now (is.map Tok.grant) = (sys.run now is, now) := by
  induction is generalizing sys with
  | nil => rfl
  | cons i rest ih => simp only [List.map, Sys.runToks, Sys.run, List.foldl]; exact ih _

end Memc

#print axioms Memc.C03_get_decides_on_snapshot
#print axioms Memc.C03_collect_only_expired
#print axioms Memc.C03_ack_not_undone
#print axioms Memc.won_no_more_wins
#print axioms Memc.C03_one_cas_winner
#print axioms Memc.C03_execution_is_atomic_events
#print axioms Memc.C03_collect_invisible
#print axioms Memc.C03_linearizable
#print axioms Memc.C03_ack_not_undone_later
#print axioms Memc.C03_runToks_of_grants
