import MemcVerif.Model.Conc
import MemcVerif.Proofs.Cmds
/-!
# C03 — concurrent get / set / CAS-set / delete on a key are atomic

Model: `Conc` — every `Cache` trait call is one atomic step on the shared store, `Cache::get` is two of them
(snapshot, then "collect the stored record if *it* is expired"); any number of threads, any schedule. The
clock is constant during a concurrent phase.

Because every command has exactly one effectful call (set: the store call; delete: the remove_if; get: none —
its answer is fixed by the snapshot, and its second call only ever removes a record that is expired, i.e.
invisible), each command takes effect at one call inside its interval: the order of those calls is the
one-at-a-time order. The theorems below are the facts this argument rests on, proved for every state.
OS-level atomicity of a single DashMap call is trusted; the `sched` and `stress` suites tie it.
-/
namespace Memc
open MemStore

/-- the second half of `get` answers from the snapshot alone … -/
theorem C03_get_decides_on_snapshot (s : MemStore) (now : Nat) (k : Key) (snap : Record) :
    (s.checkIfExpired now k snap).2 = snap.expired now := by
  unfold checkIfExpired Record.expired
  by_cases h0 : snap.header.ttl = 0
  · simp [h0]
  · by_cases h1 : snap.header.timestamp + snap.header.ttl > now
    · simp [h0, h1]
    · simp [h0, h1]; split <;> (try split) <;> simp [h0]

/-- … and changes the store only by removing a record that is itself expired (hence invisible): every
    other key, and a live record under the same key, are left exactly as they are -/
theorem C03_collect_only_expired (s : MemStore) (now : Nat) (k : Key) (snap : Record) :
    (s.checkIfExpired now k snap).1 = s ∨
    (∃ cur, s.mem.lookup k = some cur ∧ cur.expired now = true ∧
      (s.checkIfExpired now k snap).1 = { s with mem := s.mem.erase k }) := by
  unfold checkIfExpired
  by_cases h0 : snap.header.ttl = 0
  · simp [h0]
  · by_cases h1 : snap.header.timestamp + snap.header.ttl > now
    · simp [h0, h1]
    · simp only [h0, h1, if_false]
      cases hl : s.mem.lookup k with
      | none => simp
      | some cur =>
        simp only
        by_cases he : cur.expired now = true
        · right; exact ⟨cur, rfl, he, by simp [he]⟩
        · left; simp [he]

/-- **an acknowledged store is never undone by a concurrent retrieval**, including one that is collecting
    the expired predecessor it read earlier: whatever snapshot the reader holds, its collection step leaves a
    record stored at the current time in place -/
theorem C03_ack_not_undone (s : MemStore) (now : Nat) (k : Key) (r snap : Record) (c : Nat)
    (hack : (s.set now k r).2 = .ok c) :
    ((s.set now k r).1.checkIfExpired now k snap).1 = (s.set now k r).1 := by
  rcases C03_collect_only_expired (s.set now k r).1 now k snap with h | ⟨cur, hl, he, _⟩
  · exact h
  · exfalso
    rcases set_self_cases s now k r with ⟨h1, _⟩ | ⟨h1, _⟩ | ⟨h1, _⟩
    · rw [h1] at hack; simp at hack
    · rw [h1] at hl; simp [Mem.lookup_insert_self] at hl; subst hl
      rw [stamp_fresh_not_expired] at he; simp at he
    · rw [h1] at hl; simp [Mem.lookup_insert_self] at hl; subst hl
      rw [stamp_fresh_not_expired] at he; simp at he

/-- the calls that may hit key `k` while CAS-stores with the same token race: the stores themselves and the two
    halves of any number of concurrent gets -/
inductive Call
  | casSet (r : Record)
  | snapshot
  | collect (snap : Record)
deriving Repr

def runCalls (now : Nat) (k : Key) : MemStore → List Call → MemStore × Nat
  | s, [] => (s, 0)
  | s, .casSet r :: rest =>
    let x := s.set now k r
    let y := runCalls now k x.1 rest
    (y.1, (match x.2 with | .ok _ => 1 | .error _ => 0) + y.2)
  | s, .snapshot :: rest => runCalls now k s rest
  | s, .collect snap :: rest => runCalls now k (s.checkIfExpired now k snap).1 rest

/-- once a CAS-store with token `c` has won, the item carries a different CAS and is live: the state in which
    every further store with token `c` fails -/
def Won (s : MemStore) (now : Nat) (k : Key) (c : Nat) : Prop :=
  ∃ y, s.mem.lookup k = some y ∧ y.header.cas ≠ c ∧ y.expired now = false ∧ c < s.casId

theorem won_no_more_wins (now : Nat) (k : Key) (c : Nat) (calls : List Call)
    (hall : ∀ call ∈ calls, ∀ r, call = .casSet r → r.header.cas = c) (hc : c ≠ 0) :
    ∀ s, Won s now k c → (runCalls now k s calls).2 = 0 := by
  induction calls with
  | nil => intro s _; rfl
  | cons call rest ih =>
    intro s hw
    have hrest : ∀ call ∈ rest, ∀ r, call = .casSet r → r.header.cas = c :=
      fun x hx => hall x (List.mem_cons_of_mem _ hx)
    obtain ⟨y, hl, hne, hlive, hfresh⟩ := hw
    cases call with
    | casSet r =>
      have hr : r.header.cas = c := hall _ (List.mem_cons_self ..) r rfl
      simp only [runCalls]
      rw [set_mismatch s now k r y (by rw [hr]; exact hc) hl (by rw [hr]; exact hne)]
      simp only
      rw [ih hrest s ⟨y, hl, hne, hlive, hfresh⟩]
    | snapshot => simp only [runCalls]; exact ih hrest s ⟨y, hl, hne, hlive, hfresh⟩
    | collect snap =>
      simp only [runCalls]
      rcases C03_collect_only_expired s now k snap with h | ⟨cur, hl2, he, _⟩
      · rw [h]; exact ih hrest s ⟨y, hl, hne, hlive, hfresh⟩
      · rw [hl] at hl2; simp at hl2; subst hl2; rw [hlive] at he; simp at he

/-- **of any number of concurrent CAS-stores carrying the same CAS at most one succeeds**, under every
    interleaving with each other and with the two halves of any number of concurrent gets, from every initial
    state of the key (absent, present, present-but-expired); `c` is a token the counter has passed -/
theorem C03_one_cas_winner (now : Nat) (k : Key) (c : Nat) (calls : List Call)
    (hall : ∀ call ∈ calls, ∀ r, call = .casSet r → r.header.cas = c) (hc : c ≠ 0) (hmax : c + 1 < U64) :
    ∀ s, c < s.casId → (runCalls now k s calls).2 ≤ 1 := by
  induction calls with
  | nil => intro s _; simp [runCalls]
  | cons call rest ih =>
    intro s hfresh
    have hrest : ∀ call ∈ rest, ∀ r, call = .casSet r → r.header.cas = c :=
      fun x hx => hall x (List.mem_cons_of_mem _ hx)
    cases call with
    | snapshot => simp only [runCalls]; exact ih hrest s hfresh
    | collect snap =>
      simp only [runCalls]
      rcases C03_collect_only_expired s now k snap with h | ⟨cur, _, _, h⟩
      · rw [h]; exact ih hrest s hfresh
      · rw [h]; exact ih hrest _ hfresh
    | casSet r =>
      have hr : r.header.cas = c := hall _ (List.mem_cons_self ..) r rfl
      simp only [runCalls]
      rcases set_self_cases s now k r with ⟨h1, _⟩ | ⟨h1, _⟩ | ⟨h1, hl, _⟩
      · rw [h1]; simp only; have := ih hrest s hfresh; omega
      · -- this store wins with a counter-issued CAS: nobody else can
        rw [h1]; simp only
        have hw : Won { mem := s.mem.insert k (stamp r s.casId now), casId := s.casId + 1 } now k c :=
          ⟨stamp r s.casId now, by simp [Mem.lookup_insert_self], by simp [stamp]; omega, stamp_fresh_not_expired _ _ _, by simp; omega⟩
        rw [won_no_more_wins now k c rest hrest hc _ hw]
        simp
      · -- the key was absent: this store wins with CAS c+1
        rw [h1]; simp only
        have hs : satSucc r.header.cas = c + 1 := by simp [satSucc, hr, hmax]
        have hw : Won { s with mem := s.mem.insert k (stamp r (satSucc r.header.cas) now) } now k c :=
          ⟨stamp r (satSucc r.header.cas) now, by simp [Mem.lookup_insert_self], by simp [stamp, hs], stamp_fresh_not_expired _ _ _, hfresh⟩
        rw [won_no_more_wins now k c rest hrest hc _ hw]
        simp

/-- non-vacuity: three racing CAS-stores with token 1 and a concurrent get, item present with CAS 1 -/
example : (runCalls 0 [1] ⟨[([1], ⟨⟨0, 1, 0, 0⟩, [65]⟩)], 2⟩
    [.snapshot, .casSet (Record.new [66] 1 0 0), .casSet (Record.new [67] 1 0 0), .collect ⟨⟨0, 1, 0, 0⟩, [65]⟩,
     .casSet (Record.new [68] 1 0 0)]).2 = 1 := by decide

end Memc

#print axioms Memc.C03_get_decides_on_snapshot
#print axioms Memc.C03_collect_only_expired
#print axioms Memc.C03_ack_not_undone
#print axioms Memc.won_no_more_wins
#print axioms Memc.C03_one_cas_winner
