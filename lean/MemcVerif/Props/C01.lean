import MemcVerif.Proofs.Policy
import MemcVerif.Proofs.Frame
import MemcVerif.Proofs.Link
/-!
# C01 — stored data is returned exactly (read-your-writes, key isolation, no loss without eviction)

Obligations over the model of `MemoryStore`/`MemcStore` (eviction policy none). Quantifiers: every
store state, key, value, flags, TTL, clock reading and every history of foreign commands of any
length.
-/
namespace Memc
open MemStore

/-- counter-issued CAS values are never 0: the counter starts at 1 and only grows -/
def CounterPos (s : MemStore) : Prop := 1 ≤ s.casId

theorem C01_counter_pos_init : CounterPos MemStore.init := by simp [CounterPos, MemStore.init]

/-- an acknowledged unconditional store reports a non-zero CAS -/
theorem C01_ack_nonzero (s : MemStore) (hs : CounterPos s) (now : Nat) (k : Key) (v : Bytes) (f ttl : Nat) :
    ∃ c, (s.set now k (Record.new v 0 f ttl)).2 = .ok c ∧ c ≠ 0 := by
  refine ⟨s.casId, ?_, ?_⟩
  · rw [set_cas0 _ _ _ _ (by simp [Record.new, Meta.new])]
  · simp [CounterPos] at hs; omega

/-- the record an acknowledged store leaves behind: exactly the value and flags sent, the
    acknowledged CAS, stamped with the time of the store -/
def storedRecord (v : Bytes) (f ttl c t0 : Nat) : Record := ⟨⟨t0, c, f, ttl⟩, v⟩

/-- a command is *foreign* to `k`: addressed to another key, or to no key and not a flush -/
def Foreign (k : Key) (op : Op) : Prop :=
  match op with
  | .flush _ => False
  | .nop => True
  | _ => ∃ k', op.key = some k' ∧ k' ≠ k

/-- **key isolation**: a command addressed to `k` leaves the physical record of every other key
    untouched — hence what any later command returns for that key. All nine command kinds. -/
theorem C01_frame (s : MemStore) (now : Nat) (op : Op) (k k' : Key) (hk : op.key = some k) (hne : k' ≠ k) :
    (applyOp s now op).1.mem.lookup k' = s.mem.lookup k' := applyOp_frame s now op k k' hk hne

theorem foreign_step (s : MemStore) (now : Nat) (op : Op) (k : Key) (h : Foreign k op) :
    (applyOp s now op).1.mem.lookup k = s.mem.lookup k := by
  cases op with
  | flush t => simp [Foreign] at h
  | nop => simp [applyOp]
  | get k0 => obtain ⟨k', hk, hne⟩ := h; exact C01_frame s now _ k' k hk (Ne.symm hne)
  | set k0 r => obtain ⟨k', hk, hne⟩ := h; exact C01_frame s now _ k' k hk (Ne.symm hne)
  | add k0 r => obtain ⟨k', hk, hne⟩ := h; exact C01_frame s now _ k' k hk (Ne.symm hne)
  | replace k0 r => obtain ⟨k', hk, hne⟩ := h; exact C01_frame s now _ k' k hk (Ne.symm hne)
  | append k0 r => obtain ⟨k', hk, hne⟩ := h; exact C01_frame s now _ k' k hk (Ne.symm hne)
  | prepend k0 r => obtain ⟨k', hk, hne⟩ := h; exact C01_frame s now _ k' k hk (Ne.symm hne)
  | delta k0 a b c d => obtain ⟨k', hk, hne⟩ := h; exact C01_frame s now _ k' k hk (Ne.symm hne)
  | delete k0 c => obtain ⟨k', hk, hne⟩ := h; exact C01_frame s now _ k' k hk (Ne.symm hne)

/-- any history of foreign commands, of any length and at any clock readings, leaves `k`'s record alone -/
theorem foreign_history (s : MemStore) (k : Key) (mid : History) (h : ∀ e ∈ mid, Foreign k e.2) :
    (runOps s mid).mem.lookup k = s.mem.lookup k := by
  induction mid generalizing s with
  | nil => rfl
  | cons e rest ih =>
    obtain ⟨now, op⟩ := e
    simp only [runOps]
    rw [ih _ (fun e he => h e (List.mem_cons_of_mem _ he))]
    exact foreign_step s now op k (h (now, op) (List.mem_cons_self ..))

/-- **read-your-writes**: after an acknowledged store of `(v, f, ttl)` at `t0`, and after any history
    of commands on other keys, a retrieval at any time before the deadline (any time at all for TTL 0)
    returns exactly `v`, `f` and the acknowledged CAS. -/
theorem C01_read_your_writes (s : MemStore) (t0 : Nat) (k : Key) (v : Bytes) (f ttl : Nat)
    (mid : History) (hmid : ∀ e ∈ mid, Foreign k e.2) (t : Nat) (hlive : ttl = 0 ∨ t < t0 + ttl) :
    let s1 := (s.set t0 k (Record.new v 0 f ttl)).1
    ((runOps s1 mid).get t k).2 = .ok (storedRecord v f ttl s.casId t0)
      ∧ (s.set t0 k (Record.new v 0 f ttl)).2 = .ok s.casId := by
  intro s1
  have hset := set_cas0 s t0 k (Record.new v 0 f ttl) (by simp [Record.new, Meta.new])
  have hl : (runOps s1 mid).mem.lookup k = some (storedRecord v f ttl s.casId t0) := by
    rw [foreign_history _ k mid hmid]
    simp only [s1, hset, Mem.lookup_insert_self]
    simp [stamp, Record.new, Meta.new, storedRecord]
  refine ⟨?_, by rw [hset]⟩
  rw [get_result, vis_def, hl]
  have : (storedRecord v f ttl s.casId t0).expired t = false := by
    simp only [Record.expired, storedRecord]
    rcases hlive with h | h
    · simp [h]
    · simp; omega
  simp [this]

/-- **no loss without eviction**: with policy none a live record disappears only through its own
    delete or an immediate flush (a command on the key at a time when the record is live never drops it) -/
theorem C01_no_loss (s : MemStore) (now : Nat) (op : Op) (k : Key) (r : Record)
    (hl : s.mem.lookup k = some r) (hlive : r.expired now = false)
    (hgone : (applyOp s now op).1.mem.lookup k = none) :
    (∃ c, op = .delete k c) ∨ op = .flush 0 := by
  by_cases hk : op.key = some k
  · -- addressed to k
    have hvis : s.vis now k = some r := by simp [vis_def, hl, hlive]
    cases op with
    | delete k0 c => simp [Op.key] at hk; subst hk; exact Or.inl ⟨c, rfl⟩
    | flush t => simp [Op.key] at hk
    | nop => simp [Op.key] at hk
    | get k0 =>
      simp [Op.key] at hk; subst hk
      exfalso
      have h1 := get_lookup_self s now k0
      simp only [applyOp] at hgone
      split at hgone <;> rename_i h <;> simp [h] at h1 <;> simp [h1, hvis] at hgone
    | set k0 r' =>
      simp [Op.key] at hk; subst hk
      exfalso
      simp only [applyOp, MemStore.set] at hgone
      split at hgone
      · rw [hl] at hgone; simp only at hgone
        split at hgone
        · simp [hl] at hgone
        · simp [Mem.lookup_insert_self] at hgone
      · simp [Mem.lookup_insert_self] at hgone
    | add k0 r' =>
      simp [Op.key] at hk; subst hk
      exfalso
      have h1 := get_lookup_self s now k0
      have h2 := get_result s now k0
      simp only [applyOp, Cmd.add, memOps] at hgone
      rw [hvis] at h1 h2
      split at hgone <;> rename_i h <;> simp [h] at h1 h2
      · simp [h1] at hgone
    | replace k0 r' =>
      simp [Op.key] at hk; subst hk
      exfalso
      have h1 := get_lookup_self s now k0
      have h2 := get_result s now k0
      simp only [applyOp, Cmd.replace, memOps] at hgone
      rw [hvis] at h1 h2
      split at hgone <;> rename_i s' _ h <;> simp [h] at h1 h2
      · simp only [MemStore.set] at hgone
        split at hgone
        · rw [h1] at hgone; simp only at hgone
          split at hgone
          · simp [h1] at hgone
          · simp [Mem.lookup_insert_self] at hgone
        · simp [Mem.lookup_insert_self] at hgone
    | append k0 r' =>
      simp [Op.key] at hk; subst hk
      exfalso
      have h1 := get_lookup_self s now k0
      have h2 := get_result s now k0
      simp only [applyOp, Cmd.append, memOps] at hgone
      rw [hvis] at h1 h2
      split at hgone <;> rename_i s' _ h <;> simp [h] at h1 h2
      · simp only [MemStore.set] at hgone
        split at hgone
        · rw [h1] at hgone; simp only at hgone
          split at hgone
          · simp [h1] at hgone
          · simp [Mem.lookup_insert_self] at hgone
        · simp [Mem.lookup_insert_self] at hgone
    | prepend k0 r' =>
      simp [Op.key] at hk; subst hk
      exfalso
      have h1 := get_lookup_self s now k0
      have h2 := get_result s now k0
      simp only [applyOp, Cmd.prepend, memOps] at hgone
      rw [hvis] at h1 h2
      split at hgone <;> rename_i s' _ h <;> simp [h] at h1 h2
      · simp only [MemStore.set] at hgone
        split at hgone
        · rw [h1] at hgone; simp only at hgone
          split at hgone
          · simp [h1] at hgone
          · simp [Mem.lookup_insert_self] at hgone
        · simp [Mem.lookup_insert_self] at hgone
    | delta k0 hd d i inc =>
      simp [Op.key] at hk; subst hk
      exfalso
      have h1 := get_lookup_self s now k0
      have h2 := get_result s now k0
      rw [hvis] at h1 h2
      have hsetne : ∀ (s' s'' : MemStore) (x : Record) res, s'.mem.lookup k0 = some r →
          s'.set now k0 x = (s'', res) → s''.mem.lookup k0 ≠ none := by
        intro s' s'' x res hl' hs
        have : (s'.set now k0 x).1.mem.lookup k0 ≠ none := by
          simp only [MemStore.set]
          split
          · rw [hl']; simp only
            split
            · simp [hl']
            · simp [Mem.lookup_insert_self]
          · simp [Mem.lookup_insert_self]
        rw [hs] at this; exact this
      have key : (Cmd.addDelta memOps s now hd k0 d i inc).1.mem.lookup k0 ≠ none := by
        simp only [Cmd.addDelta, memOps]
        rcases hget : s.get now k0 with ⟨s', res⟩
        rw [hget] at h1 h2; simp only at h1 h2
        subst h2
        simp only
        cases hp : parseU64 r.value with
        | none => simp [h1]
        | some v =>
          simp only
          rcases hs : s'.set now k0 _ with ⟨s'', res2⟩
          have := hsetne s' s'' _ res2 h1 hs
          cases res2 <;> simpa using this
      apply key
      simp only [applyOp] at hgone
      split at hgone <;> rename_i h <;> simp [h] <;> exact hgone
  · -- not addressed to k
    cases op with
    | flush t =>
      by_cases ht : t = 0
      · subst ht; exact Or.inr rfl
      · exfalso
        simp only [applyOp] at hgone
        rw [flush_lookup, hl] at hgone
        have : t > 0 := by omega
        simp [this] at hgone
    | nop => simp [applyOp, hl] at hgone
    | get k0 => have := C01_frame s now (.get k0) k0 k rfl (fun e => hk (by simp [Op.key, e])); rw [this, hl] at hgone; simp at hgone
    | set k0 x => have := C01_frame s now (.set k0 x) k0 k rfl (fun e => hk (by simp [Op.key, e])); rw [this, hl] at hgone; simp at hgone
    | add k0 x => have := C01_frame s now (.add k0 x) k0 k rfl (fun e => hk (by simp [Op.key, e])); rw [this, hl] at hgone; simp at hgone
    | replace k0 x => have := C01_frame s now (.replace k0 x) k0 k rfl (fun e => hk (by simp [Op.key, e])); rw [this, hl] at hgone; simp at hgone
    | append k0 x => have := C01_frame s now (.append k0 x) k0 k rfl (fun e => hk (by simp [Op.key, e])); rw [this, hl] at hgone; simp at hgone
    | prepend k0 x => have := C01_frame s now (.prepend k0 x) k0 k rfl (fun e => hk (by simp [Op.key, e])); rw [this, hl] at hgone; simp at hgone
    | delta k0 a b c d => have := C01_frame s now (.delta k0 a b c d) k0 k rfl (fun e => hk (by simp [Op.key, e])); rw [this, hl] at hgone; simp at hgone
    | delete k0 c => have := C01_frame s now (.delete k0 c) k0 k rfl (fun e => hk (by simp [Op.key, e])); rw [this, hl] at hgone; simp at hgone

/-- the premises of `C01_read_your_writes` are met by a concrete non-trivial history -/
example : ∀ e ∈ ([(3, .set [2] (Record.new [9] 0 0 0)), (4, .delete [3] 0), (9, .get [7])] : History), Foreign [1] e.2 := by
  intro e he
  simp at he
  rcases he with rfl | rfl | rfl <;> simp [Foreign, Op.key]

/-! ## from the wire to the commands

The theorems above are about store commands. What the driver runs — and what is compared with the
implementation — is the connection model: bytes → decoder → `handleRequest` → encoded responses. The next
theorems say that this pipeline is the commands: the request handler is `applyOp ∘ reqOp` followed by
response construction, and a pipelined byte stream of acceptable frames moves the store by exactly the
frames' commands, in order, and writes exactly their responses, in order. -/

/-- `BinaryHandler::handle_request` = run the request's command, then build the response from its result -/
theorem C01_handler_is_command (s : MemStore) (now : Nat) (req : Req) :
    handleRequest memOps s now req =
      ((applyOp s now (reqOp req)).1, respond req (applyOp s now (reqOp req)).2) :=
  handleRequest_eq s now req

/-- a fresh connection fed any concatenation of complete acceptable frames whose requests do not end the
    connection: the connection is idle again with nothing buffered, the store is the commands' store and
    the bytes written are the responses in request order — for every number of frames and every frame -/
theorem C01_wire_to_command (limit now : Nat) (s : MemStore) (frames : List (Bytes × ReqHeader)) (reqs : List Req)
    (hall : ∀ f ∈ frames, IsFrame f.1 f.2 ∧ frameOK limit f.1 f.2 = true)
    (hev : frames.map (fun f => frameEv limit f.1 f.2) = reqs.map .frame)
    (hl : ∀ r ∈ reqs, r.leaves = false) :
    feed memOps limit now Conn.init s (frames.map (·.1)).flatten =
      (⟨.idle, [], false⟩, runOps s (reqs.map (fun r => (now, reqOp r))), respondAll now s reqs) := by
  have hd := drain_frames limit frames [] hall
  have hnil : drain limit .idle [] = ([], .idle, []) := by rw [drain_eq]; simp [decode1, Codec.decode, HEADER_LEN, afterDecode]
  simp only [List.append_nil, hnil, hev] at hd
  simp only [feed, Conn.init, List.nil_append, hd, execEvs_frames now s reqs hl]
  simp

/-- one arrival of bytes on a connection: the clock reading, the frames it is made of, and the requests
    those frames stand for -/
structure Batch where
  now : Nat
  frames : List (Bytes × ReqHeader)
  reqs : List Req

def Batch.bytes (b : Batch) : Bytes := (b.frames.map (·.1)).flatten
def Batch.ops (b : Batch) : History := b.reqs.map (fun r => (b.now, reqOp r))

def Batch.OK (limit : Nat) (b : Batch) : Prop :=
  (∀ f ∈ b.frames, IsFrame f.1 f.2 ∧ frameOK limit f.1 f.2 = true) ∧
  b.frames.map (fun f => frameEv limit f.1 f.2) = b.reqs.map .frame ∧
  (∀ r ∈ b.reqs, r.leaves = false)

/-- successive arrivals on one connection, each at its own clock reading -/
def feedBatches (limit : Nat) : Conn → MemStore → List Batch → Conn × MemStore × Bytes
  | c, s, [] => (c, s, [])
  | c, s, b :: rest =>
    let r := feed memOps limit b.now c s b.bytes
    let r2 := feedBatches limit r.1 r.2.1 rest
    (r2.1, r2.2.1, r.2.2 ++ r2.2.2)

theorem runOps_append (s : MemStore) (a b : History) : runOps s (a ++ b) = runOps (runOps s a) b := by
  induction a generalizing s with
  | nil => rfl
  | cons e rest ih => obtain ⟨n, op⟩ := e; simp only [List.cons_append, runOps]; exact ih _

/-- a whole connection's life — any number of arrivals at any clock readings, each any number of
    acceptable frames — moves the store by exactly the commands of the frames, in order -/
theorem C01_wire_history (limit : Nat) (s : MemStore) (bs : List Batch) (hok : ∀ b ∈ bs, b.OK limit) :
    (feedBatches limit Conn.init s bs).1 = Conn.init ∧
    (feedBatches limit Conn.init s bs).2.1 = runOps s (bs.flatMap Batch.ops) := by
  induction bs generalizing s with
  | nil => exact ⟨rfl, rfl⟩
  | cons b rest ih =>
    obtain ⟨h1, h2, h3⟩ := hok b (List.mem_cons_self ..)
    have hf := C01_wire_to_command limit b.now s b.frames b.reqs h1 h2 h3
    simp only [feedBatches, Batch.bytes, hf, List.flatMap_cons, runOps_append]
    exact ih _ (fun x hx => hok x (List.mem_cons_of_mem _ hx))

/-- **read-your-writes on the wire**: a Set frame for `(k, v, f, ttl)` with CAS 0 arrives at `t0`; then any
    arrivals whose frames' commands address other keys; then a Get frame for `k` arrives at `t` before the
    deadline. The bytes written back for the Get are exactly the encoding of a Get response carrying `v`,
    `f` and the CAS the Set was acknowledged with. -/
theorem C01_wire_read_your_writes (limit : Nat) (s : MemStore) (t0 t : Nat) (k : Key) (v : Bytes) (f ttl : Nat)
    (hs hg : ReqHeader) (fset fget : Bytes) (mid : List Batch)
    (hset : Batch.OK limit ⟨t0, [(fset, hs)], [.set hs f ttl k v]⟩) (hsop : isSetOp hs.opcode = true) (hcas : hs.cas = 0)
    (hmid : ∀ b ∈ mid, b.OK limit) (hfor : ∀ b ∈ mid, ∀ e ∈ b.ops, Foreign k e.2)
    (hget : Batch.OK limit ⟨t, [(fget, hg)], [.get hg k]⟩) (hgop : quietGetOp hg.opcode = false)
    (hlive : ttl = 0 ∨ t < t0 + ttl) :
    let st := (feedBatches limit Conn.init s (⟨t0, [(fset, hs)], [.set hs f ttl k v]⟩ :: mid)).2.1
    (feed memOps limit t Conn.init st fget).2.2 =
      encode (.get { opcode := hg.opcode, opaq := hg.opaq,
                     bodyLen := v.length + 4 + (if getKeyOp hg.opcode then k else []).length,
                     keyLen := (if getKeyOp hg.opcode then k else []).length, extrasLen := 4, cas := s.casId }
                f (if getKeyOp hg.opcode then k else []) v) := by
  intro st
  have hall : ∀ b ∈ (⟨t0, [(fset, hs)], [.set hs f ttl k v]⟩ :: mid : List Batch), b.OK limit := by
    intro b hb
    rcases List.mem_cons.mp hb with rfl | hb
    · exact hset
    · exact hmid b hb
  have hst : st = runOps (s.set t0 k (Record.new v 0 f ttl)).1 (mid.flatMap Batch.ops) := by
    simp only [st, (C01_wire_history limit s _ hall).2, List.flatMap_cons, runOps_append]
    simp [Batch.ops, reqOp, Req.header, hsop, hcas, runOps, applyOp]
  have hforeign : ∀ e ∈ mid.flatMap Batch.ops, Foreign k e.2 := by
    intro e he
    obtain ⟨b, hb, heb⟩ := List.mem_flatMap.mp he
    exact hfor b hb e heb
  have hryw := (C01_read_your_writes s t0 k v f ttl _ hforeign t hlive).1
  rw [← hst] at hryw
  obtain ⟨h1, h2, h3⟩ := hget
  have hf := C01_wire_to_command limit t st [(fget, hg)] [.get hg k] h1 h2 h3
  simp only [List.map_cons, List.map_nil, List.flatten_cons, List.flatten_nil, List.append_nil] at hf
  rw [hf]
  simp only [respondAll, reqOp, applyOp, List.append_nil]
  rcases hgt : st.get t k with ⟨s', res⟩
  rw [hgt] at hryw
  simp only at hryw
  subst hryw
  simp [respond, Req.header, hgop, storedRecord]
  rfl

/-- the premises of `C01_wire_to_command` are met by a concrete pipeline: a Set frame followed by a Get frame -/
def exSet : Bytes := [0x80, 0x01, 0, 1, 8, 0, 0, 0, 0, 0, 0, 10, 0, 0, 0, 7, 0, 0, 0, 0, 0, 0, 0, 0,
                      0, 0, 0, 5, 0, 0, 0, 0, 97, 120]
def exGet : Bytes := [0x80, 0x00, 0, 1, 0, 0, 0, 0, 0, 0, 0, 1, 0, 0, 0, 8, 0, 0, 0, 0, 0, 0, 0, 0, 97]

example :
    let frames := [(exSet, parseHeader exSet), (exGet, parseHeader exGet)]
    let reqs := [Req.set (parseHeader exSet) 5 0 [97] [120], Req.get (parseHeader exGet) [97]]
    (∀ f ∈ frames, IsFrame f.1 f.2 ∧ frameOK 1000 f.1 f.2 = true) ∧
    frames.map (fun f => frameEv 1000 f.1 f.2) = reqs.map .frame ∧ (∀ r ∈ reqs, r.leaves = false) := by
  refine ⟨?_, by decide, by decide⟩
  intro f hf
  simp only [List.mem_cons, List.not_mem_nil, or_false] at hf
  rcases hf with rfl | rfl
  · exact ⟨⟨by decide, rfl⟩, by decide⟩
  · exact ⟨⟨by decide, rfl⟩, by decide⟩

/-- the premises of `C01_wire_read_your_writes` are met by these two frames (Set with CAS 0, loud Get) -/
example : Batch.OK 1000 ⟨3, [(exSet, parseHeader exSet)], [.set (parseHeader exSet) 5 0 [97] [120]]⟩ ∧
    isSetOp (parseHeader exSet).opcode = true ∧ (parseHeader exSet).cas = 0 ∧
    Batch.OK 1000 ⟨9, [(exGet, parseHeader exGet)], [.get (parseHeader exGet) [97]]⟩ ∧
    quietGetOp (parseHeader exGet).opcode = false := by
  refine ⟨⟨?_, by decide, by decide⟩, by decide, by decide, ⟨?_, by decide, by decide⟩, by decide⟩
  · intro f hf
    simp only [List.mem_cons, List.not_mem_nil, or_false] at hf
    subst hf
    exact ⟨⟨by decide, rfl⟩, by decide⟩
  · intro f hf
    simp only [List.mem_cons, List.not_mem_nil, or_false] at hf
    subst hf
    exact ⟨⟨by decide, rfl⟩, by decide⟩

/-- **read-your-writes behind the eviction policy**: whatever the memory limit, the accounted usage and the victims the
    store's own eviction takes, a store (no CAS) is acknowledged and an immediate retrieval returns exactly its value and
    flags — the store's record is never among its own victims -/
theorem C01_read_your_writes_any_limit (p : Policy) (now : Nat) (k : Key) (v : Bytes) (f ttl : Nat) :
    (p.set now k (Record.new v 0 f ttl)).2 = .ok p.inner.casId ∧
    ((p.set now k (Record.new v 0 f ttl)).1.get now k).2 = .ok ⟨⟨now, p.inner.casId, f, ttl⟩, v⟩ := by
  obtain ⟨hack, hl⟩ := policy_set_cas0 p now k (Record.new v 0 f ttl) (by simp [Record.new, Meta.new])
  refine ⟨hack, ?_⟩
  simp only [Policy.get]
  rw [MemStore.get_result, MemStore.vis_def, hl]
  have : (stamp (Record.new v 0 f ttl) p.inner.casId now).expired now = false := by
    simp [Record.expired, stamp, Record.new, Meta.new]; omega
  simp only [stamp, Record.new, Meta.new] at this ⊢
  simp [this]

end Memc

#print axioms Memc.C01_counter_pos_init
#print axioms Memc.C01_ack_nonzero
#print axioms Memc.C01_frame
#print axioms Memc.C01_read_your_writes
#print axioms Memc.C01_no_loss
#print axioms Memc.foreign_step
#print axioms Memc.foreign_history
#print axioms Memc.C01_handler_is_command
#print axioms Memc.C01_wire_to_command
#print axioms Memc.runOps_append
#print axioms Memc.C01_wire_history
#print axioms Memc.C01_wire_read_your_writes
#print axioms Memc.C01_read_your_writes_any_limit
