import MemcVerif.Proofs.Policy
import MemcVerif.Model.Server
/-!
# C20 — behaviour is the same under every runtime configuration

Two parts are logic and are proved here: (1) with eviction policy random and a limit that is not reached, every
`Cache` call of `RandomPolicy` answers exactly as `MemoryStore` and leaves the same content
(`C20_policy_transparent_*`) — and `BinaryHandler`/`MemcStore` are generic in the `Cache`, so they cannot tell
the two apart; (2) what `create_memcrs_server` builds depends on runtime type, thread count and port in nothing
that a single connection can observe, and enforces the configured limits (`C20_limits_enforced`,
`C20_config_independent`). That the two tokio runtimes, any worker-thread count and any port behave alike, and
that expiry follows real seconds, is observed by the `config` suite on the real binary (partial).
-/
namespace Memc

/-- no eviction happens and nothing is refused while the accounted usage stays within the limit: `set` is the
    inner store's `set` plus bookkeeping -/
theorem C20_policy_transparent_set (p : Policy) (now : Nat) (k : Key) (r : Record)
    (hroom : p.usage + r.len ≤ p.limit) (hnw : p.usage + r.len < U64) (htape : p.tape = []) :
    (p.set now k r).1.inner = (p.inner.set now k r).1 ∧ (p.set now k r).2 = (p.inner.set now k r).2 ∧
    (p.set now k r).1.usage = p.usage + r.len ∧ (p.set now k r).1.bad = p.bad := by
  unfold Policy.set Policy.incrMemUsage
  have hadd : wadd p.usage r.len = p.usage + r.len := wadd_exact hnw
  have hloop : Policy.evictLoop r.len p.tape { p with usage := wadd p.usage r.len } (wadd p.usage r.len)
      = { p with usage := p.usage + r.len } := by
    rw [htape]
    unfold Policy.evictLoop
    have hng : ¬ (p.usage + r.len > p.limit) := by omega
    simp only [hadd, hng, if_false, htape]
    simp
  rw [hloop]
  simp

theorem C20_policy_transparent_get (p : Policy) (now : Nat) (k : Key) :
    (p.get now k).1.inner = (p.inner.get now k).1 ∧ (p.get now k).2 = (p.inner.get now k).2 := by
  simp [Policy.get]

theorem C20_policy_transparent_delete (p : Policy) (k : Key) (cas : Nat) :
    (p.delete k cas).1.inner = (p.inner.delete k cas).1 ∧ (p.delete k cas).2 = (p.inner.delete k cas).2 := by
  unfold Policy.delete
  cases h : (p.inner.delete k cas).2 <;> simp [h]

theorem C20_policy_transparent_flush (p : Policy) (now ttl : Nat) : (p.flush now ttl).inner = p.inner.flush now ttl := rfl

/-- the configured item size limit (below 2^32) and connection limit are the ones enforced — the connection
    limit as a *total*, with one semaphore, in every runtime -/
theorem C20_limits_enforced (c : Config) (h : c.itemLimit < 4294967296) :
    (effective c).itemLimit = c.itemLimit ∧ (effective c).totalConnLimit = c.connLimit ∧ (effective c).semaphores = 1 := by
  simp [effective, Nat.mod_eq_of_lt h]

/-- nothing a single connection can observe depends on runtime type, thread count or port -/
theorem C20_config_independent (c c' : Config)
    (h1 : c.itemLimit = c'.itemLimit) (h2 : c.connLimit = c'.connLimit) (h3 : c.evictionRandom = c'.evictionRandom) :
    effective c = effective c' := by
  simp [effective, h1, h2, h3]

example : effective ⟨true, 8, false, 11211, 1048576, 1024, 67108864⟩ = effective ⟨false, 1, false, 9999, 1048576, 1024, 67108864⟩ := by decide

end Memc

#print axioms Memc.C20_policy_transparent_set
#print axioms Memc.C20_policy_transparent_get
#print axioms Memc.C20_policy_transparent_delete
#print axioms Memc.C20_policy_transparent_flush
#print axioms Memc.C20_limits_enforced
#print axioms Memc.C20_config_independent
