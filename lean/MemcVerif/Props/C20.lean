import MemcVerif.Proofs.Policy
import MemcVerif.Model.Server
import MemcVerif.Proofs.PolicySim
import MemcVerif.Props.C01
/-!
# C20 — behaviour is the same under every runtime configuration

Two parts are logic and are proved here: (1) with eviction policy random and a limit that is not reached, every
`Cache` call of `RandomPolicy` answers exactly as `MemoryStore` and leaves the same content
(`C20_policy_transparent_*`) — and `BinaryHandler`/`MemcStore` are generic in the `Cache`, so they cannot tell
the two apart; (2) what `create_memcrs_server` builds depends on runtime type, thread count and port in nothing
that a single connection can observe, and enforces the configured limits (`C20_limits_enforced`,
`C20_config_independent`). (1) is lifted through the generic code to whole connections
(`C20_policy_transparent_request`, `C20_policy_transparent_stream`, `C20_limit_never_reached`): the bytes written
are the same, for every byte stream, every segmentation and every clock. That the two tokio runtimes, any worker-thread count and any port behave alike, and
that expiry follows real seconds, is observed by the `config` suite on the real binary (partial).
-/
namespace Memc

/-- no eviction happens and nothing is refused while the accounted usage stays within the limit: `set` is the
    inner store's `set` plus bookkeeping -/
theorem C20_policy_transparent_set (p : Policy) (now : Nat) (k : Key) (r : Record)
    (hroom : p.usage + r.len ≤ p.limit) (hnw : p.usage + r.len < U64) (htape : p.tape = []) :
    (p.set now k r).1.inner = (p.inner.set now k r).1 ∧ (p.set now k r).2 = (p.inner.set now k r).2 ∧
    (p.set now k r).1.usage = p.usage + r.len ∧ (p.set now k r).1.bad = p.bad := by
  unfold Policy.set Policy.incrMemUsage
  have hadd : wadd p.usage r.len = p.usage + r.len := wadd_exact hnw
  have hloop : Policy.evictLoop r.len p.tape { p with usage := wadd p.usage r.len } (wadd p.usage r.len)
      = { p with usage := p.usage + r.len } := by
    rw [htape]
    unfold Policy.evictLoop
    have hng : ¬ (p.usage + r.len > p.limit) := by omega
    simp only [hadd, hng, if_false, htape]
    simp
  rw [hloop]
  simp

theorem C20_policy_transparent_get (p : Policy) (now : Nat) (k : Key) :
    (p.get now k).1.inner = (p.inner.get now k).1 ∧ (p.get now k).2 = (p.inner.get now k).2 := by
  simp [Policy.get]

theorem C20_policy_transparent_delete (p : Policy) (k : Key) (cas : Nat) :
    (p.delete k cas).1.inner = (p.inner.delete k cas).1 ∧ (p.delete k cas).2 = (p.inner.delete k cas).2 := by
  unfold Policy.delete
  cases h : (p.inner.delete k cas).2 <;> simp [h]

theorem C20_policy_transparent_flush (p : Policy) (now ttl : Nat) : (p.flush now ttl).inner = p.inner.flush now ttl := rfl

/-- `BinaryHandler` and `MemcStore` are generic in the `Cache`: for every request, every policy state whose
    limit has not been reached so far (`bad = false`: nothing was evicted) and still is not after the request,
    the response is the one the bare store gives and the stored content stays the same -/
theorem C20_policy_transparent_request (p : Policy) (now : Nat) (req : Req) (htape : p.tape = [])
    (hok : (handleRequest polOps p now req).1.bad = false) :
    (handleRequest polOps p now req).1.inner = (handleRequest memOps p.inner now req).1 ∧
    (handleRequest polOps p now req).2 = (handleRequest memOps p.inner now req).2 := by
  obtain ⟨h1, h2⟩ := handle_sim policy_sim p p.inner now req ⟨rfl, htape⟩ hok
  exact ⟨h1.1, h2⟩

/-- **policy transparency for whole connections**: any sequence of arrivals (any bytes, valid or not, cut
    anywhere, at any clock readings) on a connection in any state; if the limit is not reached by the end — the
    policy evicted nothing — then the connection state, the bytes written for every arrival and the stored
    content are those of the server without eviction policy -/
theorem C20_policy_transparent_stream (limit : Nat) (c : Conn) (p : Policy) (fs : List (Nat × Bytes))
    (htape : p.tape = []) (hok : (feedSeq polOps limit c p fs).2.1.bad = false) :
    (feedSeq polOps limit c p fs).1 = (feedSeq memOps limit c p.inner fs).1 ∧
    (feedSeq polOps limit c p fs).2.1.inner = (feedSeq memOps limit c p.inner fs).2.1 ∧
    (feedSeq polOps limit c p fs).2.2 = (feedSeq memOps limit c p.inner fs).2.2 := by
  obtain ⟨h1, h2, h3⟩ := feedSeq_sim policy_sim limit c p p.inner fs ⟨rfl, htape⟩ hok
  exact ⟨h1, h2.1, h3⟩

/-- a limit that cannot be reached (at least 2^64 - 1, the default `--memory-limit` is far below, but the
    statement needs no workload assumption): nothing is ever evicted, so every connection behaves as without
    policy — unconditionally -/
theorem C20_limit_never_reached (limit : Nat) (c : Conn) (p : Policy) (fs : List (Nat × Bytes))
    (hp : p.Unreachable) :
    (feedSeq polOps limit c p fs).1 = (feedSeq memOps limit c p.inner fs).1 ∧
    (feedSeq polOps limit c p fs).2.2 = (feedSeq memOps limit c p.inner fs).2.2 := by
  have hend := feedSeq_pres policy_unreachable limit c p fs hp
  obtain ⟨h1, _, h3⟩ := C20_policy_transparent_stream limit c p fs hp.2.1 hend.2.2
  exact ⟨h1, h3⟩

/-- with room for the record (`usage + len ≤ limit`) a store is not an eviction: the premise `bad = false` of
    the two theorems above is what "limit not reached" means, store by store -/
theorem C20_room_means_ok (p : Policy) (now : Nat) (k : Key) (r : Record)
    (hroom : p.usage + r.len ≤ p.limit) (hnw : p.usage + r.len < U64) (htape : p.tape = []) (hb : p.bad = false) :
    (p.set now k r).1.bad = false := by
  obtain ⟨inner, usage, lim, tape, bad⟩ := p
  simp only at hroom hnw htape hb
  subst htape hb
  have hadd : wadd usage r.len = usage + r.len := wadd_exact hnw
  have hg : ¬ wadd usage r.len > lim := by omega
  show (Policy.evictLoop r.len [] ⟨inner, wadd usage r.len, lim, [], false⟩ (wadd usage r.len)).bad = false
  unfold Policy.evictLoop
  simp only [hg, if_false]
  rfl

theorem feedSeq_append {σ : Type} (C : CacheOps σ) (limit : Nat) (c : Conn) (s : σ) (a b : List (Nat × Bytes)) :
    feedSeq C limit c s (a ++ b) =
      ((feedSeq C limit (feedSeq C limit c s a).1 (feedSeq C limit c s a).2.1 b).1,
       (feedSeq C limit (feedSeq C limit c s a).1 (feedSeq C limit c s a).2.1 b).2.1,
       (feedSeq C limit c s a).2.2 ++ (feedSeq C limit (feedSeq C limit c s a).1 (feedSeq C limit c s a).2.1 b).2.2) := by
  induction a generalizing c s with
  | nil => rfl
  | cons e rest ih =>
    obtain ⟨now, chunk⟩ := e
    simp only [List.cons_append, feedSeq]
    rw [ih]

/-- arrivals of whole batches: the connection model over the bare store is `feedBatches` -/
theorem feedSeq_batches (limit : Nat) (c : Conn) (s : MemStore) (bs : List Batch) :
    (feedSeq memOps limit c s (bs.map fun b => (b.now, b.bytes))).1 = (feedBatches limit c s bs).1 ∧
    (feedSeq memOps limit c s (bs.map fun b => (b.now, b.bytes))).2.1 = (feedBatches limit c s bs).2.1 := by
  induction bs generalizing c s with
  | nil => exact ⟨rfl, rfl⟩
  | cons b rest ih =>
    simp only [List.map_cons, feedSeq, feedBatches]
    exact ih _ _

/-- the arrivals of the scenario: the Set batch, the foreign batches, then the Get frame at `t` -/
def rywArrivals (t0 t : Nat) (k : Key) (v : Bytes) (f ttl : Nat) (hs : ReqHeader) (fset fget : Bytes) (mid : List Batch) :
    List (Nat × Bytes) :=
  ((⟨t0, [(fset, hs)], [.set hs f ttl k v]⟩ :: mid : List Batch).map fun b => (b.now, b.bytes)) ++ [(t, fget)]

/-- **C01 for eviction policy random with a limit that is not reached** (the property quantifies over both
    policies): a Set frame for `(k, v, f, ttl)` arrives; then any arrivals whose frames address other keys; then a Get
    frame for `k` before the deadline. If the policy evicted nothing (`bad = false` at the end) the bytes written back
    for the Get are the encoding of `v`, `f` and the CAS the Set was acknowledged with — exactly as without policy. -/
theorem C01_read_your_writes_under_policy (limit : Nat) (p : Policy) (t0 t : Nat) (k : Key) (v : Bytes) (f ttl : Nat)
    (hs hg : ReqHeader) (fset fget : Bytes) (mid : List Batch) (htape : p.tape = [])
    (hset : Batch.OK limit ⟨t0, [(fset, hs)], [.set hs f ttl k v]⟩) (hsop : isSetOp hs.opcode = true) (hcas : hs.cas = 0)
    (hmid : ∀ b ∈ mid, b.OK limit) (hfor : ∀ b ∈ mid, ∀ e ∈ b.ops, Foreign k e.2)
    (hget : Batch.OK limit ⟨t, [(fget, hg)], [.get hg k]⟩) (hgop : quietGetOp hg.opcode = false)
    (hlive : ttl = 0 ∨ t < t0 + ttl) :
    (feedSeq polOps limit Conn.init p (rywArrivals t0 t k v f ttl hs fset fget mid)).2.1.bad = false →
    (feedSeq polOps limit Conn.init p (rywArrivals t0 t k v f ttl hs fset fget mid)).2.2.getLast? =
      some (encode (Resp.get
        { opcode := hg.opcode, opaq := hg.opaq,
          bodyLen := v.length + 4 + (if getKeyOp hg.opcode then k else []).length,
          keyLen := (if getKeyOp hg.opcode then k else []).length, extrasLen := 4, cas := p.inner.casId }
        f (if getKeyOp hg.opcode then k else []) v)) := by
  intro hok
  obtain ⟨_, _, h3⟩ := C20_policy_transparent_stream limit Conn.init p _ htape hok
  rw [h3]
  have hall : ∀ b ∈ (⟨t0, [(fset, hs)], [.set hs f ttl k v]⟩ :: mid : List Batch), b.OK limit := by
    intro b hb
    rcases List.mem_cons.mp hb with rfl | hb
    · exact hset
    · exact hmid b hb
  simp only [rywArrivals, feedSeq_append, feedSeq]
  obtain ⟨hb1, hb2⟩ := feedSeq_batches limit Conn.init p.inner (⟨t0, [(fset, hs)], [.set hs f ttl k v]⟩ :: mid)
  rw [hb1, hb2, (C01_wire_history limit p.inner _ hall).1]
  have := C01_wire_read_your_writes limit p.inner t0 t k v f ttl hs hg fset fget mid hset hsop hcas hmid hfor hget hgop hlive
  simp only at this
  simp [this]

/-- the premises are met: a Set under a roomy limit evicts nothing; under a limit below the stored bytes the
    same request with a non-empty store is flagged (the hypothesis is not always true) -/
example : (Policy.init 100000).tape = [] ∧
    (handleRequest polOps (Policy.init 100000) 3 (.set ⟨0x80, 1, 1, 8, 0, 0, 10, 7, 0⟩ 5 0 [97] [120])).1.bad = false := by decide
example :
    let p1 := (handleRequest polOps (Policy.init 30) 3 (.set ⟨0x80, 1, 1, 8, 0, 0, 10, 7, 0⟩ 5 0 [97] [120])).1
    p1.bad = false ∧ (handleRequest polOps p1 3 (.set ⟨0x80, 1, 1, 8, 0, 0, 10, 7, 0⟩ 5 0 [98] [120])).1.bad = true := by decide

/-- the configured item size limit (below 2^32) and connection limit are the ones enforced — the connection
    limit as a *total*, with one semaphore, in every runtime -/
theorem C20_limits_enforced (c : Config) (h : c.itemLimit < 4294967296) :
    (effective c).itemLimit = c.itemLimit ∧ (effective c).totalConnLimit = c.connLimit ∧ (effective c).semaphores = 1 := by
  simp [effective, Nat.mod_eq_of_lt h]

/-- nothing a single connection can observe depends on runtime type, thread count or port -/
theorem C20_config_independent (c c' : Config)
    (h1 : c.itemLimit = c'.itemLimit) (h2 : c.connLimit = c'.connLimit) (h3 : c.evictionRandom = c'.evictionRandom) :
    effective c = effective c' := by
  simp [effective, h1, h2, h3]

example : effective ⟨true, 8, false, 11211, 1048576, 1024, 67108864⟩ = effective ⟨false, 1, false, 9999, 1048576, 1024, 67108864⟩ := by decide

end Memc

#print axioms Memc.C20_policy_transparent_set
#print axioms Memc.C20_policy_transparent_get
#print axioms Memc.C20_policy_transparent_delete
#print axioms Memc.C20_policy_transparent_flush
#print axioms Memc.C20_limits_enforced
#print axioms Memc.C20_config_independent
#print axioms Memc.C20_policy_transparent_request
#print axioms Memc.C20_policy_transparent_stream
#print axioms Memc.C20_limit_never_reached
#print axioms Memc.C20_room_means_ok
#print axioms Memc.feedSeq_append
#print axioms Memc.feedSeq_batches
#print axioms Memc.C01_read_your_writes_under_policy
