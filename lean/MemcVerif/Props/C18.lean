import MemcVerif.Proofs.Frames
/-!
# C18 — faults on one connection are contained

A faulty stream = complete, acceptable frames followed by a tail that is either cut short (the client
closed, or fell silent, in the middle of a request) or starts with an invalid header. In any segmentation
(C09) the requests executed are exactly the complete frames, each once and in order; the tail executes
nothing. The store other connections see is the fold of exactly those requests.
Abortive resets are outside the model (kernel delivery): the claim there is "a prefix, each at most once",
observed by the harness.
-/
namespace Memc

variable {σ : Type} (C : CacheOps σ)

/-- a strict prefix of a frame with a valid header decodes to no event at all: the request is not executed -/
theorem C18_truncated_no_event (limit : Nat) (fb : Bytes) (h : ReqHeader) (hf : IsFrame fb h)
    (hv : headerValid h = true) (n : Nat) (hn : n < fb.length) : (drain limit .idle (fb.take n)).1 = [] := by
  rw [drain_eq, decode1_idle]
  have hlen : (fb.take n).length = n := by simp; omega
  by_cases h24 : n < HEADER_LEN
  · simp only [hlen, h24, if_true]
  · have hsplit : fb = fb.take n ++ fb.drop n := (List.take_append_drop n fb).symm
    have hph : parseHeader (fb.take n) = h := by
      have := parseHeader_append (buf := fb.take n) (fb.drop n) (by omega)
      rw [← hsplit, hf.hdr] at this
      exact this.symm
    simp only [hlen, h24, if_false, hph, hv, Bool.not_true, Bool.false_eq_true]
    rw [bodyStep_eq]
    have hbl : ((fb.take n).drop HEADER_LEN).length = n - HEADER_LEN := by simp; omega
    generalize (fb.take n).drop HEADER_LEN = body at hbl ⊢
    have hshort : n - HEADER_LEN < h.bodyLen := by have := hf.len; omega
    by_cases hbig : h.bodyLen > limit
    · have : ¬ body.length ≥ h.bodyLen := by omega
      simp only [hbig, this, if_true, if_false]
    · have : h.bodyLen > body.length := by omega
      simp only [hbig, this, if_true, if_false]

/-- a tail that starts with an invalid header yields one protocol error and nothing else -/
theorem C18_bad_header_no_request (limit : Nat) (tail : Bytes) (hlen : HEADER_LEN ≤ tail.length)
    (hv : headerValid (parseHeader tail) = false) : (drain limit .idle tail).1 = [.protoErr] := by
  rw [drain_eq, decode1_bad_header limit tail hlen hv]
  simp [drain_dead]

/-- **exactly the complete requests, each once, in order**: for a pipeline of complete acceptable frames
    followed by a tail that decodes to `tailEvents`, the decoder hands over exactly the frames' events
    followed by `tailEvents` -/
theorem C18_prefix_exact (limit : Nat) (frames : List (Bytes × ReqHeader)) (tail : Bytes)
    (hall : ∀ f ∈ frames, IsFrame f.1 f.2 ∧ frameOK limit f.1 f.2 = true) :
    (drain limit .idle ((frames.map (·.1)).flatten ++ tail)).1 =
      frames.map (fun f => frameEv limit f.1 f.2) ++ (drain limit .idle tail).1 := by
  rw [drain_frames limit frames tail hall]

/-- cut short in the middle of a request: exactly the complete ones are executed -/
theorem C18_cut_mid_request (limit : Nat) (frames : List (Bytes × ReqHeader)) (fb : Bytes) (h : ReqHeader) (n : Nat)
    (hall : ∀ f ∈ frames, IsFrame f.1 f.2 ∧ frameOK limit f.1 f.2 = true)
    (hf : IsFrame fb h) (hv : headerValid h = true) (hn : n < fb.length) :
    (drain limit .idle ((frames.map (·.1)).flatten ++ fb.take n)).1 = frames.map (fun f => frameEv limit f.1 f.2) := by
  rw [C18_prefix_exact limit frames _ hall, C18_truncated_no_event limit fb h hf hv n hn, List.append_nil]

/-- the peer closing (EOF) executes nothing further and never changes the store; the connection ends -/
theorem C18_eof_contained (now : Nat) (c : Conn) (s : σ) :
    (eof C now c s).2.1 = s ∧ ((eof C now c s).1.closed = true) := by
  unfold eof
  by_cases hc : c.closed = true
  · simp [hc]
  · simp only [hc, Bool.false_eq_true, if_false]
    cases c.pst <;> simp [Conn.dead, execEv, isQuitQ, handleRequest]

/-- a protocol error executes nothing and ends only this connection's loop -/
theorem C18_protoErr_contained (now : Nat) (s : σ) (es : List Ev) :
    execEvs C now s (.protoErr :: es) = (s, [], true) := by
  simp [execEvs, execEv]

/-- **other connections see exactly what the completed requests imply**: after feeding the faulty stream in
    one piece (any segmentation gives the same by C09), the store is the fold of the complete frames' events -/
theorem C18_store_is_fold_of_complete (limit now : Nat) (s : σ) (frames : List (Bytes × ReqHeader)) (fb : Bytes)
    (h : ReqHeader) (n : Nat)
    (hall : ∀ f ∈ frames, IsFrame f.1 f.2 ∧ frameOK limit f.1 f.2 = true)
    (hf : IsFrame fb h) (hv : headerValid h = true) (hn : n < fb.length) :
    (feed C limit now Conn.init s ((frames.map (·.1)).flatten ++ fb.take n)).2.1 =
      (execEvs C now s (frames.map (fun f => frameEv limit f.1 f.2))).1 := by
  have := C18_cut_mid_request limit frames fb h n hall hf hv hn
  simp only [feed, Conn.init, Bool.false_eq_true, if_false, List.nil_append, this]
  split <;> rfl


/-- **a connection that timed out is over, whatever it was doing**: after the receive timeout — also in the middle of a request,
    also while an oversized body was being discarded — nothing that arrives later is executed or answered, and the store is
    untouched by the timeout itself. (The bytes that complete a stalled oversized body, or that follow it, are never parsed
    as requests: the discard is not resumed and not restarted.) -/
theorem C18_timeout_contained {σ : Type} (C : CacheOps σ) (limit now : Nat) (c : Conn) (s : σ) (later : Bytes) :
    feed C limit now (idleTimeout c) s later = (idleTimeout c, s, []) ∧
    eof C now (idleTimeout c) s = (idleTimeout c, s, []) := by
  have hc : (idleTimeout c).closed = true := by
    unfold idleTimeout; by_cases h : c.closed = true <;> simp [h, Conn.dead]
  exact ⟨by simp [feed, hc], by simp [eof, hc]⟩

end Memc

#print axioms Memc.C18_truncated_no_event
#print axioms Memc.C18_bad_header_no_request
#print axioms Memc.C18_prefix_exact
#print axioms Memc.C18_cut_mid_request
#print axioms Memc.C18_eof_contained
#print axioms Memc.C18_protoErr_contained
#print axioms Memc.C18_store_is_fold_of_complete
#print axioms Memc.C18_timeout_contained
