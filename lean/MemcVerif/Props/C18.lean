import MemcVerif.Proofs.Frames
import MemcVerif.Model.Timed
/-!
# C18 — faults on one connection are contained

A faulty stream = complete, acceptable frames followed by a tail that is either cut short (the client
closed, or fell silent, in the middle of a request) or starts with an invalid header. In any segmentation
(C09) the requests executed are exactly the complete frames, each once and in order; the tail executes
nothing. The store other connections see is the fold of exactly those requests.
Abortive resets are outside the model (kernel delivery): the claim there is "a prefix, each at most once",
observed by the harness.
-/
namespace Memc

variable {σ : Type} (C : CacheOps σ)

/-- a strict prefix of a frame with a valid header decodes to no event at all: the request is not executed -/
theorem C18_truncated_no_event (limit : Nat) (fb : Bytes) (h : ReqHeader) (hf : IsFrame fb h)
    (hv : headerValid h = true) (n : Nat) (hn : n < fb.length) : (drain limit .idle (fb.take n)).1 = [] := by
  rw [drain_eq, decode1_idle]
  have hlen : (fb.take n).length = n := by simp; omega
  by_cases h24 : n < HEADER_LEN
  · simp only [hlen, h24, if_true]
  · have hsplit : fb = fb.take n ++ fb.drop n := (List.take_append_drop n fb).symm
    have hph : parseHeader (fb.take n) = h := by
      have := parseHeader_append (buf := fb.take n) (fb.drop n) (by omega)
      rw [← hsplit, hf.hdr] at this
      exact this.symm
    simp only [hlen, h24, if_false, hph, hv, Bool.not_true, Bool.false_eq_true]
    rw [bodyStep_eq]
    have hbl : ((fb.take n).drop HEADER_LEN).length = n - HEADER_LEN := by simp; omega
    generalize (fb.take n).drop HEADER_LEN = body at hbl ⊢
    have hshort : n - HEADER_LEN < h.bodyLen := by have := hf.len; omega
    by_cases hbig : h.bodyLen > limit
    · have : ¬ body.length ≥ h.bodyLen := by omega
      simp only [hbig, this, if_true, if_false]
    · have : h.bodyLen > body.length := by omega
      simp only [hbig, this, if_true, if_false]

/-- a tail that starts with an invalid header yields one protocol error and nothing else -/
theorem C18_bad_header_no_request (limit : Nat) (tail : Bytes) (hlen : HEADER_LEN ≤ tail.length)
    (hv : headerValid (parseHeader tail) = false) : (drain limit .idle tail).1 = [.protoErr] := by
  rw [drain_eq, decode1_bad_header limit tail hlen hv]
  simp [drain_dead]

/-- **exactly the complete requests, each once, in order**: for a pipeline of complete acceptable frames
    followed by a tail that decodes to `tailEvents`, the decoder hands over exactly the frames' events
    followed by `tailEvents` -/
theorem C18_prefix_exact (limit : Nat) (frames : List (Bytes × ReqHeader)) (tail : Bytes)
    (hall : ∀ f ∈ frames, IsFrame f.1 f.2 ∧ frameOK limit f.1 f.2 = true) :
    (drain limit .idle ((frames.map (·.1)).flatten ++ tail)).1 =
      frames.map (fun f => frameEv limit f.1 f.2) ++ (drain limit .idle tail).1 := by
  rw [drain_frames limit frames tail hall]

/-- cut short in the middle of a request: exactly the complete ones are executed -/
theorem C18_cut_mid_request (limit : Nat) (frames : List (Bytes × ReqHeader)) (fb : Bytes) (h : ReqHeader) (n : Nat)
    (hall : ∀ f ∈ frames, IsFrame f.1 f.2 ∧ frameOK limit f.1 f.2 = true)
    (hf : IsFrame fb h) (hv : headerValid h = true) (hn : n < fb.length) :
    (drain limit .idle ((frames.map (·.1)).flatten ++ fb.take n)).1 = frames.map (fun f => frameEv limit f.1 f.2) := by
  rw [C18_prefix_exact limit frames _ hall, C18_truncated_no_event limit fb h hf hv n hn, List.append_nil]

/-- the peer closing (EOF) executes nothing further and never changes the store; the connection ends -/
theorem C18_eof_contained (now : Nat) (c : Conn) (s : σ) :
    (eof C now c s).2.1 = s ∧ ((eof C now c s).1.closed = true) := by
  unfold eof
  by_cases hc : c.closed = true
  · simp [hc]
  · simp only [hc, Bool.false_eq_true, if_false]
    cases c.pst <;> simp [Conn.dead, execEv, isQuitQ, handleRequest]

/-- a protocol error executes nothing and ends only this connection's loop -/
theorem C18_protoErr_contained (now : Nat) (s : σ) (es : List Ev) :
    execEvs C now s (.protoErr :: es) = (s, [], true) := by
  simp [execEvs, execEv]

/-- **other connections see exactly what the completed requests imply**: after feeding the faulty stream in
    one piece (any segmentation gives the same by C09), the store is the fold of the complete frames' events -/
theorem C18_store_is_fold_of_complete (limit now : Nat) (s : σ) (frames : List (Bytes × ReqHeader)) (fb : Bytes)
    (h : ReqHeader) (n : Nat)
    (hall : ∀ f ∈ frames, IsFrame f.1 f.2 ∧ frameOK limit f.1 f.2 = true)
    (hf : IsFrame fb h) (hv : headerValid h = true) (hn : n < fb.length) :
    (feed C limit now Conn.init s ((frames.map (·.1)).flatten ++ fb.take n)).2.1 =
      (execEvs C now s (frames.map (fun f => frameEv limit f.1 f.2))).1 := by
  have := C18_cut_mid_request limit frames fb h n hall hf hv hn
  simp only [feed, Conn.init, Bool.false_eq_true, if_false, List.nil_append, this]
  split <;> rfl


/-- **a connection that timed out is over, whatever it was doing**: after the receive timeout — also in the middle of a request,
    also while an oversized body was being discarded — nothing that arrives later is executed or answered, and the store is
    untouched by the timeout itself. (The bytes that complete a stalled oversized body, or that follow it, are never parsed
    as requests: the discard is not resumed and not restarted.) -/
theorem C18_timeout_contained {σ : Type} (C : CacheOps σ) (limit now : Nat) (c : Conn) (s : σ) (later : Bytes) :
    feed C limit now (idleTimeout c) s later = (idleTimeout c, s, []) ∧
    eof C now (idleTimeout c) s = (idleTimeout c, s, []) := by
  have hc : (idleTimeout c).closed = true := by
    unfold idleTimeout; by_cases h : c.closed = true <;> simp [h, Conn.dead]
  exact ⟨by simp [feed, hc], by simp [eof, hc]⟩

/-! ## The receive timeout itself (`Model/Timed`)

Only silence ends a connection: the timer is restarted by every request that becomes complete, answered or not. -/

/-- one arrival before the deadline: exactly what the untimed connection does; the timer is restarted iff a request completed -/
theorem tfeed_alive {σ : Type} (C : CacheOps σ) (limit rx now t : Nat) (tc : TConn) (s : σ) (chunk : Bytes) (ht : t < tc.deadline) :
    (tfeed C limit rx now t tc s chunk).1.conn = (feed C limit now tc.conn s chunk).1 ∧
    (tfeed C limit rx now t tc s chunk).2 = (feed C limit now tc.conn s chunk).2 := by
  unfold tfeed
  by_cases hc : tc.conn.closed = true
  · simp [hc, feed]
  · have hd : ¬ tc.deadline ≤ t := by omega
    simp [hc, hd]

/-- what restarts the timer: an in-time arrival moves the deadline to `t + rx` exactly when at least one request became
    complete — whether or not anything was written for it (a quiet store, a missing quiet get) — and leaves it where it was
    when the bytes completed nothing -/
theorem tfeed_deadline {σ : Type} (C : CacheOps σ) (limit rx now t : Nat) (tc : TConn) (s : σ) (chunk : Bytes)
    (hc : tc.conn.closed = false) (ht : t < tc.deadline) :
    (tfeed C limit rx now t tc s chunk).1.deadline =
      if (drain limit tc.conn.pst (tc.conn.buf ++ chunk)).1.length = 0 then tc.deadline else t + rx := by
  have hd : ¬ tc.deadline ≤ t := by omega
  simp [tfeed, hc, hd]

/-- one arrival at or after the deadline: the connection has been dropped, the bytes are never read — not executed, not
    answered, the store untouched -/
theorem tfeed_timed_out {σ : Type} (C : CacheOps σ) (limit rx now t : Nat) (tc : TConn) (s : σ) (chunk : Bytes)
    (hc : tc.conn.closed = false) (ht : tc.deadline ≤ t) :
    tfeed C limit rx now t tc s chunk = (⟨Conn.dead, tc.deadline⟩, s, []) := by
  simp [tfeed, hc, ht, idleTimeout]

/-- **an active client is never timed out**, however long it stays and whether or not any of its commands is answered: over
    any number of arrivals, each before the pending deadline and each completing at least one request, the connection, the
    store and the bytes written are those of the connection without a timeout -/
theorem C18_active_client_not_timed_out {σ : Type} (C : CacheOps σ) (limit rx : Nat) (d : Nat) (c : Conn) (s : σ)
    (as : List (Nat × Nat × Bytes)) (h : Active C limit rx d c s as) :
    (tfeedSeq C limit rx ⟨c, d⟩ s as).1.conn = (ufeedSeq C limit c s as).1 ∧
    (tfeedSeq C limit rx ⟨c, d⟩ s as).2 = (ufeedSeq C limit c s as).2 := by
  induction as generalizing d c s with
  | nil => exact ⟨rfl, rfl⟩
  | cons a rest ih =>
    obtain ⟨t, now, chunk⟩ := a
    obtain ⟨hc, ht, hn, hrest⟩ := h
    have h1 := tfeed_alive C limit rx now t ⟨c, d⟩ s chunk ht
    simp only at h1
    -- the timed state after this arrival: same connection, deadline restarted
    have hdl : (tfeed C limit rx now t ⟨c, d⟩ s chunk).1 = ⟨(feed C limit now c s chunk).1, t + rx⟩ := by
      unfold tfeed
      have hd : ¬ d ≤ t := by omega
      have hn0 : (drain limit c.pst (c.buf ++ chunk)).1.length ≠ 0 := by omega
      simp [hc, hd, hn0]
    have ih' := ih (t + rx) (feed C limit now c s chunk).1 (feed C limit now c s chunk).2.1 hrest
    simp only [tfeedSeq, ufeedSeq]
    rw [hdl]
    have h2 : (tfeed C limit rx now t ⟨c, d⟩ s chunk).2 = (feed C limit now c s chunk).2 := h1.2
    rw [h2]
    exact ⟨ih'.1, by rw [ih'.2]⟩

/-- once a connection is closed (by the timeout or otherwise), later arrivals do nothing at all -/
theorem tfeedSeq_closed {σ : Type} (C : CacheOps σ) (limit rx : Nat) (tc : TConn) (s : σ) (as : List (Nat × Nat × Bytes))
    (hc : tc.conn.closed = true) :
    (tfeedSeq C limit rx tc s as).1 = tc ∧ (tfeedSeq C limit rx tc s as).2.1 = s ∧
    ∀ b ∈ (tfeedSeq C limit rx tc s as).2.2, b = [] := by
  induction as with
  | nil => exact ⟨rfl, rfl, by simp [tfeedSeq]⟩
  | cons a rest ih =>
    obtain ⟨t, now, chunk⟩ := a
    have h1 : tfeed C limit rx now t tc s chunk = (tc, s, []) := by simp [tfeed, hc]
    simp only [tfeedSeq, h1]
    refine ⟨ih.1, ih.2.1, ?_⟩
    intro b hb
    rcases List.mem_cons.mp hb with hb | hb
    · exact hb
    · exact ih.2.2 b hb

/-- **silence past the deadline ends the connection for good**: the first arrival at or after the pending deadline finds
    the connection dropped — neither it nor anything after it is read, executed or answered, and the store stays what it
    was; the outcome of the whole rest of the history is fixed at that moment -/
theorem C18_silent_client_dropped {σ : Type} (C : CacheOps σ) (limit rx now t : Nat) (tc : TConn) (s : σ) (chunk : Bytes)
    (later : List (Nat × Nat × Bytes)) (hc : tc.conn.closed = false) (ht : tc.deadline ≤ t) :
    (tfeedSeq C limit rx tc s ((t, now, chunk) :: later)).1.conn = Conn.dead ∧
    (tfeedSeq C limit rx tc s ((t, now, chunk) :: later)).2.1 = s ∧
    ∀ b ∈ (tfeedSeq C limit rx tc s ((t, now, chunk) :: later)).2.2, b = [] := by
  have h1 := tfeed_timed_out C limit rx now t tc s chunk hc ht
  have h2 := tfeedSeq_closed C limit rx ⟨Conn.dead, tc.deadline⟩ s later (by simp [Conn.dead])
  simp only [tfeedSeq, h1]
  refine ⟨by rw [h2.1], h2.2.1, ?_⟩
  intro b hb
  rcases List.mem_cons.mp hb with hb | hb
  · exact hb
  · exact h2.2.2 b hb

/-- whole acceptable requests make progress: a batch that starts with a complete frame on an idle connection with nothing
    buffered completes at least one request -/
theorem progress_of_frame (limit : Nat) {fb : Bytes} {h : ReqHeader} (hf : IsFrame fb h) (rest : Bytes)
    (hok : frameOK limit fb h = true) : 0 < (drain limit .idle ([] ++ (fb ++ rest))).1.length := by
  simp only [List.nil_append]
  rw [drain_frame limit hf rest hok]; simp

/-- the premises of `C18_active_client_not_timed_out` are satisfiable: one quiet-set frame arriving at instant 1500 on a fresh
    connection opened at instant 0 under a timeout of 2000 -/
example {σ : Type} (C : CacheOps σ) (s : σ) (fb : Bytes) (h : ReqHeader) (hf : IsFrame fb h) (hok : frameOK 1024 fb h = true) :
    Active C 1024 2000 (TConn.start 0 2000).deadline Conn.init s [(1500, 7, fb)] := by
  refine ⟨rfl, by simp [TConn.start], ?_, trivial⟩
  have := progress_of_frame 1024 hf [] hok
  simpa [Conn.init] using this

end Memc

#print axioms Memc.C18_truncated_no_event
#print axioms Memc.C18_bad_header_no_request
#print axioms Memc.C18_prefix_exact
#print axioms Memc.C18_cut_mid_request
#print axioms Memc.C18_eof_contained
#print axioms Memc.C18_protoErr_contained
#print axioms Memc.C18_store_is_fold_of_complete
#print axioms Memc.C18_timeout_contained
#print axioms Memc.tfeed_alive
#print axioms Memc.tfeed_timed_out
#print axioms Memc.C18_active_client_not_timed_out
#print axioms Memc.progress_of_frame
#print axioms Memc.tfeedSeq_closed
#print axioms Memc.C18_silent_client_dropped
#print axioms Memc.tfeed_deadline
