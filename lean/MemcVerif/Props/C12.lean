import MemcVerif.Proofs.Frames
import MemcVerif.Proofs.TablesTie
/-!
# C12 — pipelining: in-order execution, one response per loud request, quiet rules, quit rules

Generic in the store. `execEvs` is the receive loop of `Client::handle` over the decoded requests.
-/
namespace Memc

variable {σ : Type} (C : CacheOps σ)

/-- **in order**: the bytes written for a pipeline are the per-request outputs concatenated in arrival
    order, each request executed on the store left by its predecessors -/
theorem C12_in_order (now : Nat) (s : σ) (e : Ev) (es : List Ev) (hopen : (execEv C now s e).2.2 = false) :
    execEvs C now s (e :: es) =
      ((execEvs C now (execEv C now s e).1 es).1,
       (execEv C now s e).2.1 ++ (execEvs C now (execEv C now s e).1 es).2.1,
       (execEvs C now (execEv C now s e).1 es).2.2) := by
  simp [execEvs, hopen]

/-- loud = not one of the quiet opcodes -/
def loudReq (r : Req) : Bool :=
  match r with
  | .get h _ => !quietGetOp h.opcode
  | .delete h _ => !quietDeleteOp h.opcode
  | .set h _ _ _ _ => !quietSetOp h.opcode
  | .append h _ _ => !quietAppendOp h.opcode
  | .delta h _ _ _ _ => !quietDeltaOp h.opcode
  | .headerOnly h => h.opcode != 0x17
  | .flush h _ => !quietFlushOp h.opcode
  | .tooLarge _ | .notSupported _ => true

/-- every loud request — including the opcodes the server does not implement and oversized ones — is
    answered with exactly one response -/
theorem C12_loud_one (s : σ) (now : Nat) (r : Req) (h : loudReq r = true) :
    ∃ resp, (handleRequest C s now r).2 = some resp := by
  cases r with
  | get hd k => simp [loudReq] at h; simp [handleRequest, Req.header, h]
  | delete hd k => simp [loudReq] at h; simp [handleRequest, Req.header, h]
  | set hd f e k v => simp [loudReq] at h; simp [handleRequest, Req.header, h]
  | append hd k v => simp [loudReq] at h; simp [handleRequest, Req.header, h]
  | delta hd d i e k => simp [loudReq] at h; simp [handleRequest, Req.header, h]
  | headerOnly hd =>
    simp [loudReq] at h
    simp only [handleRequest, Req.header]
    by_cases h1 : hd.opcode = 0x0a
    · simp [h1]
    · by_cases h2 : hd.opcode = 0x07
      · simp [h2]
      · simp [h1, h2, h]
  | flush hd e => simp [loudReq] at h; simp [handleRequest, Req.header, h]
  | tooLarge hd => simp [handleRequest]
  | notSupported hd => simp [handleRequest]

def Resp.isErr : Resp → Bool
  | .error _ _ => true
  | _ => false

/-- a quiet mutation responds only with an error -/
theorem C12_quiet_mutation (r resp : Resp) (h : intoQuietMutation r = some resp) : resp = r ∧ r.isErr = true := by
  cases r <;> simp [intoQuietMutation] at h <;> simp [h, Resp.isErr]

/-- … and is silent exactly when the loud command would have succeeded -/
theorem C12_quiet_mutation_silent (r : Resp) : intoQuietMutation r = none ↔ r.isErr = false := by
  cases r <;> simp [intoQuietMutation, Resp.isErr]

/-- a quiet get responds unless it is a miss -/
theorem C12_quiet_get (r : Resp) :
    intoQuietGet r = none ↔ ∃ h t, r = .error h t ∧ h.status = CacheError.notFound.code := by
  cases r with
  | error h t =>
    simp only [intoQuietGet]
    constructor
    · intro hh; split at hh
      · exact ⟨h, t, rfl, by assumption⟩
      · simp at hh
    · rintro ⟨h', t', heq, hs⟩; simp at heq; obtain ⟨rfl, rfl⟩ := heq; simp [hs]
  | _ => simp [intoQuietGet]

/-- quit is answered, then the connection is closed; quitq closes it without an answer -/
theorem C12_quit (s : σ) (now : Nat) (hd : ReqHeader) :
    (hd.opcode = 0x07 → execEv C now s (.frame (.headerOnly hd)) =
        (s, encode (.quit { opcode := hd.opcode, opaq := hd.opaq }), true)) ∧
    (hd.opcode = 0x17 → execEv C now s (.frame (.headerOnly hd)) = (s, [], true)) := by
  constructor
  · intro h; simp [execEv, isQuitQ, handleRequest, Req.header, h, Resp.isQuit]
  · intro h; simp [execEv, isQuitQ, h]

/-- nothing received after quit / quitq / a protocol error is executed or answered -/
theorem C12_nothing_after_close (now : Nat) (s : σ) (e : Ev) (es : List Ev) (hclosed : (execEv C now s e).2.2 = true) :
    execEvs C now s (e :: es) = execEv C now s e := by
  simp [execEvs, hclosed]

theorem C12_closed_ignores_input (limit now : Nat) (c : Conn) (s : σ) (chunk : Bytes) (h : c.closed = true) :
    feed C limit now c s chunk = (c, s, []) := by
  simp [feed, h]

/-- a whole pipeline of complete frames in one or many segments: the decoder hands the frames over in
    arrival order (with `C09_segmentation_independent` for the segments) -/
theorem C12_pipeline_order (limit : Nat) (frames : List (Bytes × ReqHeader))
    (hall : ∀ f ∈ frames, IsFrame f.1 f.2 ∧ frameOK limit f.1 f.2 = true) :
    (drain limit .idle (frames.map (·.1)).flatten).1 = frames.map (fun f => frameEv limit f.1 f.2) := by
  have := drain_frames limit frames [] hall
  simp only [List.append_nil] at this
  rw [this, drain_eq]
  simp [decode1_idle, HEADER_LEN]

example : loudReq (.notSupported ⟨0x80, 0x1c, 0, 0, 0, 0, 0, 5, 0⟩) = true := by decide

/-! ## the opcode table of this property is the source's (regenerated from /repo on every run: `tools/gentables.py`) -/

/-- which opcodes exist, which are executed by which parser and which are answered 'not supported' (every known opcode
    gets an answer): the model's `opGroup` is `parse_request`'s dispatch as it is now -/
theorem C12_dispatch_is_the_sources :
    Holds Gen.opcodes (fun os => Holds Gen.dispatch (fun t => os = t.map (·.1))) ∧
    Holds Gen.dispatch (fun t => t.all (fun p => (opGroup p.1).idx == p.2) = true) :=
  ⟨tie_opcodes, tie_dispatch⟩

end Memc

#print axioms Memc.C12_in_order
#print axioms Memc.C12_loud_one
#print axioms Memc.C12_quiet_mutation
#print axioms Memc.C12_quiet_mutation_silent
#print axioms Memc.C12_quiet_get
#print axioms Memc.C12_quit
#print axioms Memc.C12_nothing_after_close
#print axioms Memc.C12_closed_ignores_input
#print axioms Memc.C12_pipeline_order
#print axioms Memc.C12_dispatch_is_the_sources
