import MemcVerif.Model.Handler
/-!
# C19 — quiet variants differ from loud ones only in what is sent back

Generic in the store (`C : CacheOps σ` arbitrary). `toQuiet` switches a request to the quiet opcode of
its command; the store after handling is identical, and the responses are related as the property says.
-/
namespace Memc

/-- quiet twin of a loud opcode (the eleven commands that have one) -/
def quietOf (op : Nat) : Nat :=
  if op = 0x00 then 0x09 else if op = 0x0c then 0x0d
  else if op = 0x01 then 0x11 else if op = 0x02 then 0x12 else if op = 0x03 then 0x13
  else if op = 0x04 then 0x14 else if op = 0x05 then 0x15 else if op = 0x06 then 0x16
  else if op = 0x08 then 0x18 else if op = 0x0e then 0x19 else if op = 0x0f then 0x1a else op

def Req.setOpcode (r : Req) (op : Nat) : Req :=
  match r with
  | .get h k => .get { h with opcode := op } k
  | .delete h k => .delete { h with opcode := op } k
  | .set h f e k v => .set { h with opcode := op } f e k v
  | .append h k v => .append { h with opcode := op } k v
  | .delta h d i e k => .delta { h with opcode := op } d i e k
  | .headerOnly h => .headerOnly { h with opcode := op }
  | .flush h e => .flush { h with opcode := op } e
  | .tooLarge h => .tooLarge { h with opcode := op }
  | .notSupported h => .notSupported { h with opcode := op }

def Req.toQuiet (r : Req) : Req := r.setOpcode (quietOf r.header.opcode)

/-- a loud request as the decoder produces it: the variant agrees with the opcode's command group -/
def LoudOK : Req → Prop
  | .get h _ => h.opcode = 0x00 ∨ h.opcode = 0x0c
  | .delete h _ => h.opcode = 0x04
  | .set h _ _ _ _ => h.opcode = 0x01 ∨ h.opcode = 0x02 ∨ h.opcode = 0x03
  | .append h _ _ => h.opcode = 0x0e ∨ h.opcode = 0x0f
  | .delta h _ _ _ _ => h.opcode = 0x05 ∨ h.opcode = 0x06
  | .flush h _ => h.opcode = 0x08
  | _ => False

def Resp.setOpcode (r : Resp) (op : Nat) : Resp :=
  match r with
  | .error h t => .error { h with opcode := op } t
  | .get h f k v => .get { h with opcode := op } f k v
  | .plain h => .plain { h with opcode := op }
  | .quit h => .quit { h with opcode := op }
  | .version h v => .version { h with opcode := op } v
  | .counter h v => .counter { h with opcode := op } v

def Resp.isError : Resp → Bool
  | .error _ _ => true
  | _ => false

def Resp.isMiss : Resp → Bool
  | .error h _ => h.status = CacheError.notFound.code
  | _ => false

/-- what the quiet twin must answer, given what the loud command answered -/
def quietExpect (req : Req) (loud : Option Resp) : Option Resp :=
  match loud with
  | none => none
  | some r =>
    let r' := r.setOpcode (quietOf req.header.opcode)
    match req with
    | .get _ _ => if r.isMiss then none else some r'          -- quiet get: silent on a miss, same payload on a hit
    | _ => if r.isError then some r' else none                 -- quiet mutation: only errors, identical apart from the opcode

variable {σ : Type} (C : CacheOps σ)

/-- **same effect, related responses** for one request in any store -/
theorem C19_step (s : σ) (now : Nat) (req : Req) (h : LoudOK req) :
    (handleRequest C s now req.toQuiet).1 = (handleRequest C s now req).1 ∧
    (handleRequest C s now req.toQuiet).2 = quietExpect req (handleRequest C s now req).2 := by
  cases req with
  | get hd key =>
    simp only [LoudOK] at h
    rcases h with h | h
    all_goals
      simp only [Req.toQuiet, Req.setOpcode, Req.header, quietOf, h, handleRequest, quietGetOp, getKeyOp, quietExpect]
      generalize (C.get s now key).2 = res
      refine ⟨by simp, ?_⟩
      cases res with
      | ok x => simp [intoQuietGet, Resp.setOpcode, Resp.isMiss]
      | error e =>
        by_cases he : e = .notFound
        · subst he; simp [intoQuietGet, errorResp, Resp.isMiss, CacheError.code]
        · cases e <;> simp_all [intoQuietGet, errorResp, Resp.isMiss, Resp.setOpcode, CacheError.code]
  | delete hd key =>
    simp only [LoudOK] at h
    simp only [Req.toQuiet, Req.setOpcode, Req.header, quietOf, h, handleRequest, quietDeleteOp, quietExpect]
    generalize (C.delete s key hd.cas).2 = res
    refine ⟨by simp, ?_⟩
    cases res <;> simp [intoQuietMutation, errorResp, Resp.isError, Resp.setOpcode]
  | set hd f e key value =>
    simp only [LoudOK] at h
    rcases h with h | h | h
    all_goals
      simp only [Req.toQuiet, Req.setOpcode, Req.header, quietOf, h, handleRequest, quietSetOp, isSetOp, isAddOp, quietExpect]
      simp
      generalize hres : Prod.snd _ = res
      cases res <;> simp [statusResp, intoQuietMutation, errorResp, Resp.isError, Resp.setOpcode]
  | append hd key value =>
    simp only [LoudOK] at h
    rcases h with h | h
    all_goals
      simp only [Req.toQuiet, Req.setOpcode, Req.header, quietOf, h, handleRequest, quietAppendOp, isAppendOp, quietExpect]
      simp
      generalize hres : Prod.snd _ = res
      cases res <;> simp [statusResp, intoQuietMutation, errorResp, Resp.isError, Resp.setOpcode]
  | delta hd d i e key =>
    simp only [LoudOK] at h
    rcases h with h | h
    all_goals
      simp only [Req.toQuiet, Req.setOpcode, Req.header, quietOf, h, handleRequest, quietDeltaOp, isIncrOp, quietExpect]
      simp
      generalize hres : Prod.snd _ = res
      cases res <;> simp [intoQuietMutation, errorResp, Resp.isError, Resp.setOpcode]
  | flush hd e =>
    simp only [LoudOK] at h
    simp [Req.toQuiet, Req.setOpcode, Req.header, quietOf, h, handleRequest, quietFlushOp, quietExpect, Resp.isError]
  | headerOnly hd => simp [LoudOK] at h
  | tooLarge hd => simp [LoudOK] at h
  | notSupported hd => simp [LoudOK] at h

/-- run a list of requests, collecting the responses -/
def runReqs (s : σ) : List (Nat × Req) → σ × List (Option Resp)
  | [] => (s, [])
  | (now, r) :: rest =>
    let x := handleRequest C s now r
    let y := runReqs x.1 rest
    (y.1, x.2 :: y.2)

/-- switch the positions marked `true` to their quiet variants -/
def toggle : List (Nat × Req) → List Bool → List (Nat × Req)
  | (now, r) :: rest, b :: bs => (now, if b then r.toQuiet else r) :: toggle rest bs
  | l, _ => l

/-- **any subset of positions switched to quiet leaves the final store identical**, for command
    sequences of any length -/
theorem C19_histories (s : σ) (reqs : List (Nat × Req)) (mask : List Bool) (h : ∀ e ∈ reqs, LoudOK e.2) :
    (runReqs C s (toggle reqs mask)).1 = (runReqs C s reqs).1 := by
  induction reqs generalizing s mask with
  | nil => cases mask <;> rfl
  | cons e rest ih =>
    obtain ⟨now, r⟩ := e
    cases mask with
    | nil => rfl
    | cons b bs =>
      simp only [toggle, runReqs]
      have hr : LoudOK r := h (now, r) (List.mem_cons_self ..)
      have hrest : ∀ e ∈ rest, LoudOK e.2 := fun e he => h e (List.mem_cons_of_mem _ he)
      cases b with
      | false => simp only [Bool.false_eq_true, if_false]; exact ih _ bs hrest
      | true =>
        simp only [if_true]
        rw [(C19_step C s now r hr).1]
        exact ih _ bs hrest

example : LoudOK (.set ⟨0x80, 0x01, 1, 8, 0, 0, 10, 7, 0⟩ 0 0 [65] [66]) := by simp [LoudOK]

end Memc

#print axioms Memc.C19_step
#print axioms Memc.C19_histories
