import MemcVerif.Proofs.Frames
/-!
# C09 — request framing is independent of TCP segmentation

Model: `Conn` (parser state + buffered bytes) and `feed` (a chunk arrives: append, decode everything that is
complete, execute in order). Generic in the store. Chunks arrive within the idle timeout (timing is not content).
-/
namespace Memc

variable {σ : Type} (C : CacheOps σ)

/-- delivering `a` and then `b` is the same as delivering `a ++ b`: same responses, store, connection state -/
theorem C09_feed_feed (limit now : Nat) (c : Conn) (s : σ) (a b : Bytes) :
    feed C limit now c s (a ++ b) =
      ((feed C limit now (feed C limit now c s a).1 (feed C limit now c s a).2.1 b).1,
       (feed C limit now (feed C limit now c s a).1 (feed C limit now c s a).2.1 b).2.1,
       (feed C limit now c s a).2.2 ++ (feed C limit now (feed C limit now c s a).1 (feed C limit now c s a).2.1 b).2.2) :=
  feed_feed C limit now c s a b

/-- **segmentation independence**: any two ways of cutting the same bytes into consecutive reads — any
    number of cuts, anywhere — give the same response bytes, the same store and the same connection state -/
theorem C09_segmentation_independent (limit now : Nat) (c : Conn) (s : σ) (cs1 cs2 : List Bytes)
    (h1 : cs1 ≠ []) (h2 : cs2 ≠ []) (heq : cs1.flatten = cs2.flatten) :
    feedAll C limit now c s cs1 = feedAll C limit now c s cs2 := by
  cases cs1 with
  | nil => exact absurd rfl h1
  | cons a r1 =>
    cases cs2 with
    | nil => exact absurd rfl h2
    | cons b r2 =>
      rw [feedAll_cons_flatten, feedAll_cons_flatten]
      simp only [List.flatten_cons] at heq
      rw [heq]

/-- at the decoder: the events decoded from `buf ++ x` are those of `buf` followed by those of the residue
    with `x` appended -/
theorem C09_decoder_stream (limit : Nat) (st : PState) (buf x : Bytes) :
    (drain limit st (buf ++ x)).1 =
      (drain limit st buf).1 ++ (drain limit (drain limit st buf).2.1 ((drain limit st buf).2.2 ++ x)).1 := by
  rw [drain_append]

/-- **exact consumption**: a request emitted from the idle state is taken from exactly the
    `24 + body_length` bytes its header announces; what follows is left untouched. Otherwise the connection
    is dead (protocol error) or more bytes are awaited. -/
theorem C09_exact_consumption (limit : Nat) (buf : Bytes) (r : Req) (st' : PState) (buf' : Bytes)
    (h : decode1 limit .idle buf = .emit (.frame r) st' buf') :
    st' = .idle ∧ HEADER_LEN + (parseHeader buf).bodyLen ≤ buf.length ∧
    buf' = buf.drop (HEADER_LEN + (parseHeader buf).bodyLen) := by
  rw [decode1_idle] at h
  split at h
  · simp at h
  · rename_i hlen
    split at h
    · simp at h
    · rw [bodyStep_eq] at h
      have hd : ∀ n, (buf.drop HEADER_LEN).drop n = buf.drop (HEADER_LEN + n) := by
        intro n; rw [List.drop_drop]
      have hlen' : (buf.drop HEADER_LEN).length = buf.length - HEADER_LEN := by simp
      split at h
      · split at h
        · rename_i h2
          simp at h; obtain ⟨_, rfl, rfl⟩ := h
          exact ⟨rfl, by omega, by first | rfl | exact hd _⟩
        · simp at h
      · split at h
        · simp at h
        · rename_i h2
          split at h
          · simp at h; obtain ⟨_, rfl, rfl⟩ := h
            exact ⟨rfl, by omega, by first | rfl | exact hd _⟩
          · simp at h

/-- the same for an oversized body that arrives in pieces: the bytes still owed are tracked exactly
    (`skipping h n` with `n = body_length - buffered`) and exactly `n` more are discarded -/
theorem C09_exact_skip (limit : Nat) (buf : Bytes) (h : ReqHeader) (n : Nat)
    (hd : decode1 limit .idle buf = .needMore (.skipping h n) []) :
    h = parseHeader buf ∧ n = HEADER_LEN + h.bodyLen - buf.length ∧ buf.length < HEADER_LEN + h.bodyLen := by
  rw [decode1_idle] at hd
  split at hd
  · simp at hd
  · rename_i hlen
    split at hd
    · simp at hd
    · rw [bodyStep_eq] at hd
      have hlen' : (buf.drop HEADER_LEN).length = buf.length - HEADER_LEN := by simp
      split at hd
      · split at hd
        · simp at hd
        · simp at hd; obtain ⟨rfl, rfl⟩ := hd
          exact ⟨rfl, by omega, by omega⟩
      · split at hd
        · simp at hd
        · split at hd <;> simp at hd

theorem C09_skip_discards_exactly (limit : Nat) (h : ReqHeader) (n : Nat) (buf : Bytes) :
    (n ≤ buf.length → decode1 limit (.skipping h n) buf = .emit (.frame (.tooLarge h)) .idle (buf.drop n)) ∧
    (buf.length < n → decode1 limit (.skipping h n) buf = .needMore (.skipping h (n - buf.length)) []) := by
  constructor
  · intro hle; simp [decode1, hle]
  · intro hlt
    have : ¬ n ≤ buf.length := by omega
    simp [decode1, this]

/-- non-vacuity: three chunkings of one stream -/
example : ([[1, 2], [3], [4, 5, 6]] : List Bytes).flatten = ([[1], [2, 3, 4, 5], [6]] : List Bytes).flatten := by decide

end Memc

#print axioms Memc.C09_feed_feed
#print axioms Memc.C09_segmentation_independent
#print axioms Memc.C09_decoder_stream
#print axioms Memc.C09_exact_consumption
#print axioms Memc.C09_exact_skip
#print axioms Memc.C09_skip_discards_exactly
