import MemcVerif.Proofs.Policy
import MemcVerif.Proofs.PolConc
import MemcVerif.Proofs.PolSeq
/-!
# C14 — random eviction keeps stored bytes within the memory limit (sequential clause)

For every limit (including limits below one record), every store state, every record size and **every
victim choice** (`tape` is universally quantified; `bad = false` says the choices were ones the loop could
make and that it ran to completion). Counter arithmetic does not wrap (`usage + len < 2^64`).

The concurrent clause is stated over the micro-step model `Model/PolConc` (every atomic operation of
`RandomPolicy::set`/`delete` is one step; a schedule names the thread that moves and the victim `remove_if`
removed). As stated in the property it is FALSE for the code: the empty-store reset subtracts a stale local
copy (`C14_racy_reset_breaks_bound`, a three-store witness; recorded finding K-C14-reset-race). It is proved
for every schedule in which every reset is quiet — no other call in flight, counter unmoved since the local
copy was taken (`C14_concurrent_partial`), for any number of threads, programs and steps.
-/
namespace Memc

/-- accounted usage covers the stored bytes plus `pending` bytes of a store in progress -/
def Policy.Covers (p : Policy) (pending : Nat) : Prop := p.inner.mem.bytes + pending ≤ p.usage ∧ p.usage < U64

/-- the eviction loop: preserves coverage of the pending record, and on regular completion either the
    accounted usage is within the limit or the store was emptied and only the pending record is accounted -/
theorem evictLoop_spec (value : Nat) (tape : List Key) (p : Policy) (u : Nat)
    (hu : u = p.usage) (hc : p.Covers value) :
    (Policy.evictLoop value tape p u).Covers value ∧
    (Policy.evictLoop value tape p u).limit = p.limit ∧
    ((Policy.evictLoop value tape p u).bad = false →
      (Policy.evictLoop value tape p u).usage ≤ p.limit ∨
      ((Policy.evictLoop value tape p u).inner.mem.bytes = 0 ∧ (Policy.evictLoop value tape p u).usage = value)) := by
  induction tape generalizing p u with
  | nil =>
    unfold Policy.evictLoop
    subst hu
    by_cases hg : p.usage > p.limit
    · simp only [hg, if_true]
      by_cases he : p.inner.len = 0
      · have hb : p.inner.mem.bytes = 0 := Mem.bytes_of_length_zero _ he
        have hv : value ≤ p.usage := by have := hc.1; omega
        have h1 : wsub p.usage value = p.usage - value := wsub_exact hv hc.2
        have h2 : wsub p.usage (p.usage - value) = value := by
          rw [wsub_exact (by omega) hc.2]; omega
        simp only [he, if_true, h1, h2]
        refine ⟨⟨?_, ?_⟩, ?_, ?_⟩
        · simp [hb]
        · have := hc.2; simp only; omega
        · trivial
        · intro _; right; exact ⟨hb, by trivial⟩
      · simp only [he, if_false]
        refine ⟨hc, by trivial, fun hbad => by cases hbad⟩
    · simp only [hg, if_false]
      refine ⟨hc, by trivial, fun _ => Or.inl (by omega)⟩
  | cons v rest ih =>
    unfold Policy.evictLoop
    subst hu
    by_cases hg : p.usage > p.limit
    · simp only [hg, if_true]
      by_cases he : p.inner.len = 0
      · have hb : p.inner.mem.bytes = 0 := Mem.bytes_of_length_zero _ he
        have hv : value ≤ p.usage := by have := hc.1; omega
        have h1 : wsub p.usage value = p.usage - value := wsub_exact hv hc.2
        have h2 : wsub p.usage (p.usage - value) = value := by
          rw [wsub_exact (by omega) hc.2]; omega
        simp only [he, if_true, h1, h2]
        refine ⟨⟨?_, ?_⟩, ?_, ?_⟩
        · simp [hb]
        · have := hc.2; simp only; omega
        · trivial
        · intro hbad; simp at hbad
      · simp only [he, if_false]
        cases hl : p.inner.mem.lookup v with
        | none => refine ⟨hc, by trivial, fun hbad => by cases hbad⟩
        | some r =>
          simp only
          have hfree := Mem.bytes_erase_lookup p.inner.mem v r hl
          have hle : r.len ≤ p.usage := by have := hc.1; omega
          have hw : wsub p.usage r.len = p.usage - r.len := wsub_exact hle hc.2
          have hc' : Policy.Covers { p with inner := { p.inner with mem := p.inner.mem.erase v }, usage := wsub p.usage r.len } value := by
            refine ⟨?_, ?_⟩
            · simp only [hw]; have := hc.1; omega
            · simp only [hw]; have := hc.2; omega
          have := ih { p with inner := { p.inner with mem := p.inner.mem.erase v }, usage := wsub p.usage r.len } (wsub p.usage r.len) rfl hc'
          exact this
    · simp only [hg, if_false]
      refine ⟨hc, by trivial, fun _ => Or.inl (by omega)⟩

/-- **C14 sequential bound**: after a store of a record of `r.len` bytes, for every victim choice, the
    bytes stored are at most max(limit, r.len) ≤ limit + the record just written; the accounting still
    covers the content -/
theorem C14_sequential (p : Policy) (now : Nat) (k : Key) (r : Record)
    (hc : p.Covers 0) (hnw : p.usage + r.len < U64)
    (hok : (p.set now k r).1.bad = false) :
    (p.set now k r).1.inner.mem.bytes ≤ max p.limit r.len ∧ (p.set now k r).1.Covers 0 := by
  unfold Policy.set Policy.incrMemUsage at *
  have hadd : wadd p.usage r.len = p.usage + r.len := wadd_exact hnw
  have hc0 : Policy.Covers { p with usage := wadd p.usage r.len } r.len := by
    refine ⟨?_, ?_⟩
    · simp only [hadd]; have := hc.1; omega
    · simp only [hadd]; exact hnw
  obtain ⟨h1, h2, h3⟩ := evictLoop_spec r.len p.tape { p with usage := wadd p.usage r.len } (wadd p.usage r.len) rfl hc0
  generalize hq : Policy.evictLoop r.len p.tape { p with usage := wadd p.usage r.len } (wadd p.usage r.len) = q at *
  simp only at hok ⊢
  have hset := MemStore.set_bytes_le q.inner now k r
  have h2' : q.limit = p.limit := h2
  have h11 : q.inner.mem.bytes + r.len ≤ q.usage := h1.1
  refine ⟨?_, ⟨?_, h1.2⟩⟩
  · rcases h3 hok with hle | ⟨hz, hv⟩
    · have hle' : q.usage ≤ p.limit := hle
      have : (q.inner.set now k r).1.mem.bytes ≤ p.limit := by omega
      exact Nat.le_trans this (Nat.le_max_left _ _)
    · have : (q.inner.set now k r).1.mem.bytes ≤ r.len := by omega
      exact Nat.le_trans this (Nat.le_max_right _ _)
  · show (q.inner.set now k r).1.mem.bytes + 0 ≤ q.usage
    omega

/-- the other policy calls never raise the byte total above the accounting -/
theorem C14_covers_delete (p : Policy) (k : Key) (cas : Nat) (hc : p.Covers 0) : (p.delete k cas).1.Covers 0 := by
  unfold Policy.delete
  cases hl : p.inner.mem.lookup k with
  | none => rw [MemStore.delete_absent _ _ _ hl]; exact hc
  | some r =>
    by_cases h : cas = 0 ∨ r.header.cas = cas
    · rw [MemStore.delete_ok _ _ _ r hl h]
      have hfree := Mem.bytes_erase_lookup p.inner.mem k r hl
      have hle : r.len ≤ p.usage := by have := hc.1; omega
      simp only [wsub_exact hle hc.2]
      have h1 := hc.1
      have h2 := hc.2
      refine ⟨?_, ?_⟩
      · show (p.inner.mem.erase k).bytes + 0 ≤ p.usage - r.len
        omega
      · show p.usage - r.len < U64
        omega
    · rw [MemStore.delete_mismatch _ _ _ r hl h]; exact hc

theorem C14_covers_get (p : Policy) (now : Nat) (k : Key) (hc : p.Covers 0) : (p.get now k).1.Covers 0 := by
  unfold Policy.get
  refine ⟨?_, hc.2⟩
  simp only
  have : (p.inner.get now k).1.mem.bytes ≤ p.inner.mem.bytes := by
    unfold MemStore.get MemStore.getByKey
    cases hl : p.inner.mem.lookup k with
    | none => simp
    | some r =>
      simp only [MemStore.checkIfExpired, hl]
      split
      · simp
      · split
        · simp
        · split
          · simp; exact Mem.bytes_erase_le _ _
          · simp
  have := hc.1; omega

theorem C14_covers_flush (p : Policy) (now ttl : Nat) (hc : p.Covers 0) : (p.flush now ttl).Covers 0 := by
  unfold Policy.flush MemStore.flush
  refine ⟨?_, hc.2⟩
  simp only
  split
  · simp only [Mem.bytes_map_flush]; exact hc.1
  · simp

/-- the eviction loop terminates for every victim choice: it consumes at most one victim per stored
    record (structural recursion on the tape; each valid victim removes one record) -/
theorem C14_terminates (value : Nat) (tape : List Key) (p : Policy) (u : Nat) :
    (Policy.evictLoop value tape p u).tape.length ≤ tape.length := by
  induction tape generalizing p u with
  | nil =>
    unfold Policy.evictLoop
    by_cases hg : u > p.limit
    · by_cases he : p.inner.len = 0 <;> simp [hg, he]
    · simp [hg]
  | cons v rest ih =>
    unfold Policy.evictLoop
    by_cases hg : u > p.limit
    · by_cases he : p.inner.len = 0
      · simp [hg, he]
      · simp only [hg, he, if_true, if_false]
        cases hl : p.inner.mem.lookup v with
        | none => simp
        | some r =>
          simp only [List.length_cons]
          exact Nat.le_trans (ih _ _) (Nat.le_succ _)
    · simp [hg]

/-- eviction happens before the insert: an acknowledged store leaves its record in the store, whatever
    was evicted to make room -/
theorem C14_victim_not_pending (p : Policy) (now : Nat) (k : Key) (r : Record) (c : Nat)
    (h : (p.set now k r).2 = .ok c) : ∃ x, (p.set now k r).1.inner.mem.lookup k = some x ∧ x.value = r.value := by
  unfold Policy.set at *
  simp only at h ⊢
  generalize p.incrMemUsage r.len = q at *
  rcases MemStore.set_self_cases' q.inner now k r with h1 | h1 | h1 <;> rw [h1] at h ⊢
  · simp at h
  · exact ⟨_, Mem.lookup_insert_self _ _ _, rfl⟩
  · exact ⟨_, Mem.lookup_insert_self _ _ _, rfl⟩

/-- a limit below one record: the store is emptied and the single record is kept -/
example : ((Policy.init 10).set 0 [1] (Record.new [1,2,3] 0 0 0)).1.inner.mem.bytes = 27 := by decide

/-! ## the concurrent clause -/

/-- while no reset is racy: at every moment of every schedule the counter covers what is stored plus what is
    in flight (so nothing stored is ever unaccounted), whatever the threads, programs and victims -/
theorem C14_concurrent_cover (limit B now : Nat) (programs : List (List PCall)) (sched : List (Nat × Option Key))
    (hb : ∀ p ∈ programs, ∀ c ∈ p, c.Bounded B)
    (hr : ((PSys.init limit programs).run now sched).racy = false)
    (ho : ((PSys.init limit programs).run now sched).overflow = false) :
    ((PSys.init limit programs).run now sched).inner.mem.bytes + pendSum ((PSys.init limit programs).run now sched).threads
      ≤ ((PSys.init limit programs).run now sched).usage :=
  (run_inv B _ now sched (init_inv B limit programs hb) hr ho).1.cover

/-- **C14, concurrent clause (partial: quiet resets)**: any number of threads running any programs of stores,
    deletes, reads and flushes of records of at most `B` bytes, under every interleaving of their atomic
    operations and every victim choice: whenever no call is in progress, the bytes stored are at most
    `max limit B` (≤ limit + one record), provided no reset raced with another call. -/
theorem C14_concurrent_partial (limit B now : Nat) (programs : List (List PCall)) (sched : List (Nat × Option Key))
    (hb : ∀ p ∈ programs, ∀ c ∈ p, c.Bounded B)
    (hq : ((PSys.init limit programs).run now sched).quiescent = true)
    (hr : ((PSys.init limit programs).run now sched).racy = false)
    (ho : ((PSys.init limit programs).run now sched).overflow = false) :
    ((PSys.init limit programs).run now sched).inner.mem.bytes ≤ max limit B := by
  obtain ⟨hinv, hlim⟩ := run_inv B _ now sched (init_inv B limit programs hb) hr ho
  obtain ⟨h1, h2⟩ := hinv.at_rest hq
  rw [hlim] at h2
  exact Nat.le_trans h1 h2

/-- the same from any state in which the invariant holds (e.g. after any earlier history) -/
theorem C14_concurrent_from (B : Nat) (s : PSys) (now : Nat) (sched : List (Nat × Option Key)) (h : PInv B s)
    (hq : (s.run now sched).quiescent = true) (hr : (s.run now sched).racy = false)
    (ho : (s.run now sched).overflow = false) : (s.run now sched).inner.mem.bytes ≤ max s.limit B := by
  obtain ⟨hinv, hlim⟩ := run_inv B s now sched h hr ho
  obtain ⟨h1, h2⟩ := hinv.at_rest hq
  rw [hlim] at h2
  exact Nat.le_trans h1 h2

/-- **the two models of `RandomPolicy::set` are one**: the micro-step model run by a single thread, with the tape's
    victims as the scheduler's choices, ends in the store, the counter and the answer of the sequential model — for
    every state, limit, record and every tape the loop accepts. The sequential theorems above are therefore statements
    about the micro-step model too, and the two correspondence suites (`policy`, `sched C14deep`) validate one model. -/
theorem C14_models_agree (inner : MemStore) (usage limit now : Nat) (k : Key) (r : Record) (tape : List Key)
    (hno : usage + r.len < U64)
    (hb : ((⟨inner, usage, limit, tape, false⟩ : Policy).set now k r).1.bad = false) :
    (oneThread inner usage limit ⟨[.set k r], .idle, []⟩ false false).run now ((0, none) :: seqSched tape) =
      oneThread ((⟨inner, usage, limit, tape, false⟩ : Policy).set now k r).1.inner
        ((⟨inner, usage, limit, tape, false⟩ : Policy).set now k r).1.usage limit
        ⟨[], .idle, [resOfCas ((⟨inner, usage, limit, tape, false⟩ : Policy).set now k r).2]⟩ false false :=
  set_agree inner usage limit now k r tape hno hb

def exRec (n : Nat) : Record := Record.new (List.replicate n 0) 0 0 0

/-- the witness schedule: two concurrent stores of 50 bytes into an empty store under a limit of 80, the second
    one finds the store empty while the first is still in flight and resets the counter; then one more store -/
def exRace : PSys :=
  (PSys.init 80 [[.set [1] (exRec 26)], [.set [2] (exRec 26)], [.set [3] (exRec 1)]]).run 0
    [(0, none), (1, none), (1, none), (1, none), (1, none), (0, none), (2, none), (2, none)]

/-- **the concurrent clause is FALSE as stated** (finding K-C14-reset-race): at rest, after a store of 25 bytes
    made with no other call in progress, 125 bytes are stored under a limit of 80 (> limit + the record just
    written), and the counter says 75 -/
theorem C14_racy_reset_breaks_bound :
    exRace.quiescent = true ∧ exRace.inner.mem.bytes = 125 ∧ exRace.usage = 75 ∧ exRace.limit + (exRec 1).len < 125 ∧
    exRace.racy = true ∧ exRace.overflow = false := by decide

/-- the premises of `C14_concurrent_partial` are met by a concurrent schedule with evictions -/
example :
    let s := (PSys.init 80 [[.set [1] (exRec 26)], [.set [2] (exRec 26), .delete [1] 0], [.get [2]]]).run 0
      [(0, none), (1, none), (0, none), (1, none), (1, some [1]), (2, none), (1, none), (1, none), (1, none), (1, none)]
    s.quiescent = true ∧ s.racy = false ∧ s.overflow = false ∧ s.inner.mem.bytes = 50 := by decide

end Memc

#print axioms Memc.evictLoop_spec
#print axioms Memc.C14_sequential
#print axioms Memc.C14_covers_delete
#print axioms Memc.C14_covers_get
#print axioms Memc.C14_covers_flush
#print axioms Memc.C14_terminates
#print axioms Memc.C14_victim_not_pending
#print axioms Memc.C14_concurrent_cover
#print axioms Memc.C14_concurrent_partial
#print axioms Memc.C14_concurrent_from
#print axioms Memc.C14_racy_reset_breaks_bound
#print axioms Memc.C14_models_agree
