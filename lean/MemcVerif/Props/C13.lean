import MemcVerif.Proofs.RespRT
import MemcVerif.Proofs.Frames
import MemcVerif.Proofs.Skip
import MemcVerif.Proofs.TablesTie
/-!
# C13 — item size limit: oversized requests are refused and skipped cleanly
-/
namespace Memc

variable {σ : Type} (C : CacheOps σ)

/-- an oversized request is answered 'too large' (status 3), with the request's opcode and opaque, and the
    store is untouched — for every opcode (the refusal happens before the opcode is looked at) -/
theorem C13_too_large_answer (s : σ) (now : Nat) (h : ReqHeader) :
    execEv C now s (.frame (.tooLarge h)) =
      (s, encode (errorResp .valueTooLarge { opcode := h.opcode, opaq := h.opaq }), false) ∧
    (errorResp .valueTooLarge { opcode := h.opcode, opaq := h.opaq }).header.status = 3 := by
  constructor
  · simp [execEv, isQuitQ, handleRequest, Req.header, Resp.isQuit, errorResp]
  · simp [errorResp, Resp.header, CacheError.code]

/-- in particular an oversized request whose opcode is quit or quitq is *not* a quit: it is answered 'too large' and the
    connection stays open (the loud and the quiet closing rule both look at the decoded request, never at the raw opcode) -/
theorem C13_oversized_quit_keeps_open (s : σ) (now : Nat) (h : ReqHeader) (_hq : h.opcode = 0x07 ∨ h.opcode = 0x17) :
    (execEv C now s (.frame (.tooLarge h))).2.2 = false ∧
    (execEv C now s (.frame (.tooLarge h))).2.1 ≠ [] := by
  rw [(C13_too_large_answer C s now h).1]
  refine ⟨rfl, ?_⟩
  intro h0
  have hlen := congrArg List.length h0
  simp [encode, encodeHeader_length] at hlen

/-- **skipped cleanly, however the body is split**: for a pipeline `oversized frame ++ rest`, delivered in
    any segmentation, the result is: the 'too large' answer, then exactly what `rest` alone produces on the
    untouched store. (One segment by `drain_frame`; all others by `C09_segmentation_independent`.) -/
theorem C13_skip_exact (limit now : Nat) (s : σ) (fb : Bytes) (h : ReqHeader) (rest : Bytes)
    (hf : IsFrame fb h) (hv : headerValid h = true) (hbig : h.bodyLen > limit) :
    feed C limit now Conn.init s (fb ++ rest) =
      ((feed C limit now Conn.init s rest).1, (feed C limit now Conn.init s rest).2.1,
       encode (errorResp .valueTooLarge { opcode := h.opcode, opaq := h.opaq }) ++ (feed C limit now Conn.init s rest).2.2) := by
  have hok : frameOK limit fb h = true := by simp [frameOK, hv, hbig]
  have hd := drain_frame limit hf rest hok
  have hev : frameEv limit fb h = .frame (.tooLarge h) := by simp [frameEv, hbig]
  have hans := (C13_too_large_answer C s now h).1
  simp only [feed, Conn.init, Bool.false_eq_true, if_false, List.nil_append, hd, hev, execEvs, hans]
  by_cases hc : (execEvs C now s (drain limit .idle rest).1).2.2 = true <;> simp [hc]

theorem C13_any_segmentation (limit now : Nat) (s : σ) (fb : Bytes) (h : ReqHeader) (rest : Bytes) (cs : List Bytes)
    (hne : cs ≠ []) (hcs : cs.flatten = fb ++ rest)
    (hf : IsFrame fb h) (hv : headerValid h = true) (hbig : h.bodyLen > limit) :
    feedAll C limit now Conn.init s cs =
      ((feed C limit now Conn.init s rest).1, (feed C limit now Conn.init s rest).2.1,
       encode (errorResp .valueTooLarge { opcode := h.opcode, opaq := h.opaq }) ++ (feed C limit now Conn.init s rest).2.2) := by
  cases cs with
  | nil => exact absurd rfl hne
  | cons a r =>
    rw [feedAll_cons_flatten]
    simp only [List.flatten_cons] at hcs
    rw [hcs]
    exact C13_skip_exact C limit now s fb h rest hf hv hbig

/-- **a request within the limit is never rejected for size**: parser states reachable from a fresh
    connection refuse a request as too large only if its body length exceeds the limit -/
def PState.sizeOK (limit : Nat) : PState → Prop
  | .skipping h _ => h.bodyLen > limit
  | _ => True

theorem C13_sizeOK_step (limit : Nat) (st : PState) (buf : Bytes) (hs : st.sizeOK limit) :
    (∀ st' buf', decode1 limit st buf = .needMore st' buf' → st'.sizeOK limit) ∧
    (∀ e st' buf', decode1 limit st buf = .emit e st' buf' →
        st'.sizeOK limit ∧ ∀ h, e = .frame (.tooLarge h) → h.bodyLen > limit) := by
  have hbody : ∀ (h : ReqHeader) (b : Bytes),
      (∀ st' buf', bodyStep limit h b = .needMore st' buf' → st'.sizeOK limit) ∧
      (∀ e st' buf', bodyStep limit h b = .emit e st' buf' →
        st'.sizeOK limit ∧ ∀ h', e = .frame (.tooLarge h') → h'.bodyLen > limit) := by
    intro h b
    rw [bodyStep_eq]
    constructor
    · intro st' buf' hd
      split at hd
      · rename_i hbig
        split at hd
        · simp at hd
        · simp at hd; obtain ⟨rfl, _⟩ := hd; exact hbig
      · split at hd
        · simp at hd; obtain ⟨rfl, _⟩ := hd; trivial
        · split at hd <;> simp at hd
    · intro e st' buf' hd
      split at hd
      · rename_i hbig
        split at hd
        · simp at hd; obtain ⟨rfl, rfl, _⟩ := hd
          exact ⟨trivial, fun h' he => by simp at he; subst he; exact hbig⟩
        · simp at hd
      · split at hd
        · simp at hd
        · split at hd
          · rename_i r hp
            simp at hd; obtain ⟨rfl, rfl, _⟩ := hd
            refine ⟨trivial, fun h' he => ?_⟩
            simp at he; subst he
            exact absurd hp (parseBody_ne_tooLarge _ _ _)
          · simp at hd; obtain ⟨rfl, rfl, _⟩ := hd
            exact ⟨trivial, fun h' he => by simp at he⟩
  cases st with
  | idle =>
    rw [decode1_idle]
    constructor
    · intro st' buf' hd
      split at hd
      · simp at hd; obtain ⟨rfl, _⟩ := hd; trivial
      · split at hd
        · simp at hd
        · exact (hbody _ _).1 st' buf' hd
    · intro e st' buf' hd
      split at hd
      · simp at hd
      · split at hd
        · simp at hd; obtain ⟨rfl, rfl, _⟩ := hd
          exact ⟨trivial, fun h' he => by simp at he⟩
        · exact (hbody _ _).2 e st' buf' hd
  | hdr h => rw [decode1_hdr]; exact hbody h buf
  | skipping h n =>
    simp only [PState.sizeOK] at hs
    simp only [decode1]
    constructor
    · intro st' buf' hd
      split at hd
      · simp at hd
      · simp at hd; obtain ⟨rfl, _⟩ := hd; exact hs
    · intro e st' buf' hd
      split at hd
      · simp at hd; obtain ⟨rfl, rfl, _⟩ := hd
        exact ⟨trivial, fun h' he => by simp at he; subst he; exact hs⟩
      · simp at hd
  | dead =>
    simp only [decode1]
    constructor
    · intro st' buf' hd; simp at hd; obtain ⟨rfl, _⟩ := hd; trivial
    · intro e st' buf' hd; simp at hd

/-- over a whole drain from a size-consistent state (in particular from a fresh connection) -/
theorem C13_within_limit_never_rejected (limit : Nat) (st : PState) (buf : Bytes) (hs : st.sizeOK limit) :
    (∀ h, .frame (.tooLarge h) ∈ (drain limit st buf).1 → h.bodyLen > limit) ∧ (drain limit st buf).2.1.sizeOK limit := by
  fun_induction drain limit st buf with
  | case1 st buf st' buf' hd =>
    exact ⟨fun h hm => by simp at hm, (C13_sizeOK_step limit st buf hs).1 st' buf' hd⟩
  | case2 st buf e st' buf' hd r ih =>
    obtain ⟨h1, h2⟩ := (C13_sizeOK_step limit st buf hs).2 e st' buf' hd
    obtain ⟨ih1, ih2⟩ := ih h1
    refine ⟨fun h hm => ?_, ih2⟩
    simp only [List.mem_cons] at hm
    rcases hm with hm | hm
    · exact h2 h hm.symm
    · exact ih1 h hm

example : PState.sizeOK 1024 .idle := trivial


/-! ## the socket-side discard loop (`skip_bytes`)

`Model/Skip`: the loop as it is written — a scratch buffer of min(bytes, 64 KiB), re-sized after every read to what is still
owed. The socket's deliveries are universally quantified: any number of reads, each returning between one byte and the
capacity offered. -/

theorem skip_run_inv (bytes : Nat) (ds : List Nat) :
    ∀ s : SkipSt, s.Inv bytes → s.counter + ds.length ≥ 0 →
      ∀ s', SkipSt.run bytes s ds = some s' → s'.Inv bytes ∧ (s'.done = false → s'.counter ≥ s.counter + ds.length) := by
  induction ds with
  | nil => intro s h _ s' hr; simp [SkipSt.run] at hr; subst hr; exact ⟨h, fun _ => by simp⟩
  | cons n rest ih =>
    intro s h _ s' hr
    unfold SkipSt.run at hr
    by_cases hd : s.done = true
    · simp [hd] at hr; subst hr; exact ⟨h, fun hf => by simp [hd] at hf⟩
    · have hd' : s.done = false := by simpa using hd
      have ho : s.overread = false := h.1
      simp only [hd', ho, Bool.or_self, Bool.false_eq_true, if_false] at hr
      by_cases hbad : n = 0 ∨ n > s.cap
      · simp [hbad] at hr
      · simp only [hbad, if_false] at hr
        have hn : 0 < n := by omega
        have hc : n ≤ s.cap := by omega
        have hinv := SkipSt.inv_step bytes s n h hd' hn hc
        obtain ⟨a, b⟩ := ih (s.step bytes n) hinv (by omega) s' hr
        refine ⟨a, fun hf => ?_⟩
        have := b hf
        have hcnt : (s.step bytes n).counter = s.counter + n := by
          unfold SkipSt.step
          simp only [hd', ho, Bool.or_self, Bool.false_eq_true, if_false]
          split
          · rfl
          · split <;> rfl
        simp only [List.length_cons]; omega

/-- **however the rest of an oversized body arrives**, the discard loop never takes a byte that belongs to the next request
    (its `panic!("Read too much …")` branch is unreachable), when it finishes it has discarded exactly `bytes`, and it makes
    progress with every read: after `bytes` reads at the latest it has finished -/
theorem C13_skip_loop_exact (bytes : Nat) (ds : List Nat) (s' : SkipSt)
    (h : SkipSt.run bytes (SkipSt.init bytes) ds = some s') :
    s'.overread = false ∧ s'.counter ≤ bytes ∧ (s'.done = true → s'.counter = bytes) ∧
    (s'.done = false → ds.length ≤ s'.counter ∧ s'.counter < bytes ∧ 0 < s'.cap ∧ s'.cap ≤ bytes - s'.counter) := by
  obtain ⟨⟨h1, h2, h3, h4⟩, h5⟩ := skip_run_inv bytes ds (SkipSt.init bytes) (SkipSt.inv_init bytes) (by omega) s' h
  refine ⟨h1, h2, h3, fun hf => ?_⟩
  have a := h5 hf
  have b := h4 hf
  simp [SkipSt.init] at a
  exact ⟨a, by omega, b.2, b.1⟩

/-- the scratch-buffer size of the model is the literal of `skip_bytes` as re-extracted from the source on this run -/
theorem C13_skip_buffer_is_the_sources : Holds Gen.skipBuf (fun n => n = SKIP_BUF) := tie_skip_buf

/-- the size test of the model's decoder is the one the codec's source has at every site where it compares the announced body
    length with the item size limit (`>`: a body of exactly the limit is within it), as re-extracted on this run -/
theorem C13_size_test_is_the_sources :
    Holds Gen.sizeTests (fun ops => ops.all (fun op =>
      [1024, 1048576].all (fun l => [l - 1, l, l + 1].all (fun b => opRefuses op b l == modelRefuses b l))) = true) :=
  tie_size_tests

/-- non-vacuity: 150 000 bytes owed, delivered as 65536 + 1 + 65535 + 18928 -/
example : (SkipSt.run 150000 (SkipSt.init 150000) [65536, 1, 65535, 18928]).map (·.done) = some true := by decide

end Memc

#print axioms Memc.C13_too_large_answer
#print axioms Memc.C13_skip_exact
#print axioms Memc.C13_any_segmentation
#print axioms Memc.C13_sizeOK_step
#print axioms Memc.C13_within_limit_never_rejected
#print axioms Memc.skip_run_inv
#print axioms Memc.C13_skip_loop_exact
#print axioms Memc.C13_skip_buffer_is_the_sources
#print axioms Memc.C13_size_test_is_the_sources
#print axioms Memc.C13_oversized_quit_keeps_open
