import MemcVerif.Proofs.Frames
/-!
# C13 — item size limit: oversized requests are refused and skipped cleanly
-/
namespace Memc

variable {σ : Type} (C : CacheOps σ)

/-- an oversized request is answered 'too large' (status 3), with the request's opcode and opaque, and the
    store is untouched — for every opcode (the refusal happens before the opcode is looked at) -/
theorem C13_too_large_answer (s : σ) (now : Nat) (h : ReqHeader) :
    execEv C now s (.frame (.tooLarge h)) =
      (s, encode (errorResp .valueTooLarge { opcode := h.opcode, opaq := h.opaq }), false) ∧
    (errorResp .valueTooLarge { opcode := h.opcode, opaq := h.opaq }).header.status = 3 := by
  constructor
  · simp [execEv, isQuitQ, handleRequest, Req.header, Resp.isQuit, errorResp]
  · simp [errorResp, Resp.header, CacheError.code]

/-- **skipped cleanly, however the body is split**: for a pipeline `oversized frame ++ rest`, delivered in
    any segmentation, the result is: the 'too large' answer, then exactly what `rest` alone produces on the
    untouched store. (One segment by `drain_frame`; all others by `C09_segmentation_independent`.) -/
theorem C13_skip_exact (limit now : Nat) (s : σ) (fb : Bytes) (h : ReqHeader) (rest : Bytes)
    (hf : IsFrame fb h) (hv : headerValid h = true) (hbig : h.bodyLen > limit) :
    feed C limit now Conn.init s (fb ++ rest) =
      ((feed C limit now Conn.init s rest).1, (feed C limit now Conn.init s rest).2.1,
       encode (errorResp .valueTooLarge { opcode := h.opcode, opaq := h.opaq }) ++ (feed C limit now Conn.init s rest).2.2) := by
  have hok : frameOK limit fb h = true := by simp [frameOK, hv, hbig]
  have hd := drain_frame limit hf rest hok
  have hev : frameEv limit fb h = .frame (.tooLarge h) := by simp [frameEv, hbig]
  have hans := (C13_too_large_answer C s now h).1
  simp only [feed, Conn.init, Bool.false_eq_true, if_false, List.nil_append, hd, hev, execEvs, hans]
  by_cases hc : (execEvs C now s (drain limit .idle rest).1).2.2 = true <;> simp [hc]

theorem C13_any_segmentation (limit now : Nat) (s : σ) (fb : Bytes) (h : ReqHeader) (rest : Bytes) (cs : List Bytes)
    (hne : cs ≠ []) (hcs : cs.flatten = fb ++ rest)
    (hf : IsFrame fb h) (hv : headerValid h = true) (hbig : h.bodyLen > limit) :
    feedAll C limit now Conn.init s cs =
      ((feed C limit now Conn.init s rest).1, (feed C limit now Conn.init s rest).2.1,
       encode (errorResp .valueTooLarge { opcode := h.opcode, opaq := h.opaq }) ++ (feed C limit now Conn.init s rest).2.2) := by
  cases cs with
  | nil => exact absurd rfl hne
  | cons a r =>
    rw [feedAll_cons_flatten]
    simp only [List.flatten_cons] at hcs
    rw [hcs]
    exact C13_skip_exact C limit now s fb h rest hf hv hbig

/-- **a request within the limit is never rejected for size**: parser states reachable from a fresh
    connection refuse a request as too large only if its body length exceeds the limit -/
def PState.sizeOK (limit : Nat) : PState → Prop
  | .skipping h _ => h.bodyLen > limit
  | _ => True

theorem C13_sizeOK_step (limit : Nat) (st : PState) (buf : Bytes) (hs : st.sizeOK limit) :
    (∀ st' buf', decode1 limit st buf = .needMore st' buf' → st'.sizeOK limit) ∧
    (∀ e st' buf', decode1 limit st buf = .emit e st' buf' →
        st'.sizeOK limit ∧ ∀ h, e = .frame (.tooLarge h) → h.bodyLen > limit) := by
  have hbody : ∀ (h : ReqHeader) (b : Bytes),
      (∀ st' buf', bodyStep limit h b = .needMore st' buf' → st'.sizeOK limit) ∧
      (∀ e st' buf', bodyStep limit h b = .emit e st' buf' →
        st'.sizeOK limit ∧ ∀ h', e = .frame (.tooLarge h') → h'.bodyLen > limit) := by
    intro h b
    rw [bodyStep_eq]
    constructor
    · intro st' buf' hd
      split at hd
      · rename_i hbig
        split at hd
        · simp at hd
        · simp at hd; obtain ⟨rfl, _⟩ := hd; exact hbig
      · split at hd
        · simp at hd; obtain ⟨rfl, _⟩ := hd; trivial
        · split at hd <;> simp at hd
    · intro e st' buf' hd
      split at hd
      · rename_i hbig
        split at hd
        · simp at hd; obtain ⟨rfl, rfl, _⟩ := hd
          exact ⟨trivial, fun h' he => by simp at he; subst he; exact hbig⟩
        · simp at hd
      · split at hd
        · simp at hd
        · split at hd
          · rename_i r hp
            simp at hd; obtain ⟨rfl, rfl, _⟩ := hd
            refine ⟨trivial, fun h' he => ?_⟩
            simp at he; subst he
            exact absurd hp (parseBody_ne_tooLarge _ _ _)
          · simp at hd; obtain ⟨rfl, rfl, _⟩ := hd
            exact ⟨trivial, fun h' he => by simp at he⟩
  cases st with
  | idle =>
    rw [decode1_idle]
    constructor
    · intro st' buf' hd
      split at hd
      · simp at hd; obtain ⟨rfl, _⟩ := hd; trivial
      · split at hd
        · simp at hd
        · exact (hbody _ _).1 st' buf' hd
    · intro e st' buf' hd
      split at hd
      · simp at hd
      · split at hd
        · simp at hd; obtain ⟨rfl, rfl, _⟩ := hd
          exact ⟨trivial, fun h' he => by simp at he⟩
        · exact (hbody _ _).2 e st' buf' hd
  | hdr h => rw [decode1_hdr]; exact hbody h buf
  | skipping h n =>
    simp only [PState.sizeOK] at hs
    simp only [decode1]
    constructor
    · intro st' buf' hd
      split at hd
      · simp at hd
      · simp at hd; obtain ⟨rfl, _⟩ := hd; exact hs
    · intro e st' buf' hd
      split at hd
      · simp at hd; obtain ⟨rfl, rfl, _⟩ := hd
        exact ⟨trivial, fun h' he => by simp at he; subst he; exact hs⟩
      · simp at hd
  | dead =>
    simp only [decode1]
    constructor
    · intro st' buf' hd; simp at hd; obtain ⟨rfl, _⟩ := hd; trivial
    · intro e st' buf' hd; simp at hd

/-- over a whole drain from a size-consistent state (in particular from a fresh connection) -/
theorem C13_within_limit_never_rejected (limit : Nat) (st : PState) (buf : Bytes) (hs : st.sizeOK limit) :
    (∀ h, .frame (.tooLarge h) ∈ (drain limit st buf).1 → h.bodyLen > limit) ∧ (drain limit st buf).2.1.sizeOK limit := by
  fun_induction drain limit st buf with
  | case1 st buf st' buf' hd =>
    exact ⟨fun h hm => by simp at hm, (C13_sizeOK_step limit st buf hs).1 st' buf' hd⟩
  | case2 st buf e st' buf' hd r ih =>
    obtain ⟨h1, h2⟩ := (C13_sizeOK_step limit st buf hs).2 e st' buf' hd
    obtain ⟨ih1, ih2⟩ := ih h1
    refine ⟨fun h hm => ?_, ih2⟩
    simp only [List.mem_cons] at hm
    rcases hm with hm | hm
    · exact h2 h hm.symm
    · exact ih1 h hm

example : PState.sizeOK 1024 .idle := trivial

end Memc

#print axioms Memc.C13_too_large_answer
#print axioms Memc.C13_skip_exact
#print axioms Memc.C13_any_segmentation
#print axioms Memc.C13_sizeOK_step
#print axioms Memc.C13_within_limit_never_rejected
