import MemcVerif.Proofs.Step
import MemcVerif.Proofs.Policy
/-!
# C05 — expiry: items live for their TTL and never longer

Deadline of a record = timestamp of its last successful mutation + TTL (none for TTL 0).
Quantifiers: every store, key, clock reading, command of every kind and history of any length.
-/
namespace Memc
open MemStore

theorem C05_ttl0_immortal (r : Record) (h : r.header.ttl = 0) (t : Nat) : r.expired t = false := by
  simp [Record.expired, h]

/-- a record stamped at `t0` with TTL `ttl > 0` is live exactly before `t0 + ttl` -/
theorem C05_deadline (r : Record) (c t0 t : Nat) (httl : r.header.ttl ≠ 0) :
    (stamp r c t0).expired t = true ↔ t0 + r.header.ttl ≤ t := by
  rw [expired_iff]; simp [stamp, httl]

/-- live before the deadline: retrieval returns the item -/
theorem C05_live_before_deadline (s : MemStore) (now : Nat) (k : Key) (x : Record)
    (hl : s.mem.lookup k = some x) (h : x.header.ttl = 0 ∨ now < x.header.timestamp + x.header.ttl) :
    (s.get now k).2 = .ok x := by
  rw [get_result, vis_def, hl]
  have : x.expired now = false := by
    simp only [Record.expired]
    rcases h with h | h
    · simp [h]
    · simp; omega
  simp [this]

/-- dead from the deadline on: retrieval answers 'not found' (and collects the record) -/
theorem C05_dead_from_deadline (s : MemStore) (now : Nat) (k : Key) (x : Record)
    (hl : s.mem.lookup k = some x) (h0 : x.header.ttl ≠ 0) (h : x.header.timestamp + x.header.ttl ≤ now) :
    (s.get now k).2 = .error .notFound ∧ (s.get now k).1.mem.lookup k = none := by
  have hv : s.vis now k = none := by
    rw [vis_def, hl]
    have : x.expired now = true := by rw [expired_iff]; exact ⟨h0, h⟩
    simp [this]
  exact get_vis_none hv

/-- an expired record is invisible: every presence-dependent command (get, add, replace, append, prepend,
    incr, decr) starts from `vis`, so C06_add_absent, C06_replace_absent, C06_concat_absent, C07_create and
    C07_no_create (all stated for `vis = none`) apply to it -/
theorem C05_expired_is_absent (s : MemStore) (now : Nat) (k : Key) (x : Record)
    (hl : s.mem.lookup k = some x) (he : x.expired now = true) : s.vis now k = none := by
  rw [vis_def, hl]; simp [he]

theorem C05_expired_absent_for_add (s : MemStore) (now : Nat) (k : Key) (x : Record) (v : Bytes) (f ttl : Nat)
    (hl : s.mem.lookup k = some x) (he : x.expired now = true) :
    (applyOp s now (.add k (Record.new v 0 f ttl))).2 = .stored s.casId := by
  have hv := C05_expired_is_absent s now k x hl he
  obtain ⟨h2, _⟩ := get_vis_none hv
  have hc := get_casId s now k
  simp only [applyOp, Cmd.add, memOps]
  rcases hg : s.get now k with ⟨s', res⟩
  rw [hg] at h2 hc; simp only at h2 hc; subst h2
  simp only
  rw [set_cas0 _ _ _ _ (by simp [Record.new, Meta.new])]
  simp [Res.ofCas, hc]

theorem C05_expired_absent_for_rmw (s : MemStore) (now : Nat) (k : Key) (x r : Record)
    (hl : s.mem.lookup k = some x) (he : x.expired now = true) :
    (applyOp s now (.replace k r)).2 = .err .notFound ∧ (applyOp s now (.append k r)).2 = .err .notFound ∧
    (applyOp s now (.prepend k r)).2 = .err .notFound := by
  have hv := C05_expired_is_absent s now k x hl he
  obtain ⟨h2, _⟩ := get_vis_none hv
  simp only [applyOp, Cmd.replace, Cmd.append, Cmd.prepend, memOps]
  rcases hg : s.get now k with ⟨s', res⟩
  rw [hg] at h2; simp only at h2; subst h2
  simp [Res.ofCas]

/-- a delayed flush never moves a deadline later -/
theorem flushRecord_expired_mono (now t t' : Nat) (x : Record) (ht : t > 0) (h : x.expired t' = true) :
    (flushRecord now t x).expired t' = true := by
  rw [expired_iff] at h
  unfold flushRecord
  split
  · rename_i hc
    rcases hc with hc | hc
    · exact absurd hc h.1
    · rw [expired_iff]; simp; exact ⟨by omega, by omega⟩
  · rw [expired_iff]; exact h

/-- **nothing prolongs a life**: after any command, the record of `k` is either one this very command
    wrote as a store addressed to `k` (stamped `now`), or it expires no later than the record before -/
theorem C05_nothing_prolongs (s : MemStore) (now : Nat) (op : Op) (k : Key) (x r' : Record)
    (hl : s.mem.lookup k = some x) (hl' : (applyOp s now op).1.mem.lookup k = some r') :
    (op.key = some k ∧ op.stores = true ∧ r'.header.timestamp = now)
      ∨ (∀ t', x.expired t' = true → r'.expired t' = true) := by
  rcases step_alt s now op k x hl with h1 | ⟨r2, h1, hs⟩ | ⟨r2, h1, _, _, hts, hkey, hst⟩ | ⟨r2, h1, _, _, hkey, hts, hst⟩
  · rw [h1] at hl'; simp at hl'
  · rw [h1] at hl'; simp at hl'; subst hl'
    right
    rcases hs with rfl | ⟨t, ht, rfl⟩
    · exact fun _ h => h
    · intro t' h; exact flushRecord_expired_mono now t t' x ht h
  · rw [h1] at hl'; simp at hl'; subst hl'; left; exact ⟨hkey, hst, hts⟩
  · rw [h1] at hl'; simp at hl'; subst hl'; left; exact ⟨hkey, hst, hts⟩

/-- a key that is physically absent stays absent unless a storing command is addressed to it -/
theorem absent_stays_absent (s : MemStore) (now : Nat) (op : Op) (k : Key)
    (hl : s.mem.lookup k = none) (hno : ¬ (op.key = some k ∧ op.stores = true)) :
    (applyOp s now op).1.mem.lookup k = none := by
  by_cases hk : op.key = some k
  · cases op with
    | get k0 =>
      simp [Op.key] at hk; subst hk
      have := get_lookup_self s now k0
      have hv2 : s.vis now k0 = none := by rw [vis_def, hl]
      simp only [applyOp]
      rcases hg : s.get now k0 with ⟨s', res⟩
      rw [hg] at this; simp only at this
      cases res <;> simp only <;> rw [this, hv2]
    | delete k0 c =>
      simp [Op.key] at hk; subst hk
      simp only [applyOp]
      rw [delete_absent s k0 c hl]; exact hl
    | flush t0 => simp [Op.key] at hk
    | nop => simp [Op.key] at hk
    | set k0 r => exact absurd ⟨hk, rfl⟩ hno
    | add k0 r => exact absurd ⟨hk, rfl⟩ hno
    | replace k0 r => exact absurd ⟨hk, rfl⟩ hno
    | append k0 r => exact absurd ⟨hk, rfl⟩ hno
    | prepend k0 r => exact absurd ⟨hk, rfl⟩ hno
    | delta k0 a b c d => exact absurd ⟨hk, rfl⟩ hno
  · cases op with
    | flush t0 =>
      simp only [applyOp]
      rw [flush_lookup, hl]; split <;> simp
    | nop => simp only [applyOp]; exact hl
    | get k0 => rw [applyOp_frame s now _ k0 k rfl (fun e => hk (by simp [Op.key, e])), hl]
    | set k0 r => rw [applyOp_frame s now _ k0 k rfl (fun e => hk (by simp [Op.key, e])), hl]
    | add k0 r => rw [applyOp_frame s now _ k0 k rfl (fun e => hk (by simp [Op.key, e])), hl]
    | replace k0 r => rw [applyOp_frame s now _ k0 k rfl (fun e => hk (by simp [Op.key, e])), hl]
    | append k0 r => rw [applyOp_frame s now _ k0 k rfl (fun e => hk (by simp [Op.key, e])), hl]
    | prepend k0 r => rw [applyOp_frame s now _ k0 k rfl (fun e => hk (by simp [Op.key, e])), hl]
    | delta k0 a b c d => rw [applyOp_frame s now _ k0 k rfl (fun e => hk (by simp [Op.key, e])), hl]
    | delete k0 c => rw [applyOp_frame s now _ k0 k rfl (fun e => hk (by simp [Op.key, e])), hl]

/-- one step: an invisible key stays invisible at the time of the command unless a storing command
    is addressed to it -/
theorem invisible_step (s : MemStore) (t now : Nat) (op : Op) (k : Key) (hv : s.vis t k = none) (hnow : t ≤ now)
    (hno : ¬ (op.key = some k ∧ op.stores = true)) : (applyOp s now op).1.vis now k = none := by
  rw [vis_def]
  cases hl' : (applyOp s now op).1.mem.lookup k with
  | none => simp
  | some r' =>
    simp only
    cases hl : s.mem.lookup k with
    | none => rw [absent_stays_absent s now op k hl hno] at hl'; simp at hl'
    | some x =>
      have hx : x.expired now = true := by
        have : x.expired t = true := by
          rw [vis_def, hl] at hv
          by_cases he : x.expired t = true
          · exact he
          · simp [he] at hv
        exact expired_mono this hnow
      rcases C05_nothing_prolongs s now op k x r' hl hl' with ⟨hkey, hst, _⟩ | hmonoexp
      · exact absurd ⟨hkey, hst⟩ hno
      · simp [hmonoexp now hx]

/-- **once expired (or deleted, or flushed), never visible again**: over any history with a monotone clock
    that contains no storing command addressed to `k`, an invisible `k` stays invisible at every later
    time — delayed flushes included -/
theorem C05_never_visible_again (k : Key) (h : History) :
    ∀ (s : MemStore) (t : Nat), s.vis t k = none →
      (∀ e ∈ h, ¬ (e.2.key = some k ∧ e.2.stores = true)) → (List.Pairwise (· ≤ ·) (t :: h.map (·.1))) →
      ∀ t', (∀ e ∈ h, e.1 ≤ t') → t ≤ t' → (runOps s h).vis t' k = none := by
  induction h with
  | nil =>
    intro s t hv _ _ t' _ htt
    simp only [runOps]
    rw [vis_def] at hv ⊢
    cases hl : s.mem.lookup k with
    | none => simp
    | some x =>
      simp only [hl] at hv ⊢
      by_cases he : x.expired t = true
      · simp [expired_mono he htt]
      · simp [he] at hv
  | cons e rest ih =>
    obtain ⟨now, op⟩ := e
    intro s t hv hnm hmono t' hle htt
    simp only [runOps]
    have hnow : t ≤ now := by
      simp only [List.map_cons, List.pairwise_cons] at hmono
      exact hmono.1 now (by simp)
    have hmono' : List.Pairwise (· ≤ ·) (now :: rest.map (·.1)) := by
      simp only [List.map_cons, List.pairwise_cons] at hmono
      exact List.pairwise_cons.mpr ⟨hmono.2.1, hmono.2.2⟩
    exact ih (applyOp s now op).1 now
      (invisible_step s t now op k hv hnow (hnm (now, op) (List.mem_cons_self ..)))
      (fun e he => hnm e (List.mem_cons_of_mem _ he)) hmono' t'
      (fun e he => hle e (List.mem_cons_of_mem _ he)) (hle (now, op) (List.mem_cons_self ..))

/-! ## Behind the eviction policy

The policy adds nothing to a lifetime: an item stored through it is stamped with the clock of the store, and is returned
exactly until `now + ttl`, whatever the limit, the usage and the victims of the store's own eviction. -/

/-- a store (no CAS) behind the policy at `now`: the item is returned at every `t` before `now + ttl` (at every `t` when
    the TTL is 0) and is 'not found' from `now + ttl` on -/
theorem C05_store_under_policy_deadline (p : Policy) (now t : Nat) (k : Key) (r : Record) (h : r.header.cas = 0) :
    ((r.header.ttl = 0 ∨ t < now + r.header.ttl) →
      ((p.set now k r).1.get t k).2 = .ok (stamp r p.inner.casId now)) ∧
    (r.header.ttl ≠ 0 → now + r.header.ttl ≤ t →
      ((p.set now k r).1.get t k).2 = .error .notFound ∧ ((p.set now k r).1.get t k).1.inner.mem.lookup k = none) := by
  obtain ⟨_, hl⟩ := policy_set_cas0 p now k r h
  constructor
  · intro hlive
    simp only [Policy.get]
    exact C05_live_before_deadline _ t k _ hl (by simpa [stamp] using hlive)
  · intro h0 hdead
    simp only [Policy.get]
    exact C05_dead_from_deadline _ t k _ hl (by simpa [stamp] using h0) (by simpa [stamp] using hdead)

/-- non-vacuity: an expired record and a history with a delayed flush, gets, a delete and foreign stores -/
example : (⟨[([1], ⟨⟨0, 1, 0, 5⟩, [65]⟩)], 2⟩ : MemStore).vis 5 [1] = none := by decide

end Memc

#print axioms Memc.C05_ttl0_immortal
#print axioms Memc.C05_deadline
#print axioms Memc.C05_live_before_deadline
#print axioms Memc.C05_dead_from_deadline
#print axioms Memc.C05_expired_is_absent
#print axioms Memc.C05_expired_absent_for_add
#print axioms Memc.C05_expired_absent_for_rmw
#print axioms Memc.flushRecord_expired_mono
#print axioms Memc.C05_nothing_prolongs
#print axioms Memc.absent_stays_absent
#print axioms Memc.invisible_step
#print axioms Memc.C05_never_visible_again
#print axioms Memc.C05_store_under_policy_deadline
