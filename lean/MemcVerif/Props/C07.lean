import MemcVerif.Proofs.Cmds
import MemcVerif.Proofs.Decimal
import MemcVerif.Model.Policy
import MemcVerif.Proofs.Policy
import MemcVerif.Proofs.TablesTie
/-!
# C07 — counters: arithmetic, creation and error rules

For every store, clock, key, delta, initial value, request header (CAS 0 or the current one).
`+digits` values are accepted by the code's parser (Rust `u64::from_str`); the statements below are
about whatever `parseU64` accepts, and `C07_parse_*` say what that is.
-/
namespace Memc
open MemStore

theorem C07_text_matches_number (n : Nat) (h : n < U64) : parseU64 (toDec n) = some n := parseU64_toDec n h

/-- decimal digit strings (leading zeros allowed) below 2^64 are numbers -/
theorem C07_parse_decimal (ds : Bytes) (hne : ds ≠ []) (hd : ∀ b ∈ ds, isDigit b = true) (hv : valOf ds 0 < U64) :
    parseU64 ds = some (valOf ds 0) := parseU64_digits ds hne hd hv

/-- empty values and values containing any non-digit after an optional first `+`… are not numbers:
    here the common case of a first byte other than `+` -/
theorem C07_parse_rejects (b : UInt8) (t : Bytes) (hb : b ≠ 43) (h : ∃ x ∈ b :: t, isDigit x = false) :
    parseU64 [] = none ∧ parseU64 (b :: t) = none := ⟨rfl, parseU64_nondigit b t hb h⟩

/-- a decimal string of 2^64 or more is not a u64 (whatever parses is below 2^64) -/
theorem C07_parse_range (v : Bytes) (n : Nat) (h : parseU64 v = some n) : n < U64 := parseU64_lt v n h

/-- incr on a numeric item: stores and returns `(v + d) mod 2^64` as decimal text, keeps the flags -/
theorem C07_incr (s : MemStore) (now : Nat) (k : Key) (hd : Meta) (d i v : Nat) (x : Record)
    (h : s.vis now k = some x) (hp : parseU64 x.value = some v) (hc : hd.cas = 0 ∨ hd.cas = x.header.cas) :
    (applyOp s now (.delta k hd d i true)).2 = .counter ⟨s.casId, (v + d) % U64⟩ ∧
    (applyOp s now (.delta k hd d i true)).1.mem.lookup k
      = some ⟨⟨now, s.casId, x.header.flags, hd.ttl⟩, toDec ((v + d) % U64)⟩ ∧
    parseU64 (toDec ((v + d) % U64)) = some ((v + d) % U64) := by
  have hl := vis_lookup h
  have hset : s.set now k ⟨{ hd with flags := x.header.flags }, toDec ((v + d) % U64)⟩
      = ({ mem := s.mem.insert k (stamp ⟨{ hd with flags := x.header.flags }, toDec ((v + d) % U64)⟩ s.casId now), casId := s.casId + 1 }, .ok s.casId) := by
    by_cases h0 : hd.cas = 0
    · exact set_cas0 _ _ _ _ h0
    · rcases hc with hc | hc
      · exact absurd hc h0
      · exact set_match s now k _ x h0 hl hc.symm
  refine ⟨?_, ?_, parseU64_toDec _ (Nat.mod_lt _ (by simp [U64]))⟩
  · simp only [applyOp, Cmd.addDelta, memOps, get_vis_some h, hp, if_true]; rw [hset]
  · simp only [applyOp, Cmd.addDelta, memOps, get_vis_some h, hp, if_true]; rw [hset]
    simp [Mem.lookup_insert_self, stamp]

/-- decr on a numeric item: `max (v - d) 0`, flags kept -/
theorem C07_decr (s : MemStore) (now : Nat) (k : Key) (hd : Meta) (d i v : Nat) (x : Record)
    (h : s.vis now k = some x) (hp : parseU64 x.value = some v) (hc : hd.cas = 0 ∨ hd.cas = x.header.cas) :
    (applyOp s now (.delta k hd d i false)).2 = .counter ⟨s.casId, if d > v then 0 else v - d⟩ ∧
    (applyOp s now (.delta k hd d i false)).1.mem.lookup k
      = some ⟨⟨now, s.casId, x.header.flags, hd.ttl⟩, toDec (if d > v then 0 else v - d)⟩ := by
  have hl := vis_lookup h
  have hset : s.set now k ⟨{ hd with flags := x.header.flags }, toDec (if d > v then 0 else v - d)⟩
      = ({ mem := s.mem.insert k (stamp ⟨{ hd with flags := x.header.flags }, toDec (if d > v then 0 else v - d)⟩ s.casId now), casId := s.casId + 1 }, .ok s.casId) := by
    by_cases h0 : hd.cas = 0
    · exact set_cas0 _ _ _ _ h0
    · rcases hc with hc | hc
      · exact absurd hc h0
      · exact set_match s now k _ x h0 hl hc.symm
  refine ⟨?_, ?_⟩
  · simp only [applyOp, Cmd.addDelta, memOps, get_vis_some h, hp]; simp only [Bool.false_eq_true, if_false]; rw [hset]
  · simp only [applyOp, Cmd.addDelta, memOps, get_vis_some h, hp]; simp only [Bool.false_eq_true, if_false]; rw [hset]
    simp [Mem.lookup_insert_self, stamp]

/-- on a value that is not a number: 'non-numeric value', store unchanged -/
theorem C07_non_numeric (s : MemStore) (now : Nat) (k : Key) (hd : Meta) (d i : Nat) (inc : Bool) (x : Record)
    (h : s.vis now k = some x) (hp : parseU64 x.value = none) :
    applyOp s now (.delta k hd d i inc) = (s, .err .arithOnNonNumeric) := by
  simp only [applyOp, Cmd.addDelta, memOps, get_vis_some h, hp]

/-- on an absent key the item is created with the initial value, flags 0 and the request's expiration -/
theorem C07_create (s : MemStore) (now : Nat) (k : Key) (hd : Meta) (d i : Nat) (inc : Bool)
    (h : s.vis now k = none) (hexp : hd.ttl ≠ 0xffffffff) :
    (applyOp s now (.delta k hd d i inc)).2 = .counter ⟨s.casId, i⟩ ∧
    (applyOp s now (.delta k hd d i inc)).1.mem.lookup k = some ⟨⟨now, s.casId, 0, hd.ttl⟩, toDec i⟩ := by
  obtain ⟨h2, _⟩ := get_vis_none h
  have hc := get_casId s now k
  simp only [applyOp, Cmd.addDelta, memOps]
  rcases hg : s.get now k with ⟨s', res⟩
  rw [hg] at h2 hc; simp only at h2 hc; subst h2
  simp only [hexp, ne_eq, not_false_eq_true, if_true]
  rw [set_cas0 _ _ _ _ (by simp [Record.new, Meta.new])]
  simp [hc, Mem.lookup_insert_self, stamp, Record.new, Meta.new]

/-- … unless the expiration is 0xffffffff: 'not found', nothing created -/
theorem C07_no_create (s : MemStore) (now : Nat) (k : Key) (hd : Meta) (d i : Nat) (inc : Bool)
    (h : s.vis now k = none) (hexp : hd.ttl = 0xffffffff) :
    (applyOp s now (.delta k hd d i inc)).2 = .err .notFound ∧
    (applyOp s now (.delta k hd d i inc)).1.mem.lookup k = none := by
  obtain ⟨h2, h3⟩ := get_vis_none h
  simp only [applyOp, Cmd.addDelta, memOps]
  rcases hg : s.get now k with ⟨s', res⟩
  rw [hg] at h2 h3; simp only at h2 h3; subst h2
  simp [hexp, h3]

/-! ## Under the eviction policy

The counter rules do not depend on memory: whatever the limit (also one below a single record), the accounted usage and
the victims the request's own eviction takes, the policy never turns an incr/decr into a failure — it has no 'out of
memory' answer, and its eviction loop only removes items. -/

/-- **incr/decr on an absent key create the item under any memory limit** (unless the expiration field forbids it) -/
theorem C07_create_under_policy (p : Policy) (now : Nat) (k : Key) (hd : Meta) (d i : Nat) (inc : Bool)
    (h : p.inner.vis now k = none) (hexp : hd.ttl ≠ 0xffffffff) :
    (Cmd.addDelta polOps p now hd k d i inc).2 = .ok ⟨p.inner.casId, i⟩ ∧
    (Cmd.addDelta polOps p now hd k d i inc).1.inner.mem.lookup k = some ⟨⟨now, p.inner.casId, 0, hd.ttl⟩, toDec i⟩ := by
  obtain ⟨h2, _⟩ := get_vis_none h
  have hc := get_casId p.inner now k
  simp only [Cmd.addDelta, polOps, Policy.get]
  rcases hg : p.inner.get now k with ⟨s', res⟩
  rw [hg] at h2 hc; simp only at h2 hc; subst h2
  simp only [hexp, ne_eq, not_false_eq_true, if_true]
  have hs := policy_set_cas0 { p with inner := s' } now k (Record.new (toDec i) 0 0 hd.ttl) (by simp [Record.new, Meta.new])
  rcases hx : Policy.set { p with inner := s' } now k (Record.new (toDec i) 0 0 hd.ttl) with ⟨p', res'⟩
  rw [hx] at hs; simp only at hs
  obtain ⟨hs1, hs2⟩ := hs
  subst hs1
  simp [hs2, hc, stamp, Record.new, Meta.new]

/-- **… and update a numeric item under any memory limit**: same result and stored text as without a policy, even when
    the request's own eviction takes the item between the read and the write -/
theorem C07_update_under_policy (p : Policy) (now : Nat) (k : Key) (hd : Meta) (d i v : Nat) (inc : Bool) (x : Record)
    (h : p.inner.vis now k = some x) (hp : parseU64 x.value = some v) (hc0 : hd.cas = 0) :
    let v' := if inc then (v + d) % U64 else if d > v then 0 else v - d
    (Cmd.addDelta polOps p now hd k d i inc).2 = .ok ⟨p.inner.casId, v'⟩ ∧
    (Cmd.addDelta polOps p now hd k d i inc).1.inner.mem.lookup k
      = some ⟨⟨now, p.inner.casId, x.header.flags, hd.ttl⟩, toDec v'⟩ := by
  intro v'
  have hg := get_vis_some h
  simp only [Cmd.addDelta, polOps, Policy.get, hg, hp]
  have hs := policy_set_cas0 p now k ⟨{ hd with flags := x.header.flags }, toDec v'⟩ (by simp [hc0])
  rcases hx : Policy.set p now k ⟨{ hd with flags := x.header.flags }, toDec v'⟩ with ⟨p', res'⟩
  rw [hx] at hs; simp only at hs
  obtain ⟨hs1, hs2⟩ := hs
  subst hs1
  simp only [v'] at hx hs2 ⊢
  refine ⟨trivial, ?_⟩
  rw [hs2]; rfl

/-- … the two refusals do not depend on memory either: 'do not create' on an absent key and 'non-numeric' on a value that
    is not a number answer as without a policy and store nothing — the policy is not even asked to make room -/
theorem C07_no_create_under_policy (p : Policy) (now : Nat) (k : Key) (hd : Meta) (d i : Nat) (inc : Bool)
    (h : p.inner.vis now k = none) (hexp : hd.ttl = 0xffffffff) :
    (Cmd.addDelta polOps p now hd k d i inc).2 = .error .notFound ∧
    (Cmd.addDelta polOps p now hd k d i inc).1.usage = p.usage ∧
    (Cmd.addDelta polOps p now hd k d i inc).1.inner.mem.lookup k = none := by
  obtain ⟨h2, h3⟩ := get_vis_none h
  simp only [Cmd.addDelta, polOps, Policy.get]
  rcases hg : p.inner.get now k with ⟨s', res⟩
  rw [hg] at h2 h3; simp only at h2 h3; subst h2
  simp [hexp, h3]

theorem C07_non_numeric_under_policy (p : Policy) (now : Nat) (k : Key) (hd : Meta) (d i : Nat) (inc : Bool) (x : Record)
    (h : p.inner.vis now k = some x) (hp : parseU64 x.value = none) :
    Cmd.addDelta polOps p now hd k d i inc = (p, .error .arithOnNonNumeric) := by
  have hg := get_vis_some h
  simp [Cmd.addDelta, polOps, Policy.get, hg, hp]

/-- the creation rule and the arithmetic of `add_delta` as re-extracted from the source on this run (the expiration value
    tested before creating, `wrapping_add`, the saturating subtraction) are the model's -/
theorem C07_rules_are_the_sources :
    Holds Gen.deltaRules (fun r =>
      r.2.1 = 1 ∧ r.2.2.1 = 1 ∧ r.2.2.2 = 1 ∧
      deltaOut (Cmd.addDelta memOps MemStore.init 0 (Meta.new 0 0 r.1) [107] 1 5 true).2 = none ∧
      deltaOut (Cmd.addDelta memOps MemStore.init 0 (Meta.new 0 0 (r.1 - 1)) [107] 1 5 true).2 = some (1, 5) ∧
      deltaOut (Cmd.addDelta memOps (counterStore 18446744073709551615) 0 (Meta.new 0 0 0) [107] 1 5 true).2 = some (2, 0) ∧
      deltaOut (Cmd.addDelta memOps (counterStore 3) 0 (Meta.new 0 0 0) [107] 5 9 false).2 = some (2, 0)) :=
  tie_delta_rules

example : parseU64 (toDec 18446744073709551615) = some 18446744073709551615 := by decide
example : parseU64 [43, 53] = some 5 := by decide            -- "+5": accepted by the code's parser
example : parseU64 [45, 49] = none ∧ parseU64 [32, 53] = none ∧ parseU64 [] = none := by decide

end Memc

#print axioms Memc.C07_text_matches_number
#print axioms Memc.C07_parse_decimal
#print axioms Memc.C07_parse_rejects
#print axioms Memc.C07_parse_range
#print axioms Memc.C07_incr
#print axioms Memc.C07_decr
#print axioms Memc.C07_non_numeric
#print axioms Memc.C07_create
#print axioms Memc.C07_no_create
#print axioms Memc.C07_create_under_policy
#print axioms Memc.C07_update_under_policy
#print axioms Memc.C07_no_create_under_policy
#print axioms Memc.C07_non_numeric_under_policy
#print axioms Memc.C07_rules_are_the_sources
