import MemcVerif.Model.Store
/-!
# L2: `memcache/store.rs` (MemcStore): add / replace / append / prepend / incr / decr = `get` ; `set`

Generic in the underlying `Cache` (a record of step functions), because `MemcStore` holds an
`Arc<dyn Cache>`: instantiated with `MemStore` (policy none) and with `Policy` (random eviction).
-/
namespace Memc

/-- the part of the `Cache` trait that `MemcStore` calls, as step functions over a state `σ` -/
structure CacheOps (σ : Type) where
  get : σ → Nat → Key → σ × Except CacheError Record
  set : σ → Nat → Key → Record → σ × Except CacheError Nat
  delete : σ → Key → Nat → σ × Except CacheError Record
  flush : σ → Nat → Nat → σ

def memOps : CacheOps MemStore :=
  { get := MemStore.get, set := MemStore.set, delete := MemStore.delete, flush := MemStore.flush }

structure DeltaResult where
  cas : Nat
  value : Nat
deriving DecidableEq, Repr

namespace Cmd
variable {σ : Type} (C : CacheOps σ)

def add (s : σ) (now : Nat) (k : Key) (r : Record) : σ × Except CacheError Nat :=
  match C.get s now k with
  | (s', .ok _) => (s', .error .keyExists)
  | (s', .error _) => C.set s' now k r

def replace (s : σ) (now : Nat) (k : Key) (r : Record) : σ × Except CacheError Nat :=
  match C.get s now k with
  | (s', .ok _) => C.set s' now k r
  | (s', .error _) => (s', .error .notFound)

def append (s : σ) (now : Nat) (k : Key) (nr : Record) : σ × Except CacheError Nat :=
  match C.get s now k with
  | (s', .ok rec) =>
    C.set s' now k { header := { rec.header with cas := nr.header.cas }, value := rec.value ++ nr.value }
  | (s', .error _) => (s', .error .notFound)

def prepend (s : σ) (now : Nat) (k : Key) (nr : Record) : σ × Except CacheError Nat :=
  match C.get s now k with
  | (s', .ok rec) =>
    C.set s' now k { header := { rec.header with cas := nr.header.cas }, value := nr.value ++ rec.value }
  | (s', .error _) => (s', .error .notFound)

/-- `add_delta` (repaired: wrapping add; flags of the stored item are kept) -/
def addDelta (s : σ) (now : Nat) (header : Meta) (k : Key) (delta initial : Nat) (increment : Bool) :
    σ × Except CacheError DeltaResult :=
  match C.get s now k with
  | (s', .ok rec) =>
    match parseU64 rec.value with
    | none => (s', .error .arithOnNonNumeric)
    | some v =>
      let v' := if increment then (v + delta) % U64 else if delta > v then 0 else v - delta
      let rec' : Record := { header := { header with flags := rec.header.flags }, value := toDec v' }
      match C.set s' now k rec' with
      | (s'', .ok c) => (s'', .ok ⟨c, v'⟩)
      | (s'', .error e) => (s'', .error e)
  | (s', .error _) =>
    if header.ttl ≠ 0xffffffff then
      match C.set s' now k (Record.new (toDec initial) 0 0 header.ttl) with
      | (s'', .ok c) => (s'', .ok ⟨c, initial⟩)
      | (s'', .error e) => (s'', .error e)
    else (s', .error .notFound)

end Cmd
end Memc
