import MemcVerif.Model.Policy
import MemcVerif.Model.Conc
/-!
# Concurrency inside `RandomPolicy`: micro-steps at the granularity of its atomic operations

`RandomPolicy::set` is not one atomic call. Its atomic operations are: `fetch_add` on the usage counter; for
every turn of the `while usage > limit` loop `store.len()`, then either `fetch_sub(usage - value)` (store
empty: "reset") or `store.remove_if` followed by `fetch_sub(len)`; finally `store.set`. `usage` inside the loop is
a *local copy*: the value the thread's own last counter operation returned. `RandomPolicy::delete` is
`store.delete` followed by `fetch_sub`. Between any two of these, other threads run.

A schedule is a list of `(thread, victim)`: the thread that performs its next atomic operation and, when that
operation is `remove_if`, the key it removed (`none`: the iteration index was past the end — nothing removed).
`racy` records that a reset happened that was not "quiet": another call was in flight, or the counter had moved
since the local copy was taken, or the store was no longer empty. It changes nothing in the behaviour.
-/
namespace Memc

inductive PCall
  | set (k : Key) (r : Record)
  | delete (k : Key) (cas : Nat)
  | get (k : Key)
  | flush (ttl : Nat)
deriving DecidableEq, Repr

inductive PPhase
  | idle
  | looping (k : Key) (r : Record) (u : Nat)     -- next: the `while u > limit` test, then `len()` or `store.set`
  | evicting (k : Key) (r : Record) (u : Nat)    -- `len()` was non-zero; next: `remove_if`
  | evicted (k : Key) (r : Record) (l : Nat)     -- `remove_if` removed `l` bytes; next: `fetch_sub(l)`
  | resetting (k : Key) (r : Record) (u : Nat)   -- `len()` was 0; next: `fetch_sub(u - len)`
  | ready (k : Key) (r : Record)                 -- loop left through `break`; next: `store.set`
  | deleted (l : Nat) (res : CRes)               -- `store.delete` removed `l` bytes; next: `fetch_sub(l)`
deriving DecidableEq, Repr

structure PThread where
  todo : List PCall
  phase : PPhase := .idle
  results : List CRes := []
deriving DecidableEq, Repr

structure PSys where
  inner : MemStore
  usage : Nat
  limit : Nat
  threads : List PThread
  racy : Bool := false
  overflow : Bool := false
deriving Repr

def PThread.finished (t : PThread) : Bool := t.todo.isEmpty && t.phase == .idle

def PSys.quiescent (s : PSys) : Bool := s.threads.all PThread.finished

/-- every other thread is between calls -/
def PSys.othersIdle (s : PSys) (i : Nat) : Bool :=
  (List.range s.threads.length).all fun j => j == i || (match s.threads[j]? with | some t => t.phase == .idle | none => true)

/-- thread `t` (index `i`) performs its next atomic operation -/
def PSys.stepThread (s : PSys) (now : Nat) (i : Nat) (t : PThread) (victim : Option Key) : PSys :=
  let put (s : PSys) (t : PThread) : PSys := { s with threads := s.threads.set i t }
  match t.phase with
  | .idle =>
    match t.todo with
    | [] => s
    | c :: rest =>
      let t := { t with todo := rest }
      match c with
      | .set k r =>
        let u := wadd s.usage r.len
        put { s with usage := u, overflow := s.overflow || decide (U64 ≤ s.usage + r.len) } { t with phase := .looping k r u }
      | .delete k cas =>
        let x := s.inner.delete k cas
        match x.2 with
        | .ok rec => put { s with inner := x.1 } { t with phase := .deleted rec.len .deleted }
        | .error e => put { s with inner := x.1 } { t with results := t.results ++ [.err e] }
      | .get k =>
        let x := s.inner.get now k
        put { s with inner := x.1 } { t with results := t.results ++ [match x.2 with | .ok r => .hit r | .error e => .err e] }
      | .flush ttl => put { s with inner := s.inner.flush now ttl } { t with results := t.results ++ [.done] }
  | .looping k r u =>
    if u > s.limit then
      if s.inner.len = 0 then put s { t with phase := .resetting k r u }
      else put s { t with phase := .evicting k r u }
    else
      let x := s.inner.set now k r
      put { s with inner := x.1 } { t with phase := .idle, results := t.results ++ [resOfCas x.2] }
  | .evicting k r u =>
    match victim with
    | none => put s { t with phase := .looping k r u }
    | some v =>
      match s.inner.mem.lookup v with
      | none => put s { t with phase := .looping k r u }
      | some vr => put { s with inner := { s.inner with mem := s.inner.mem.erase v } } { t with phase := .evicted k r vr.len }
  | .evicted k r l =>
    let u := wsub s.usage l
    put { s with usage := u } { t with phase := .looping k r u }
  | .resetting k r u =>
    let quiet := s.othersIdle i && decide (s.inner.len = 0) && decide (s.usage = u)
    put { s with usage := wsub s.usage (wsub u r.len), racy := s.racy || !quiet } { t with phase := .ready k r }
  | .ready k r =>
    let x := s.inner.set now k r
    put { s with inner := x.1 } { t with phase := .idle, results := t.results ++ [resOfCas x.2] }
  | .deleted l res =>
    put { s with usage := wsub s.usage l } { t with phase := .idle, results := t.results ++ [res] }

def PSys.step (s : PSys) (now : Nat) (i : Nat) (victim : Option Key) : PSys :=
  match s.threads[i]? with
  | none => s
  | some t => s.stepThread now i t victim

def PSys.run (s : PSys) (now : Nat) (sched : List (Nat × Option Key)) : PSys :=
  sched.foldl (fun s e => s.step now e.1 e.2) s

def PSys.init (limit : Nat) (programs : List (List PCall)) : PSys :=
  { inner := MemStore.init, usage := 0, limit := limit, threads := programs.map fun p => { todo := p } }

end Memc
