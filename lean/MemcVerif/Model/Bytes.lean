/-!
# Bytes: big-endian integers, hex, decimal text

`Bytes` models Rust's `Bytes`/`BytesMut`/`&[u8]` as a list of octets. Capacity is not part of the
value (it is only relevant to the memory clause of C10, which is handled separately).
-/
namespace Memc

abbrev Bytes := List UInt8

/-- big-endian encoding of `n` into exactly `len` octets (`put_u16/u32/u64`; truncates like `as`). -/
def putBE : (len : Nat) → Nat → Bytes
  | 0, _ => []
  | len + 1, n => UInt8.ofNat (n / 256 ^ len) :: putBE len (n % 256 ^ len)

/-- big-endian decoding (`get_u16/u32/u64`). -/
def getBE (bs : Bytes) : Nat := bs.foldl (fun acc b => acc * 256 + b.toNat) 0

def U16 : Nat := 65536
def U32 : Nat := 4294967296
def U64 : Nat := 18446744073709551616
def U64MAX : Nat := 18446744073709551615

/-! ## decimal text (Rust `u64::to_string` / `str::parse::<u64>`) -/

/-- decimal digits of `n`, most significant first, as ASCII (Rust `to_string`). -/
def toDecAux : (fuel : Nat) → Nat → Bytes → Bytes
  | 0, _, acc => acc
  | fuel + 1, n, acc =>
    let acc' := UInt8.ofNat (48 + n % 10) :: acc
    if n / 10 = 0 then acc' else toDecAux fuel (n / 10) acc'

def toDec (n : Nat) : Bytes := toDecAux (n + 1) n []

def isDigit (b : UInt8) : Bool := 48 ≤ b.toNat && b.toNat ≤ 57

/-- accumulate ASCII digits, `none` on a non-digit or when the value leaves `u64`
    (Rust: `checked_mul(10)` / `checked_add(d)`; leading zeros never overflow). -/
def parseDigits : Bytes → Nat → Option Nat
  | [], acc => some acc
  | b :: bs, acc =>
    if isDigit b then
      let acc' := acc * 10 + (b.toNat - 48)
      if acc' < U64 then parseDigits bs acc' else none
    else none

/-- Rust's `str::from_utf8(v).ok()?.parse::<u64>()`: optional single leading `+`, then one or more
    ASCII digits, value `< 2^64`. Anything else (empty, sign only, `-`, space, non-ASCII,
    invalid UTF-8) is an error. A string consisting only of ASCII `+`/digits is valid UTF-8, and a
    string that is not valid UTF-8 contains a non-digit, so UTF-8 validity needs no separate model. -/
def parseU64 (v : Bytes) : Option Nat :=
  match v with
  | [] => none
  | b :: bs =>
    if b = 43 then (if bs.isEmpty then none else parseDigits bs 0)
    else parseDigits (b :: bs) 0

/-! ## hex (driver only) -/

def hexDigit (n : Nat) : Char :=
  if n < 10 then Char.ofNat (48 + n) else Char.ofNat (87 + n)

def toHex (bs : Bytes) : String :=
  String.ofList (bs.foldr (fun b acc => hexDigit (b.toNat / 16) :: hexDigit (b.toNat % 16) :: acc) [])

def hexVal (c : Char) : Option Nat :=
  if '0' ≤ c ∧ c ≤ '9' then some (c.toNat - 48)
  else if 'a' ≤ c ∧ c ≤ 'f' then some (c.toNat - 87)
  else if 'A' ≤ c ∧ c ≤ 'F' then some (c.toNat - 55)
  else none

def fromHexAux : List Char → Bytes → Option Bytes
  | [], acc => some acc.reverse
  | [_], _ => none
  | a :: b :: rest, acc =>
    match hexVal a, hexVal b with
    | some x, some y => fromHexAux rest (UInt8.ofNat (x * 16 + y) :: acc)
    | _, _ => none

/-- `-` denotes the empty byte string on the wire protocol of the driver. -/
def fromHex (s : String) : Option Bytes :=
  if s = "-" then some [] else fromHexAux s.toList []

def toHexD (bs : Bytes) : String := if bs.isEmpty then "-" else toHex bs

end Memc
