import MemcVerif.Model.Cmd
import MemcVerif.Model.Wire
/-!
# L3: `memcache_server/handler.rs` (BinaryHandler::handle_request)
-/
namespace Memc

/-- `MEMCRS_VERSION` = "0.0.1" -/
def VERSION : Bytes := [48, 46, 48, 46, 49]

/-- `into_quiet_get` -/
def intoQuietGet (r : Resp) : Option Resp :=
  match r with
  | .error h _ => if h.status = CacheError.notFound.code then none else some r
  | _ => some r

/-- `into_quiet_mutation` -/
def intoQuietMutation (r : Resp) : Option Resp :=
  match r with
  | .error _ _ => some r
  | _ => none

/-- which opcodes are routed through a quiet filter by `handle_request`'s `match` on the variant.
    The variant is fixed by the opcode at parse time (see `binary_codec.rs` parsers' `if` chains,
    whose final `else` absorbs the remaining opcodes of the group). -/
def quietGetOp (op : Nat) : Bool := op = 0x09 ∨ op = 0x0d
def getKeyOp (op : Nat) : Bool := op = 0x0c ∨ op = 0x0d
def quietDeleteOp (op : Nat) : Bool := op ≠ 0x04          -- parse_delete_request: Delete else DeleteQuiet
def quietSetOp (op : Nat) : Bool := op = 0x11 ∨ op = 0x12 ∨ op = 0x13
def isAddOp (op : Nat) : Bool := op = 0x02 ∨ op = 0x12
def isSetOp (op : Nat) : Bool := op = 0x01 ∨ op = 0x11
def quietAppendOp (op : Nat) : Bool := op = 0x19 ∨ op = 0x1a
def isAppendOp (op : Nat) : Bool := op = 0x0e ∨ op = 0x19
def quietDeltaOp (op : Nat) : Bool := op = 0x15 ∨ op = 0x16
def isIncrOp (op : Nat) : Bool := op = 0x05 ∨ op = 0x15
def quietFlushOp (op : Nat) : Bool := op ≠ 0x08           -- parse_flush_request: Flush else FlushQuietly

variable {σ : Type} (C : CacheOps σ)

/-- result of a storage command as seen by the handler: `Ok(cas)` → `plain` frame, `Err` → error frame -/
def statusResp (rh : RespHeader) (res : Except CacheError Nat) : Resp :=
  match res with
  | .ok c => .plain { rh with cas := c }
  | .error e => errorResp e rh

/-- `handle_request`. Returns the new store, and the response if one is to be written. -/
def handleRequest (s : σ) (now : Nat) (req : Req) : σ × Option Resp :=
  let h := req.header
  let rh : RespHeader := { opcode := h.opcode, opaq := h.opaq }
  match req with
  | .get _ key =>
    let (s', res) := C.get s now key
    let resp : Resp :=
      match res with
      | .ok rec =>
        let k : Bytes := if getKeyOp h.opcode then key else []
        .get { rh with bodyLen := rec.value.length + 4 + k.length, keyLen := k.length, extrasLen := 4,
                        cas := rec.header.cas } rec.header.flags k rec.value
      | .error e => errorResp e rh
    (s', if quietGetOp h.opcode then intoQuietGet resp else some resp)
  | .delete _ key =>
    let (s', res) := C.delete s key h.cas
    let resp : Resp := match res with
      | .ok _ => .plain rh
      | .error e => errorResp e rh
    (s', if quietDeleteOp h.opcode then intoQuietMutation resp else some resp)
  | .set _ flags exp key value =>
    let nr := Record.new value h.cas flags exp
    let (s', res) :=
      if isSetOp h.opcode then C.set s now key nr
      else if isAddOp h.opcode then Cmd.add C s now key nr
      else Cmd.replace C s now key nr
    let resp := statusResp rh res
    (s', if quietSetOp h.opcode then intoQuietMutation resp else some resp)
  | .append _ key value =>
    let nr := Record.new value h.cas 0 0
    let (s', res) :=
      if isAppendOp h.opcode then Cmd.append C s now key nr else Cmd.prepend C s now key nr
    let resp := statusResp rh res
    (s', if quietAppendOp h.opcode then intoQuietMutation resp else some resp)
  | .delta _ delta initial exp key =>
    let (s', res) := Cmd.addDelta C s now (Meta.new h.cas h.opaq exp) key delta initial (isIncrOp h.opcode)
    let resp : Resp := match res with
      | .ok d => .counter { rh with bodyLen := 8, cas := d.cas } d.value
      | .error e => errorResp e rh
    (s', if quietDeltaOp h.opcode then intoQuietMutation resp else some resp)
  | .headerOnly _ =>
    if h.opcode = 0x0a then (s, some (.plain rh))              -- Noop
    else if h.opcode = 0x07 then (s, some (.quit rh))           -- Quit
    else if h.opcode = 0x17 then (s, none)                      -- QuitQuietly
    else (s, some (.version { rh with bodyLen := VERSION.length } VERSION))  -- Version, Stat
  | .flush _ exp =>
    let s' := C.flush s now exp
    (s', if quietFlushOp h.opcode then none else some (.plain rh))
  | .tooLarge _ => (s, some (errorResp .valueTooLarge rh))
  | .notSupported _ => (s, some (errorResp .notSupported rh))

end Memc
