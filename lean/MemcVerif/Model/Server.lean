/-!
# L7: `memc_tcp.rs` accept loop + `Drop for Client` (connection limit), `runtime_builder.rs` (configuration)

Connections are numbered. The accept loop takes connections from the kernel backlog in arrival order,
creates the `Client`, then waits for a permit (`acquire().await.forget()`): while it waits it accepts nobody.
Every way a served connection ends drops the `Client`, which returns the permit exactly once.
A connection whose peer gave up while still unserved is served when its turn comes, reads EOF and ends at once.
-/
namespace Memc

structure Srv where
  limit : Nat
  permits : Nat
  active : List Nat           -- served connections (a `Client::handle` task is running)
  holding : Option Nat        -- accepted, `Client` created, waiting for a permit
  backlog : List Nat          -- connected at TCP level, not yet accepted (FIFO)
  gone : List Nat             -- unserved connections whose peer already closed
deriving Repr, DecidableEq

def Srv.init (limit : Nat) : Srv := ⟨limit, limit, [], none, [], []⟩

inductive SEv
  | connect (i : Nat)
  | finish (i : Nat)          -- connection `i` ends: close, quit, quitq, mid-request disconnect, protocol error,
                              -- oversized item then close, idle timeout — all the same to the bookkeeping
deriving Repr, DecidableEq

namespace Srv

/-- the accept loop runs as far as it can: serve the held connection if a permit is free, then accept the
    next from the backlog; a connection whose peer is gone ends as soon as it is served (permit returned) -/
def settle : (fuel : Nat) → Srv → Srv
  | 0, s => s
  | fuel + 1, s =>
    match s.holding with
    | some j =>
      if s.permits > 0 then
        if s.gone.contains j then settle fuel { s with holding := none, gone := s.gone.erase j }   -- served, EOF, slot back
        else settle fuel { s with holding := none, permits := s.permits - 1, active := s.active ++ [j] }
      else s
    | none =>
      match s.backlog with
      | [] => s
      | j :: rest => settle fuel { s with holding := some j, backlog := rest }

def step (s : Srv) (e : SEv) : Srv :=
  match e with
  | .connect i => settle (2 * s.backlog.length + 4) { s with backlog := s.backlog ++ [i] }
  | .finish i =>
    if s.active.contains i then
      let s' := { s with active := s.active.erase i, permits := s.permits + 1 }      -- Drop for Client
      settle (2 * s'.backlog.length + 4) s'
    else if s.holding = some i ∨ s.backlog.contains i then { s with gone := s.gone ++ [i] }
    else s

def run (s : Srv) (es : List SEv) : Srv := es.foldl step s

def served (s : Srv) : List Nat := s.active

end Srv

/-- configuration as parsed from the command line (the fields the properties mention) -/
structure Config where
  currentThread : Bool
  threads : Nat
  evictionRandom : Bool
  port : Nat
  itemLimit : Nat
  connLimit : Nat
  memoryLimit : Nat
deriving Repr, DecidableEq

/-- what `create_memcrs_server` builds (repaired): one server, hence one semaphore, whatever the runtime;
    `item_size_limit.as_u64() as u32` truncates -/
structure Effective where
  semaphores : Nat
  totalConnLimit : Nat
  itemLimit : Nat
  policyRandom : Bool
deriving Repr, DecidableEq

def effective (c : Config) : Effective :=
  { semaphores := 1, totalConnLimit := c.connLimit, itemLimit := c.itemLimit % 4294967296, policyRandom := c.evictionRandom }

end Memc
