/-!
# `MemcacheBinaryConnection::skip_bytes` — the socket-side discard loop of an oversized body

The loop reads into a scratch buffer whose spare capacity bounds what one `read_buf` may deliver; after every read it
recomputes how much is still owed and sizes the next read accordingly. The deliveries of the socket (how many bytes each
read returns) are an input: any sequence, each between 1 and the capacity offered.

Model of one loop iteration (`bytes` = what `read_frame` asked to skip, `counter` = `bytes_counter`, `cap` = spare capacity
of the scratch buffer, `n` = what this `read_buf` returned):
-/
namespace Memc

def SKIP_BUF : Nat := 64 * 1024

structure SkipSt where
  counter : Nat
  cap : Nat
  done : Bool := false
  overread : Bool := false      -- the `panic!("Read too much bytes socket corrupted")` branch
deriving Repr, DecidableEq

/-- `BytesMut::with_capacity(min(bytes, 64 KiB))` -/
def SkipSt.init (bytes : Nat) : SkipSt := { counter := 0, cap := min bytes SKIP_BUF, done := bytes == 0 }

/-- one iteration after a read that returned `n > 0` bytes -/
def SkipSt.step (bytes : Nat) (s : SkipSt) (n : Nat) : SkipSt :=
  if s.done || s.overread then s
  else
    let counter := s.counter + n
    if counter == bytes then { s with counter := counter, done := true }
    else if counter > bytes then { s with counter := counter, overread := true }
    else
      let difference := bytes - counter
      { s with counter := counter, cap := if difference < SKIP_BUF then difference else SKIP_BUF }

/-- the socket's deliveries are legal when each is at least one byte and at most the capacity offered -/
def SkipSt.run (bytes : Nat) : SkipSt → List Nat → Option SkipSt
  | s, [] => some s
  | s, n :: rest =>
    if s.done || s.overread then some s
    else if n = 0 ∨ n > s.cap then none          -- not a possible `read_buf` result
    else SkipSt.run bytes (s.step bytes n) rest

end Memc
