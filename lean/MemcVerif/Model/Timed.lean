import MemcVerif.Model.Conn
/-!
# The receive timeout of `Client::handle`

`timeout(rx_timeout, self.stream.read_frame())` is started anew for every call of `read_frame`, i.e. whenever the previous
call has returned a request — of any kind, answered or not, executed or refused. Bytes that do not complete a request do not
restart it (the call they belong to is still pending). When it fires the client is dropped (`idleTimeout`).

`deadline` is the instant (any unit) at which the timeout of the pending `read_frame` call fires; `t` is the instant at
which bytes arrive; `now` is the store's clock (seconds) at that instant.
-/
namespace Memc

structure TConn where
  conn : Conn
  deadline : Nat
deriving DecidableEq, Repr

def TConn.start (t rx : Nat) : TConn := ⟨Conn.init, t + rx⟩

section
variable {σ : Type} (C : CacheOps σ)

/-- bytes arrive at instant `t` -/
def tfeed (limit rx now t : Nat) (tc : TConn) (s : σ) (chunk : Bytes) : TConn × σ × Bytes :=
  if tc.conn.closed then (tc, s, [])
  else if tc.deadline ≤ t then (⟨idleTimeout tc.conn, tc.deadline⟩, s, [])   -- the timer fired first: the bytes are never read
  else
    let r := feed C limit now tc.conn s chunk
    let n := (drain limit tc.conn.pst (tc.conn.buf ++ chunk)).1.length        -- calls of `read_frame` that returned
    (⟨r.1, if n = 0 then tc.deadline else t + rx⟩, r.2.1, r.2.2)

/-- arrivals `(t, now, bytes)` in order -/
def tfeedSeq (limit rx : Nat) : TConn → σ → List (Nat × Nat × Bytes) → TConn × σ × List Bytes
  | tc, s, [] => (tc, s, [])
  | tc, s, (t, now, chunk) :: rest =>
    let r := tfeed C limit rx now t tc s chunk
    let r2 := tfeedSeq limit rx r.1 r.2.1 rest
    (r2.1, r2.2.1, r.2.2 :: r2.2.2)

/-- the same arrivals without a timeout -/
def ufeedSeq (limit : Nat) : Conn → σ → List (Nat × Nat × Bytes) → Conn × σ × List Bytes
  | c, s, [] => (c, s, [])
  | c, s, (_, now, chunk) :: rest =>
    let r := feed C limit now c s chunk
    let r2 := ufeedSeq limit r.1 r.2.1 rest
    (r2.1, r2.2.1, r.2.2 :: r2.2.2)

/-- an *active* client: every batch of bytes arrives on the open connection, before the timeout of the pending `read_frame` and completes at least
    one request (any request: a quiet store that succeeds and a quiet get that misses count like an answered one) -/
def Active (limit rx : Nat) : Nat → Conn → σ → List (Nat × Nat × Bytes) → Prop
  | _, _, _, [] => True
  | d, c, s, (t, now, chunk) :: rest =>
    c.closed = false ∧ t < d ∧ 0 < (drain limit c.pst (c.buf ++ chunk)).1.length ∧
    Active limit rx (t + rx) (feed C limit now c s chunk).1 (feed C limit now c s chunk).2.1 rest

end
end Memc
