import MemcVerif.Model.Store
/-!
# L4: `protocol/binary.rs`, `protocol/binary_codec.rs`: headers, requests, per-opcode parsers, encoder
-/
namespace Memc

structure ReqHeader where
  magic : Nat
  opcode : Nat
  keyLen : Nat
  extrasLen : Nat
  dataType : Nat
  vbucket : Nat
  bodyLen : Nat
  opaq : Nat
  cas : Nat
deriving DecidableEq, Repr

def HEADER_LEN : Nat := 24

/-- `parse_header`'s field reads (`get_u8`, `get_u16`, …) on a buffer of at least 24 octets. -/
def parseHeader (b : Bytes) : ReqHeader :=
  { magic := getBE (b.take 1)
    opcode := getBE ((b.drop 1).take 1)
    keyLen := getBE ((b.drop 2).take 2)
    extrasLen := getBE ((b.drop 4).take 1)
    dataType := getBE ((b.drop 5).take 1)
    vbucket := getBE ((b.drop 6).take 2)
    bodyLen := getBE ((b.drop 8).take 4)
    opaq := getBE ((b.drop 12).take 4)
    cas := getBE ((b.drop 16).take 8) }

def OPCODE_MAX : Nat := 0x25

/-- `header_valid` -/
def headerValid (h : ReqHeader) : Bool :=
  h.magic == 0x80 && h.opcode < OPCODE_MAX && h.dataType == 0

/-- `request_valid` -/
def requestValid (h : ReqHeader) (keyRequired : Bool) : Bool :=
  if h.extrasLen > 20 then false
  else if h.keyLen > 250 then false
  else if keyRequired && h.keyLen == 0 then false
  else if h.bodyLen < h.keyLen + h.extrasLen then false
  else true

/-- `BinaryRequest`, grouped by payload shape; the opcode in the header selects the variant
    exactly as the chains of `if opcode == …` in the parsers do. -/
inductive Req
  | get (h : ReqHeader) (key : Bytes)
  | delete (h : ReqHeader) (key : Bytes)
  | set (h : ReqHeader) (flags exp : Nat) (key value : Bytes)
  | append (h : ReqHeader) (key value : Bytes)
  | delta (h : ReqHeader) (delta initial exp : Nat) (key : Bytes)
  | headerOnly (h : ReqHeader)
  | flush (h : ReqHeader) (exp : Nat)
  | tooLarge (h : ReqHeader)
  | notSupported (h : ReqHeader)
deriving DecidableEq, Repr

def Req.header : Req → ReqHeader
  | .get h _ | .delete h _ | .set h _ _ _ _ | .append h _ _ | .delta h _ _ _ _
  | .headerOnly h | .flush h _ | .tooLarge h | .notSupported h => h

/-- which parser `parse_request` dispatches to (`FromPrimitive::from_u8(opcode)`) -/
inductive OpGroup
  | get | append | set | delete | delta | headerOnly | flush | unsupported | invalid
deriving DecidableEq, Repr

def opGroup (op : Nat) : OpGroup :=
  if op = 0x00 ∨ op = 0x09 ∨ op = 0x0c ∨ op = 0x0d then .get
  else if op = 0x0e ∨ op = 0x19 ∨ op = 0x0f ∨ op = 0x1a then .append
  else if op = 0x01 ∨ op = 0x11 ∨ op = 0x02 ∨ op = 0x03 ∨ op = 0x12 ∨ op = 0x13 then .set
  else if op = 0x04 ∨ op = 0x14 then .delete
  else if op = 0x05 ∨ op = 0x06 ∨ op = 0x15 ∨ op = 0x16 then .delta
  else if op = 0x0a ∨ op = 0x07 ∨ op = 0x17 ∨ op = 0x10 ∨ op = 0x0b then .headerOnly
  else if op = 0x08 ∨ op = 0x18 then .flush
  else if op = 0x1c ∨ op = 0x1d ∨ op = 0x1e ∨ op = 0x23 ∨ op = 0x24 ∨ op = 0x21 ∨ op = 0x20 ∨ op = 0x22
    then .unsupported
  else .invalid     -- 0x1b, 0x1f, 0x25 (OpCodeMax), anything above

/-- `get_value_len` (guarded by `request_valid`) -/
def valueLen (h : ReqHeader) : Nat := h.bodyLen - (h.keyLen + h.extrasLen)

/-- `parse_request` on the **body** (exactly `body_length` octets, already split off the buffer;
    repaired code). `none` = `Err(InvalidData)`: the connection is closed. -/
def parseBody (h : ReqHeader) (body : Bytes) : Option Req :=
  match opGroup h.opcode with
  | .get =>
    if !requestValid h true then none else some (.get h (body.take h.keyLen))
  | .delete =>
    if !requestValid h true then none else some (.delete h (body.take h.keyLen))
  | .headerOnly =>
    if !requestValid h false then none else some (.headerOnly h)
  | .flush =>
    if !requestValid h false then none
    else some (.flush h (if h.extrasLen = 4 then getBE (body.take 4) else 0))
  | .append =>
    if !requestValid h true then none
    else some (.append h (body.take h.keyLen) ((body.drop h.keyLen).take (valueLen h)))
  | .delta =>
    if !requestValid h true then none
    else if body.length < 20 + h.keyLen then none
    else some (.delta h (getBE (body.take 8)) (getBE ((body.drop 8).take 8))
                (getBE ((body.drop 16).take 4)) ((body.drop 20).take h.keyLen))
  | .set =>
    if !requestValid h true then none
    else if body.length < 8 + h.keyLen + valueLen h then none
    else some (.set h (getBE (body.take 4)) (getBE ((body.drop 4).take 4))
                ((body.drop 8).take h.keyLen) ((body.drop (8 + h.keyLen)).take (valueLen h)))
  | .unsupported => some (.notSupported h)
  | .invalid => none

/-! ## responses -/

structure RespHeader where
  opcode : Nat
  keyLen : Nat := 0
  extrasLen : Nat := 0
  status : Nat := 0
  bodyLen : Nat := 0
  opaq : Nat
  cas : Nat := 0
deriving DecidableEq, Repr

/-- `BinaryResponse` by payload shape. `quit` is kept apart because `Client::handle_request`
    closes the connection on it. -/
inductive Resp
  | error (h : RespHeader) (text : Bytes)
  | get (h : RespHeader) (flags : Nat) (key value : Bytes)
  | plain (h : RespHeader)          -- Set/Add/Replace/Append/Prepend/Noop/Delete/Flush/Stats
  | quit (h : RespHeader)
  | version (h : RespHeader) (v : Bytes)
  | counter (h : RespHeader) (value : Nat)
deriving DecidableEq, Repr

def Resp.header : Resp → RespHeader
  | .error h _ | .get h _ _ _ | .plain h | .quit h | .version h _ | .counter h _ => h

/-- `write_header_impl` -/
def encodeHeader (h : RespHeader) : Bytes :=
  putBE 1 0x81 ++ putBE 1 h.opcode ++ putBE 2 h.keyLen ++ putBE 1 h.extrasLen ++ putBE 1 0 ++
  putBE 2 h.status ++ putBE 4 h.bodyLen ++ putBE 4 h.opaq ++ putBE 8 h.cas

/-- `encode_message` / `Encoder::encode` (identical output) -/
def encode (r : Resp) : Bytes :=
  encodeHeader r.header ++
  match r with
  | .error _ t => t
  | .get _ flags key value => putBE 4 flags ++ key ++ value
  | .plain _ | .quit _ => []
  | .version _ v => v
  | .counter _ v => putBE 8 v

/-- `storage_error_to_response` -/
def errorResp (e : CacheError) (h : RespHeader) : Resp :=
  .error { h with status := e.code, bodyLen := e.text.length } e.text

end Memc
