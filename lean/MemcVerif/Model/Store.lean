import MemcVerif.Model.Bytes
/-!
# L0: `memory_store/store.rs` (MemoryStore) and `cache/cache.rs` (Record, Cache::get)

One Lean function per Rust function. The DashMap is an association list with at most one entry per
key (`Mem.insert` erases first); every trait call is atomic. The clock is an argument (`now`).
-/
namespace Memc

/-- `cache/error.rs` CacheError, with its `as u16` value and `to_static_string`. -/
inductive CacheError
  | notFound | keyExists | valueTooLarge | invalidArguments | itemNotStored | arithOnNonNumeric
  | unknownCommand | outOfMemory | notSupported | internalError | busy | temporaryFailure
deriving DecidableEq, Repr

def CacheError.code : CacheError → Nat
  | .notFound => 0x01 | .keyExists => 0x02 | .valueTooLarge => 0x03 | .invalidArguments => 0x04
  | .itemNotStored => 0x05 | .arithOnNonNumeric => 0x06 | .unknownCommand => 0x81
  | .outOfMemory => 0x82 | .notSupported => 0x83 | .internalError => 0x84 | .busy => 0x85
  | .temporaryFailure => 0x86

/-- `to_static_string`, as the bytes written on the wire (ASCII) -/
def CacheError.text : CacheError → Bytes
  | .notFound => [78, 111, 116, 32, 102, 111, 117, 110, 100]   -- "Not found"
  | .keyExists => [75, 101, 121, 32, 101, 120, 105, 115, 116, 115]   -- "Key exists"
  | .valueTooLarge => [86, 97, 108, 117, 101, 32, 116, 111, 111, 32, 98, 105, 103]   -- "Value too big"
  | .invalidArguments => [73, 110, 118, 97, 108, 105, 100, 32, 97, 114, 103, 117, 109, 101, 110, 116, 115]   -- "Invalid arguments"
  | .itemNotStored => [73, 116, 101, 109, 32, 110, 111, 116, 32, 115, 116, 111, 114, 101, 100]   -- "Item not stored"
  | .arithOnNonNumeric => [73, 110, 99, 114, 47, 68, 101, 99, 114, 32, 111, 110, 32, 110, 111, 110, 32, 110, 117, 109, 101, 114, 105, 99, 32, 118, 97, 108, 117, 101]   -- "Incr/Decr on non numeric value"
  | .unknownCommand => [73, 110, 118, 97, 108, 105, 100, 32, 99, 111, 109, 109, 97, 110, 100]   -- "Invalid command"
  | .outOfMemory => [79, 117, 116, 32, 111, 102, 32, 109, 101, 109, 111, 114, 121]   -- "Out of memory"
  | .notSupported => [78, 111, 116, 32, 115, 117, 112, 112, 111, 114, 116, 101, 100]   -- "Not supported"
  | .internalError => [73, 110, 116, 101, 114, 110, 97, 108, 32, 101, 114, 114, 111, 114]   -- "Internal error"
  | .busy => [66, 117, 115, 121]   -- "Busy"
  | .temporaryFailure => [84, 101, 109, 112, 111, 114, 97, 114, 121, 32, 102, 97, 105, 108, 117, 114, 101]   -- "Temporary failure"

/-- `CacheMetaData` -/
structure Meta where
  timestamp : Nat
  cas : Nat
  flags : Nat
  ttl : Nat
deriving DecidableEq, Repr

/-- `CacheMetaData::new` -/
def Meta.new (cas flags ttl : Nat) : Meta := ⟨0, cas, flags, ttl⟩

structure Record where
  header : Meta
  value : Bytes
deriving DecidableEq, Repr

/-- `Record::new` -/
def Record.new (value : Bytes) (cas flags exp : Nat) : Record := ⟨Meta.new cas flags exp, value⟩

/-- `size_of::<CacheMetaData>()` -/
def META_LEN : Nat := 24

/-- `Record::len` -/
def Record.len (r : Record) : Nat := META_LEN + r.value.length

abbrev Key := Bytes
abbrev Mem := List (Key × Record)

def Mem.lookup (m : Mem) (k : Key) : Option Record :=
  match m with
  | [] => none
  | (k', r) :: rest => if k' = k then some r else Mem.lookup rest k

def Mem.erase (m : Mem) (k : Key) : Mem := m.filter (fun e => e.1 ≠ k)

def Mem.insert (m : Mem) (k : Key) (r : Record) : Mem := (k, r) :: m.erase k

structure MemStore where
  mem : Mem
  casId : Nat
deriving Repr

def MemStore.init : MemStore := ⟨[], 1⟩

/-- the deadline test of `check_if_expired`: `ttl ≠ 0 ∧ ¬ (timestamp + ttl > now)` -/
def Record.expired (now : Nat) (r : Record) : Bool :=
  r.header.ttl != 0 && !(r.header.timestamp + r.header.ttl > now)

namespace MemStore

/-- `CacheImplDetails::get_by_key` -/
def getByKey (s : MemStore) (k : Key) : Except CacheError Record :=
  match s.mem.lookup k with
  | some r => .ok r
  | none => .error .notFound

/-- `CacheImplDetails::check_if_expired` (repaired: removes only a record that is still expired) -/
def checkIfExpired (s : MemStore) (now : Nat) (k : Key) (r : Record) : MemStore × Bool :=
  if r.header.ttl = 0 then (s, false)
  else if r.header.timestamp + r.header.ttl > now then (s, false)
  else
    match s.mem.lookup k with
    | some stored => if stored.expired now then ({ s with mem := s.mem.erase k }, true) else (s, true)
    | none => (s, true)

/-- `Cache::get` (default method) -/
def get (s : MemStore) (now : Nat) (k : Key) : MemStore × Except CacheError Record :=
  match s.getByKey k with
  | .ok r =>
    let (s', ex) := s.checkIfExpired now k r
    if ex then (s', .error .notFound) else (s', .ok r)
  | .error e => (s, .error e)

/-- `Cache::set` for MemoryStore. Returns the new cas (`SetStatus`). -/
def set (s : MemStore) (now : Nat) (k : Key) (r : Record) : MemStore × Except CacheError Nat :=
  if r.header.cas > 0 then
    match s.mem.lookup k with
    | some old =>
      if old.header.cas ≠ r.header.cas then (s, .error .keyExists)
      else
        let c := s.casId
        let r' : Record := { r with header := { r.header with cas := c, timestamp := now } }
        ({ mem := s.mem.insert k r', casId := s.casId + 1 }, .ok c)
    | none =>
      let c := if r.header.cas + 1 < U64 then r.header.cas + 1 else U64MAX   -- saturating_add(1)
      let r' : Record := { r with header := { r.header with cas := c, timestamp := now } }
      ({ s with mem := s.mem.insert k r' }, .ok c)
  else
    let c := s.casId
    let r' : Record := { r with header := { r.header with cas := c, timestamp := now } }
    ({ mem := s.mem.insert k r', casId := s.casId + 1 }, .ok c)

/-- `Cache::delete`: `remove_if(key, cas == 0 || stored.cas == cas)` -/
def delete (s : MemStore) (k : Key) (cas : Nat) : MemStore × Except CacheError Record :=
  match s.mem.lookup k with
  | some r =>
    if cas = 0 ∨ r.header.cas = cas then ({ s with mem := s.mem.erase k }, .ok r)
    else (s, .error .keyExists)
  | none => (s, .error .notFound)

/-- per-record body of the delayed flush (repaired: only ever shortens a life) -/
def flushRecord (now ttl : Nat) (r : Record) : Record :=
  if r.header.ttl = 0 ∨ r.header.timestamp + r.header.ttl > now + ttl then
    { r with header := { r.header with timestamp := now, ttl := ttl } }
  else r

/-- `Cache::flush` -/
def flush (s : MemStore) (now : Nat) (ttl : Nat) : MemStore :=
  if ttl > 0 then { s with mem := s.mem.map (fun e => (e.1, flushRecord now ttl e.2)) }
  else { s with mem := [] }

/-- `Cache::remove` -/
def remove (s : MemStore) (k : Key) : MemStore × Option Record :=
  match s.mem.lookup k with
  | some r => ({ s with mem := s.mem.erase k }, some r)
  | none => (s, none)

def len (s : MemStore) : Nat := s.mem.length

end MemStore
end Memc
