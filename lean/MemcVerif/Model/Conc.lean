import MemcVerif.Model.Cmd
/-!
# Concurrency: micro-steps of L0–L2 at the granularity of the `Cache` trait calls

A client thread runs a list of commands; each command is a short sequence of *atomic* calls on the shared
`MemStore` (every DashMap call of the repaired code is one call holding one shard lock, and no call is made
while a guard is held). A schedule is a list of thread ids; `Sys.step` lets the named thread perform its
next call. The clock is constant during a concurrent phase (DESIGN.md Appendix F).

`Cache::get` is two calls: `get_by_key` (snapshot) and, when a record was found, `check_if_expired`
(decide on the *snapshot*, collect the stored record only if *it* is expired). All get-then-set commands of
`MemcStore` are the calls of `get` followed by one `set`.
-/
namespace Memc

/-- a client command at the `MemcStore` interface -/
inductive CCmd
  | get (k : Key)
  | set (k : Key) (r : Record)                -- `r.header.cas ≠ 0` = CAS store
  | delete (k : Key) (cas : Nat)
  | flush (ttl : Nat)
  | add (k : Key) (r : Record)
  | replace (k : Key) (r : Record)
  | append (k : Key) (r : Record)
  | prepend (k : Key) (r : Record)
  | delta (k : Key) (header : Meta) (delta initial : Nat) (incr : Bool)
deriving DecidableEq, Repr

/-- outcome of a command as the client sees it -/
inductive CRes
  | hit (r : Record)
  | stored (cas : Nat)
  | counter (cas value : Nat)
  | deleted
  | done
  | err (e : CacheError)
deriving DecidableEq, Repr

/-- where a thread is inside its current command -/
inductive Phase
  | idle                                   -- next: first call of the next command
  | snapped (c : CCmd) (snap : Record)     -- `get_by_key` returned `snap`; next: `check_if_expired`
  | decided (c : CCmd) (found : Option Record)   -- the command's `get` is complete; next: its `set` (or nothing)
deriving DecidableEq, Repr

structure Thread where
  todo : List CCmd
  phase : Phase := .idle
  results : List CRes := []
deriving DecidableEq, Repr

def CCmd.key : CCmd → Key
  | .get k | .set k _ | .delete k _ | .add k _ | .replace k _ | .append k _ | .prepend k _ | .delta k _ _ _ _ => k
  | .flush _ => []

def resOfCas : Except CacheError Nat → CRes
  | .ok c => .stored c
  | .error e => .err e

/-- the call a command makes once its `get` has answered (`found`), if any; `none` = the command is over -/
def afterGet (s : MemStore) (now : Nat) (c : CCmd) (found : Option Record) : MemStore × CRes :=
  match c, found with
  | .get _, some r => (s, .hit r)
  | .get _, none => (s, .err .notFound)
  | .add _ _, some _ => (s, .err .keyExists)
  | .add k r, none => let x := s.set now k r; (x.1, resOfCas x.2)
  | .replace k r, some _ => let x := s.set now k r; (x.1, resOfCas x.2)
  | .replace _ _, none => (s, .err .notFound)
  | .append k nr, some rec =>
    let x := s.set now k { header := { rec.header with cas := nr.header.cas }, value := rec.value ++ nr.value }
    (x.1, resOfCas x.2)
  | .append _ _, none => (s, .err .notFound)
  | .prepend k nr, some rec =>
    let x := s.set now k { header := { rec.header with cas := nr.header.cas }, value := nr.value ++ rec.value }
    (x.1, resOfCas x.2)
  | .prepend _ _, none => (s, .err .notFound)
  | .delta k header d _ inc, some rec =>
    match parseU64 rec.value with
    | none => (s, .err .arithOnNonNumeric)
    | some v =>
      let v' := if inc then (v + d) % U64 else if d > v then 0 else v - d
      match s.set now k { header := { header with flags := rec.header.flags }, value := toDec v' } with
      | (s', .ok c) => (s', .counter c v')
      | (s', .error e) => (s', .err e)
  | .delta k header _ i _, none =>
    if header.ttl ≠ 0xffffffff then
      match s.set now k (Record.new (toDec i) 0 0 header.ttl) with
      | (s', .ok c) => (s', .counter c i)
      | (s', .error e) => (s', .err e)
    else (s, .err .notFound)
  | _, _ => (s, .done)

/-- does the command need a store call after its `get`? (pure decisions are folded into the `get`'s last call) -/
def needsSet (c : CCmd) (found : Option Record) : Bool :=
  match c, found with
  | .add _ _, none | .replace _ _, some _ | .append _ _, some _ | .prepend _ _, some _ => true
  | .delta _ _ _ _ _, some rec => (parseU64 rec.value).isSome
  | .delta _ h _ _ _, none => h.ttl ≠ 0xffffffff
  | _, _ => false

/-- finish the command's `get` with answer `found`: either the command is over (result recorded) or it
    moves on to its store call -/
def Thread.afterFound (t : Thread) (s : MemStore) (now : Nat) (c : CCmd) (found : Option Record) : MemStore × Thread :=
  if needsSet c found then (s, { t with phase := .decided c found })
  else
    let x := afterGet s now c found
    (x.1, { t with phase := .idle, results := t.results ++ [x.2] })

/-- one call of thread `t` on the shared store -/
def Thread.step (t : Thread) (s : MemStore) (now : Nat) : MemStore × Thread :=
  match t.phase with
  | .idle =>
    match t.todo with
    | [] => (s, t)
    | c :: rest =>
      let t := { t with todo := rest }
      match c with
      | .set k r => let x := s.set now k r; (x.1, { t with results := t.results ++ [resOfCas x.2] })
      | .delete k cas =>
        let x := s.delete k cas
        (x.1, { t with results := t.results ++ [match x.2 with | .ok _ => .deleted | .error e => .err e] })
      | .flush ttl => (s.flush now ttl, { t with results := t.results ++ [.done] })
      | c =>
        -- first call of `Cache::get`: get_by_key
        match s.getByKey c.key with
        | .ok snap => (s, { t with phase := .snapped c snap })
        | .error _ => t.afterFound s now c none
  | .snapped c snap =>
    -- second call of `Cache::get`: check_if_expired on the snapshot
    let x := s.checkIfExpired now c.key snap
    t.afterFound x.1 now c (if x.2 then none else some snap)
  | .decided c found =>
    let x := afterGet s now c found
    (x.1, { t with phase := .idle, results := t.results ++ [x.2] })

def Thread.finished (t : Thread) : Bool := t.todo.isEmpty && t.phase == .idle

structure Sys where
  store : MemStore
  threads : List Thread
deriving Repr

/-- the scheduler lets thread `i` make its next call (no-op if `i` does not exist or has finished) -/
def Sys.step (sys : Sys) (now : Nat) (i : Nat) : Sys :=
  match sys.threads[i]? with
  | none => sys
  | some t =>
    let x := t.step sys.store now
    { store := x.1, threads := sys.threads.set i x.2 }

def Sys.run (sys : Sys) (now : Nat) (sched : List Nat) : Sys := sched.foldl (fun s i => s.step now i) sys

def Sys.quiescent (sys : Sys) : Bool := sys.threads.all Thread.finished

/-- schedules with a moving clock (what the `sched` suite drives): thread `i` makes its next call; the one-second clock
    ticks; thread `i` makes its next call with the clock reading from before the last tick (the call had read the clock,
    the tick came, other calls ran, then its map operation ran) -/
inductive Tok
  | grant (i : Nat)
  | tick
  | stale (i : Nat)
deriving DecidableEq, Repr

def Sys.runToks (sys : Sys) (now : Nat) : List Tok → Sys × Nat
  | [] => (sys, now)
  | .grant i :: rest => Sys.runToks (sys.step now i) now rest
  | .tick :: rest => Sys.runToks sys (now + 1) rest
  | .stale i :: rest => Sys.runToks (sys.step (now - 1) i) now rest

end Memc
