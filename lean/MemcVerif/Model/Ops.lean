import MemcVerif.Model.Handler
/-!
# Store-level commands as data

`Op` is what `BinaryHandler` asks `MemcStore` to do for one request (`reqOp`), `applyOp` runs it on
the `MemStore` (eviction policy none). `handleRequest memOps` factors through these
(`Proofs/Link.lean: handleRequest_eq`), so theorems about command histories are stated over `Op`s.
-/
namespace Memc

inductive Op
  | get (k : Key)
  | set (k : Key) (r : Record)
  | add (k : Key) (r : Record)
  | replace (k : Key) (r : Record)
  | append (k : Key) (r : Record)
  | prepend (k : Key) (r : Record)
  | delta (k : Key) (header : Meta) (delta initial : Nat) (incr : Bool)
  | delete (k : Key) (cas : Nat)
  | flush (ttl : Nat)
  | nop
deriving DecidableEq, Repr

inductive Res
  | record (r : Record)
  | stored (cas : Nat)
  | counter (d : DeltaResult)
  | deleted
  | unit
  | err (e : CacheError)
deriving DecidableEq, Repr

def Op.key : Op → Option Key
  | .get k | .set k _ | .add k _ | .replace k _ | .append k _ | .prepend k _ | .delta k _ _ _ _ | .delete k _ => some k
  | .flush _ | .nop => none

def Res.ofCas : Except CacheError Nat → Res
  | .ok c => .stored c
  | .error e => .err e

def applyOp (s : MemStore) (now : Nat) : Op → MemStore × Res
  | .get k => match s.get now k with
    | (s', .ok r) => (s', .record r)
    | (s', .error e) => (s', .err e)
  | .set k r => let x := s.set now k r; (x.1, Res.ofCas x.2)
  | .add k r => let x := Cmd.add memOps s now k r; (x.1, Res.ofCas x.2)
  | .replace k r => let x := Cmd.replace memOps s now k r; (x.1, Res.ofCas x.2)
  | .append k r => let x := Cmd.append memOps s now k r; (x.1, Res.ofCas x.2)
  | .prepend k r => let x := Cmd.prepend memOps s now k r; (x.1, Res.ofCas x.2)
  | .delta k h d i inc => match Cmd.addDelta memOps s now h k d i inc with
    | (s', .ok r) => (s', .counter r)
    | (s', .error e) => (s', .err e)
  | .delete k cas => match s.delete k cas with
    | (s', .ok _) => (s', .deleted)
    | (s', .error e) => (s', .err e)
  | .flush ttl => (s.flush now ttl, .unit)
  | .nop => (s, .unit)

/-- the command a decoded request stands for -/
def reqOp (req : Req) : Op :=
  let h := req.header
  match req with
  | .get _ key => .get key
  | .delete _ key => .delete key h.cas
  | .set _ flags exp key value =>
    let nr := Record.new value h.cas flags exp
    if isSetOp h.opcode then .set key nr else if isAddOp h.opcode then .add key nr else .replace key nr
  | .append _ key value =>
    let nr := Record.new value h.cas 0 0
    if isAppendOp h.opcode then .append key nr else .prepend key nr
  | .delta _ delta initial exp key => .delta key (Meta.new h.cas h.opaq exp) delta initial (isIncrOp h.opcode)
  | .flush _ exp => .flush exp
  | .headerOnly _ | .tooLarge _ | .notSupported _ => .nop

/-- a history: each command with the clock reading at which it runs -/
abbrev History := List (Nat × Op)

def runOps (s : MemStore) : History → MemStore
  | [] => s
  | (now, op) :: rest => runOps (applyOp s now op).1 rest

/-- what a client can see of key `k` at time `now`: the stored record unless its deadline passed -/
def MemStore.vis (s : MemStore) (now : Nat) (k : Key) : Option Record :=
  match s.mem.lookup k with
  | some r => if r.expired now then none else some r
  | none => none

end Memc
