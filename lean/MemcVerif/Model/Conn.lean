import MemcVerif.Model.Handler
/-!
# L4 decoder state machine, L5 `binary_connection.rs` (read_frame, oversize skip), L6 `client_handler.rs`

`Codec.decode` mirrors `Decoder::decode` (two parser states). `decode1` is one turn of `read_frame`'s
loop on the bytes buffered so far (decode, and the ItemTooLarge skip arithmetic of the repaired code);
reading from the socket is modelled by appending a chunk to the buffer (`feed`).
-/
namespace Memc

inductive CodecState
  | none
  | headerParsed (h : ReqHeader)
deriving DecidableEq, Repr

inductive DecodeResult
  | needMore                 -- `Ok(None)`
  | frame (r : Req)          -- `Ok(Some(request))`
  | err                      -- `Err(_)`: read_frame propagates it, the client loop ends
deriving DecidableEq, Repr

namespace Codec

/-- `decode` after the header is known (second half of `Decoder::decode` + `parse_request`) -/
def afterHeader (limit : Nat) (h : ReqHeader) (buf : Bytes) : DecodeResult × CodecState × Bytes :=
  if h.bodyLen > limit then (.frame (.tooLarge h), .none, buf)
  else if h.bodyLen > buf.length then (.needMore, .headerParsed h, buf)
  else
    match parseBody h (buf.take h.bodyLen) with
    | some r => (.frame r, .none, buf.drop h.bodyLen)
    | none => (.err, .none, buf.drop h.bodyLen)

/-- `Decoder::decode` -/
def decode (limit : Nat) (st : CodecState) (buf : Bytes) : DecodeResult × CodecState × Bytes :=
  match st with
  | .none =>
    if buf.length < HEADER_LEN then (.needMore, .none, buf)
    else
      let h := parseHeader buf
      if !headerValid h then (.err, .headerParsed h, buf.drop HEADER_LEN)
      else afterHeader limit h (buf.drop HEADER_LEN)
  | .headerParsed h => afterHeader limit h buf

end Codec

/-- connection-level parser state: the codec's state, plus "discarding the rest of an oversized
    body" (`skip_bytes`), plus "no further reads" -/
inductive PState
  | idle
  | hdr (h : ReqHeader)
  | skipping (h : ReqHeader) (n : Nat)
  | dead
deriving DecidableEq, Repr

inductive Ev
  | frame (r : Req)
  | protoErr
deriving DecidableEq, Repr

inductive Dec
  | needMore (st : PState) (buf : Bytes)
  | emit (e : Ev) (st : PState) (buf : Bytes)
deriving DecidableEq, Repr

/-- what `read_frame` does with the codec's answer -/
def afterDecode (res : DecodeResult × CodecState × Bytes) : Dec :=
  match res with
  | (.needMore, .none, buf) => .needMore .idle buf
  | (.needMore, .headerParsed h, buf) => .needMore (.hdr h) buf
  | (.err, _, _) => .emit .protoErr .dead []
  | (.frame (.tooLarge h), _, buf) =>
    if buf.length ≥ h.bodyLen then .emit (.frame (.tooLarge h)) .idle (buf.drop h.bodyLen)
    else .needMore (.skipping h (h.bodyLen - buf.length)) []
  | (.frame r, _, buf) => .emit (.frame r) .idle buf

/-- one turn of `read_frame`'s loop on the buffered bytes -/
def decode1 (limit : Nat) : PState → Bytes → Dec
  | .idle, buf => afterDecode (Codec.decode limit .none buf)
  | .hdr h, buf => afterDecode (Codec.decode limit (.headerParsed h) buf)
  | .skipping h n, buf =>
    if n ≤ buf.length then .emit (.frame (.tooLarge h)) .idle (buf.drop n)
    else .needMore (.skipping h (n - buf.length)) []
  | .dead, _ => .needMore .dead []

def pmeasure (st : PState) (buf : Bytes) : Nat :=
  2 * buf.length + (match st with | .idle => 0 | .dead => 0 | _ => 1)

end Memc

namespace Memc

theorem afterDecode_afterHeader_emit_measure {limit h buf e st' buf'} {stc : PState} (hst : stc ≠ .idle)
    (hd : afterDecode (Codec.afterHeader limit h buf) = .emit e st' buf') :
    pmeasure st' buf' < 2 * buf.length + 1 := by
  unfold Codec.afterHeader at hd
  split at hd
  · simp only [afterDecode] at hd
    split at hd
    · simp only [Dec.emit.injEq] at hd; obtain ⟨_, rfl, rfl⟩ := hd
      simp [pmeasure]; omega
    · simp at hd
  · split at hd
    · simp [afterDecode] at hd
    · split at hd
      · rename_i r hr
        cases r <;> simp only [afterDecode] at hd
        all_goals first
          | (simp only [Dec.emit.injEq] at hd; obtain ⟨_, rfl, rfl⟩ := hd; simp [pmeasure]; omega)
          | (split at hd
             · simp only [Dec.emit.injEq] at hd; obtain ⟨_, rfl, rfl⟩ := hd; simp [pmeasure]; omega
             · simp at hd)
      · simp only [afterDecode, Dec.emit.injEq] at hd; obtain ⟨_, rfl, rfl⟩ := hd
        simp [pmeasure]

theorem decode1_emit_measure {limit st buf e st' buf'} (hd : decode1 limit st buf = .emit e st' buf') :
    pmeasure st' buf' < pmeasure st buf := by
  cases st with
  | idle =>
    simp only [decode1, Codec.decode] at hd
    split at hd
    · simp [afterDecode] at hd
    · rename_i hlen
      split at hd
      · simp only [afterDecode, Dec.emit.injEq] at hd; obtain ⟨_, rfl, rfl⟩ := hd
        simp [pmeasure, HEADER_LEN] at *; omega
      · have := afterDecode_afterHeader_emit_measure (stc := .dead) (by simp) hd
        simp [pmeasure, HEADER_LEN] at *; omega
  | hdr h =>
    simp only [decode1, Codec.decode] at hd
    have := afterDecode_afterHeader_emit_measure (stc := .dead) (by simp) hd
    simp [pmeasure] at *; omega
  | skipping h n =>
    simp only [decode1] at hd
    split at hd
    · simp only [Dec.emit.injEq] at hd; obtain ⟨_, rfl, rfl⟩ := hd
      simp [pmeasure]; omega
    · simp at hd
  | dead => simp [decode1] at hd

/-- decode everything that is complete in the buffer: events, parser state and residue afterwards -/
def drain (limit : Nat) (st : PState) (buf : Bytes) : List Ev × PState × Bytes :=
  match _hd : decode1 limit st buf with
  | .needMore st' buf' => ([], st', buf')
  | .emit e st' buf' =>
    let r := drain limit st' buf'
    (e :: r.1, r.2)
termination_by pmeasure st buf
decreasing_by exact decode1_emit_measure ‹_›

end Memc

namespace Memc

/-- `BinaryRequest::QuitQuietly` (intercepted by `Client::handle_request` before the handler) -/
def isQuitQ (r : Req) : Bool :=
  match r with
  | .headerOnly h => h.opcode = 0x17
  | _ => false

def Resp.isQuit : Resp → Bool
  | .quit _ => true
  | _ => false

section
variable {σ : Type} (C : CacheOps σ)

/-- `Client::handle_frame`/`handle_request` on one decoder event:
    new store, bytes written to the socket, "leave the receive loop". -/
def execEv (now : Nat) (s : σ) (e : Ev) : σ × Bytes × Bool :=
  match e with
  | .protoErr => (s, [], true)
  | .frame r =>
    if isQuitQ r then (s, [], true)
    else
      match handleRequest C s now r with
      | (s', some resp) => (s', encode resp, resp.isQuit)
      | (s', none) => (s', [], false)

/-- the receive loop over a list of decoder events; events after the loop was left are not looked at -/
def execEvs (now : Nat) : σ → List Ev → σ × Bytes × Bool
  | s, [] => (s, [], false)
  | s, e :: es =>
    let r1 := execEv C now s e
    if r1.2.2 then r1
    else
      let r2 := execEvs now r1.1 es
      (r2.1, r1.2.1 ++ r2.2.1, r2.2.2)

structure Conn where
  pst : PState
  buf : Bytes
  closed : Bool
deriving DecidableEq, Repr

def Conn.init : Conn := ⟨.idle, [], false⟩
def Conn.dead : Conn := ⟨.dead, [], true⟩

/-- bytes arrive on the socket: everything that became complete is executed in order -/
def feed (limit now : Nat) (c : Conn) (s : σ) (chunk : Bytes) : Conn × σ × Bytes :=
  if c.closed then (c, s, [])
  else
    let d := drain limit c.pst (c.buf ++ chunk)
    let r := execEvs C now s d.1
    if r.2.2 then (Conn.dead, r.1, r.2.1) else (⟨d.2.1, d.2.2, false⟩, r.1, r.2.1)

/-- the peer half-closes (read returns 0). While an oversized body is being discarded `skip_bytes`
    returns `Ok`, so the pending "too large" answer is still written; in every other state nothing is. -/
def eof (now : Nat) (c : Conn) (s : σ) : Conn × σ × Bytes :=
  if c.closed then (c, s, [])
  else
    match c.pst with
    | .skipping h _ =>
      let r := execEv C now s (.frame (.tooLarge h))
      (Conn.dead, r.1, r.2.1)
    | _ => (Conn.dead, s, [])

/-- the receive timeout elapses while `read_frame` is pending (`Client::handle`: `timeout(rx, read_frame())` → the client
    is dropped): the connection ends in whatever state it is — idle, in the middle of a request, or in the middle of
    discarding an oversized body (whose 'too large' answer is then never written) — and nothing is executed or written -/
def idleTimeout (c : Conn) : Conn := if c.closed then c else Conn.dead

end
end Memc
