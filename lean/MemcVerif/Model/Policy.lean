import MemcVerif.Model.Cmd
/-!
# L1: `memcache/random_policy.rs` (RandomPolicy)

The victim choice (`SmallRng`, DashMap iteration order) is an input: `tape` holds the keys the real code
evicted, in order; the model *validates* each choice (loop guard true, store non-empty, victim present) and
sets `bad` when the implementation evicted something the loop could not have evicted, evicted when the
guard was false, or failed to evict when it had to. `usage` is the `AtomicU64` (wrapping arithmetic).
-/
namespace Memc

def wadd (a b : Nat) : Nat := (a + b) % U64
def wsub (a b : Nat) : Nat := (a + U64 - b % U64) % U64

structure Policy where
  inner : MemStore
  usage : Nat
  limit : Nat
  tape : List Key := []
  bad : Bool := false
deriving Repr

def Policy.init (limit : Nat) : Policy := { inner := MemStore.init, usage := 0, limit := limit }

namespace Policy

/-- the `while usage > limit` loop of `incr_mem_usage` (repaired: post-operation values) -/
def evictLoop (value : Nat) : (tape : List Key) → Policy → Nat → Policy
  | tape, p, u =>
    if u > p.limit then
      if p.inner.len = 0 then
        -- store empty: keep only the pending record accounted
        { p with usage := wsub p.usage (wsub u value), tape := tape, bad := p.bad || !tape.isEmpty }
      else
        match tape with
        | [] => { p with tape := [], bad := true }           -- the loop had to evict but did not
        | v :: rest =>
          match p.inner.mem.lookup v with
          | none => { p with tape := rest, bad := true }     -- evicted something that is not stored
          | some r =>
            let u' := wsub p.usage r.len
            evictLoop value rest { p with inner := { p.inner with mem := p.inner.mem.erase v }, usage := u' } u'
    else { p with tape := tape, bad := p.bad || !tape.isEmpty }   -- guard false: nothing may be evicted

/-- `incr_mem_usage` -/
def incrMemUsage (p : Policy) (value : Nat) : Policy :=
  let u := wadd p.usage value
  evictLoop value p.tape { p with usage := u } u

/-- `Cache::set` for RandomPolicy -/
def set (p : Policy) (now : Nat) (k : Key) (r : Record) : Policy × Except CacheError Nat :=
  let p1 := p.incrMemUsage r.len
  let x := p1.inner.set now k r
  ({ p1 with inner := x.1 }, x.2)

/-- `Cache::get`: straight to the inner store (lazy expiry is not accounted) -/
def get (p : Policy) (now : Nat) (k : Key) : Policy × Except CacheError Record :=
  let x := p.inner.get now k
  ({ p with inner := x.1 }, x.2)

/-- `Cache::delete` -/
def delete (p : Policy) (k : Key) (cas : Nat) : Policy × Except CacheError Record :=
  let x := p.inner.delete k cas
  match x.2 with
  | .ok r => ({ p with inner := x.1, usage := wsub p.usage r.len }, .ok r)
  | .error e => ({ p with inner := x.1 }, .error e)

/-- `Cache::flush`: straight to the inner store (not accounted) -/
def flush (p : Policy) (now ttl : Nat) : Policy := { p with inner := p.inner.flush now ttl }

def stored (p : Policy) : Nat := (p.inner.mem.map (fun e => e.2.len)).sum

end Policy

def polOps : CacheOps Policy :=
  { get := Policy.get, set := Policy.set, delete := Policy.delete, flush := Policy.flush }

end Memc
