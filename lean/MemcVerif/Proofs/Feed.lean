import MemcVerif.Proofs.Conn
/-! Connection level: executing decoded events in order, `feed (feed c a) b = feed c (a ++ b)`. -/
namespace Memc

variable {σ : Type} (C : CacheOps σ)

theorem execEvs_append (now : Nat) (s : σ) (es1 es2 : List Ev) :
    execEvs C now s (es1 ++ es2) =
      if (execEvs C now s es1).2.2 then execEvs C now s es1
      else ((execEvs C now (execEvs C now s es1).1 es2).1,
            (execEvs C now s es1).2.1 ++ (execEvs C now (execEvs C now s es1).1 es2).2.1,
            (execEvs C now (execEvs C now s es1).1 es2).2.2) := by
  induction es1 generalizing s with
  | nil => simp [execEvs]
  | cons e es ih =>
    simp only [List.cons_append, execEvs]
    by_cases h1 : (execEv C now s e).2.2 = true
    · simp [h1]
    · simp only [h1, Bool.false_eq_true, if_false]
      rw [ih]
      by_cases h2 : (execEvs C now (execEv C now s e).1 es).2.2 = true
      · simp [h2]
      · simp [h2, List.append_assoc]

/-- a drained connection state is a fixpoint of `drain` -/
theorem drain_idem (limit : Nat) (st : PState) (buf : Bytes) :
    drain limit (drain limit st buf).2.1 (drain limit st buf).2.2 = ([], (drain limit st buf).2.1, (drain limit st buf).2.2) := by
  fun_induction drain limit st buf with
  | case1 st buf st' buf' hd =>
    simp only
    have := decode1_needMore_append [] hd
    simp only [List.append_nil] at this
    rw [drain_eq, ← this, hd]
  | case2 st buf e st' buf' hd r ih => simpa [r] using ih

/-- **`feed (feed c a) b = feed c (a ++ b)`**: responses, store and connection state -/
theorem feed_feed (limit now : Nat) (c : Conn) (s : σ) (a b : Bytes) :
    feed C limit now c s (a ++ b) =
      ((feed C limit now (feed C limit now c s a).1 (feed C limit now c s a).2.1 b).1,
       (feed C limit now (feed C limit now c s a).1 (feed C limit now c s a).2.1 b).2.1,
       (feed C limit now c s a).2.2 ++ (feed C limit now (feed C limit now c s a).1 (feed C limit now c s a).2.1 b).2.2) := by
  by_cases hc : c.closed = true
  · simp [feed, hc]
  · simp only [feed, hc, Bool.false_eq_true, if_false]
    rw [← List.append_assoc, drain_append, execEvs_append]
    by_cases h1 : (execEvs C now s (drain limit c.pst (c.buf ++ a)).1).2.2 = true
    · simp [h1, Conn.dead]
    · simp only [h1, Bool.false_eq_true, if_false]
      by_cases h2 : (execEvs C now (execEvs C now s (drain limit c.pst (c.buf ++ a)).1).1
          (drain limit (drain limit c.pst (c.buf ++ a)).2.1 ((drain limit c.pst (c.buf ++ a)).2.2 ++ b)).1).2.2 = true
      · simp [h2]
      · simp [h2]

/-- deliver a list of chunks one after the other -/
def feedAll (limit now : Nat) (c : Conn) (s : σ) : List Bytes → Conn × σ × Bytes
  | [] => (c, s, [])
  | ch :: rest =>
    let r1 := feed C limit now c s ch
    let r2 := feedAll limit now r1.1 r1.2.1 rest
    (r2.1, r2.2.1, r1.2.2 ++ r2.2.2)

theorem feedAll_cons_flatten (limit now : Nat) (c : Conn) (s : σ) (ch : Bytes) (rest : List Bytes) :
    feedAll C limit now c s (ch :: rest) = feed C limit now c s (ch ++ rest.flatten) := by
  induction rest generalizing c s ch with
  | nil => simp [feedAll]
  | cons b rest ih =>
    rw [feedAll, ih]
    simp only [List.flatten_cons]
    rw [feed_feed C limit now c s ch (b ++ rest.flatten)]

end Memc
