import MemcVerif.Model.Policy
import MemcVerif.Proofs.Ops
/-! Accounting invariant of RandomPolicy (sequential): accounted usage never falls below the bytes stored. -/
namespace Memc

/-- total `Record::len` over the store -/
def Mem.bytes (m : Mem) : Nat := (m.map (fun e => e.2.len)).sum

@[simp] theorem Mem.bytes_nil : Mem.bytes [] = 0 := rfl
@[simp] theorem Mem.bytes_cons (e : Key × Record) (m : Mem) : Mem.bytes (e :: m) = e.2.len + Mem.bytes m := by
  simp [Mem.bytes]

theorem Mem.bytes_erase_le (m : Mem) (k : Key) : (m.erase k).bytes ≤ m.bytes := by
  induction m with
  | nil => simp [Mem.erase]
  | cons e m ih =>
    obtain ⟨k', r⟩ := e
    rw [Mem.erase_cons]
    by_cases h : k' = k
    · simp [h]; omega
    · simp [h]; omega

/-- erasing a key that is present frees at least the size of the record `lookup` returns -/
theorem Mem.bytes_erase_lookup (m : Mem) (k : Key) (r : Record) (h : m.lookup k = some r) :
    (m.erase k).bytes + r.len ≤ m.bytes := by
  induction m with
  | nil => simp at h
  | cons e m ih =>
    obtain ⟨k', r'⟩ := e
    rw [Mem.erase_cons]
    rw [Mem.lookup_cons] at h
    by_cases hk : k' = k
    · simp [hk] at h; subst h
      simp [hk]
      have := Mem.bytes_erase_le m k
      omega
    · simp [hk] at h
      simp [hk]
      have := ih h
      omega

theorem Mem.bytes_insert_le (m : Mem) (k : Key) (r : Record) : (m.insert k r).bytes ≤ r.len + m.bytes := by
  simp [Mem.insert]
  exact Mem.bytes_erase_le m k

theorem Mem.bytes_of_length_zero (m : Mem) (h : m.length = 0) : m.bytes = 0 := by
  cases m with
  | nil => rfl
  | cons e m => simp at h

theorem Mem.bytes_map_flush (m : Mem) (now ttl : Nat) :
    Mem.bytes (m.map (fun e => (e.1, MemStore.flushRecord now ttl e.2))) = m.bytes := by
  induction m with
  | nil => rfl
  | cons e m ih =>
    simp only [List.map_cons, Mem.bytes_cons, ih]
    congr 1
    unfold MemStore.flushRecord Record.len
    split <;> rfl

theorem wsub_exact {a b : Nat} (hb : b ≤ a) (ha : a < U64) : wsub a b = a - b := by
  unfold wsub
  have hb' : b % U64 = b := Nat.mod_eq_of_lt (by omega)
  rw [hb']
  have : a + U64 - b = (a - b) + U64 := by omega
  rw [this, Nat.add_mod_right, Nat.mod_eq_of_lt (by omega)]

theorem wadd_exact {a b : Nat} (h : a + b < U64) : wadd a b = a + b := by
  unfold wadd; exact Nat.mod_eq_of_lt h

/-- what the stores of the inner `MemStore` calls do to the byte total -/
theorem MemStore.set_bytes_le (s : MemStore) (now : Nat) (k : Key) (r : Record) :
    (s.set now k r).1.mem.bytes ≤ r.len + s.mem.bytes := by
  have hstamp : ∀ c, (MemStore.stamp r c now).len = r.len := by intro c; rfl
  rcases MemStore.set_self_cases' s now k r with h | h | h <;> rw [h]
  · simp
  · simp only; have := Mem.bytes_insert_le s.mem k (MemStore.stamp r s.casId now); rw [hstamp] at this; exact this
  · simp only; have := Mem.bytes_insert_le s.mem k (MemStore.stamp r (MemStore.satSucc r.header.cas) now); rw [hstamp] at this; exact this

section
open MemStore
/-- the eviction loop never touches the CAS counter -/
theorem evictLoop_casId (value : Nat) (tape : List Key) (p : Policy) (u : Nat) :
    (Policy.evictLoop value tape p u).inner.casId = p.inner.casId := by
  induction tape generalizing p u with
  | nil => unfold Policy.evictLoop; split <;> (try split) <;> rfl
  | cons v rest ih =>
    unfold Policy.evictLoop
    by_cases hg : u > p.limit
    · simp only [hg, if_true]
      by_cases he : p.inner.len = 0
      · simp [he]
      · simp only [he, if_false]
        cases hl : p.inner.mem.lookup v with
        | none => rfl
        | some r => simp only; rw [ih]
    · simp [hg]

/-- a store without CAS behind the policy is always acknowledged, with the next CAS, and its record is in the store
    afterwards — for every limit, usage and tape of victims -/
theorem policy_set_cas0 (p : Policy) (now : Nat) (k : Key) (r : Record) (h : r.header.cas = 0) :
    (p.set now k r).2 = .ok p.inner.casId ∧
    (p.set now k r).1.inner.mem.lookup k = some (stamp r p.inner.casId now) := by
  have hc : (p.incrMemUsage r.len).inner.casId = p.inner.casId := by
    unfold Policy.incrMemUsage; exact evictLoop_casId _ _ _ _
  simp only [Policy.set]
  rw [set_cas0 _ _ _ _ h]
  simp [hc, Mem.lookup_insert_self]


end

end Memc
