import MemcVerif.Model.Skip
/-! Invariant of the discard loop: the capacity offered never exceeds what is still owed. -/
namespace Memc

def SkipSt.Inv (bytes : Nat) (s : SkipSt) : Prop :=
  s.overread = false ∧ s.counter ≤ bytes ∧ (s.done = true → s.counter = bytes) ∧
  (s.done = false → s.cap ≤ bytes - s.counter ∧ 0 < s.cap)

theorem SkipSt.inv_init (bytes : Nat) : (SkipSt.init bytes).Inv bytes := by
  unfold SkipSt.init SkipSt.Inv SKIP_BUF
  by_cases h : bytes = 0
  · subst h; simp
  · have : (bytes == 0) = false := by simp [h]
    simp only [this]
    refine ⟨by simp, by simp, by simp, fun _ => ⟨by simp; omega, by simp [Nat.lt_min]; omega⟩⟩

theorem SkipSt.inv_step (bytes : Nat) (s : SkipSt) (n : Nat) (h : s.Inv bytes) (hd : s.done = false)
    (hn : 0 < n) (hcap : n ≤ s.cap) : (s.step bytes n).Inv bytes := by
  obtain ⟨h1, h2, _, h4⟩ := h
  obtain ⟨hc, _⟩ := h4 hd
  unfold SkipSt.step
  simp only [hd, h1, Bool.or_self, Bool.false_eq_true, if_false]
  by_cases he : s.counter + n = bytes
  · simp [he, SkipSt.Inv, h1]
  · have hlt : s.counter + n < bytes := by omega
    have hb : (s.counter + n == bytes) = false := by simp [he]
    have hg : ¬ (s.counter + n > bytes) := by omega
    simp only [hb, hg, Bool.false_eq_true, if_false]
    refine ⟨by simp, by simp; omega, by simp, fun _ => ?_⟩
    unfold SKIP_BUF
    by_cases hs : bytes - (s.counter + n) < 64 * 1024
    · simp [hs]; omega
    · simp [hs]; omega

end Memc
