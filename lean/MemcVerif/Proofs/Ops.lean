import MemcVerif.Model.Ops
import MemcVerif.Proofs.Mem
/-! Specification lemmas for the `MemStore` calls in terms of `lookup` and `vis`. -/
namespace Memc
namespace MemStore

theorem vis_def (s : MemStore) (now : Nat) (k : Key) :
    s.vis now k = match s.mem.lookup k with
      | some r => if r.expired now then none else some r
      | none => none := rfl

theorem expired_iff (now : Nat) (r : Record) :
    r.expired now = true ↔ r.header.ttl ≠ 0 ∧ r.header.timestamp + r.header.ttl ≤ now := by
  simp [Record.expired]

/-- `get` answers with what is visible -/
theorem get_result (s : MemStore) (now : Nat) (k : Key) :
    (s.get now k).2 = match s.vis now k with
      | some r => .ok r
      | none => .error .notFound := by
  unfold get getByKey vis
  cases hl : s.mem.lookup k with
  | none => simp
  | some r =>
    simp only [checkIfExpired, hl]
    by_cases h0 : r.header.ttl = 0
    · simp [h0, Record.expired]
    · by_cases h1 : r.header.timestamp + r.header.ttl > now
      · simp [h0, h1, Record.expired]
      · have : r.expired now = true := by rw [expired_iff]; omega
        simp [h0, h1, this]

/-- after `get`, the addressed key holds exactly what was visible (an expired record is collected) -/
theorem get_lookup_self (s : MemStore) (now : Nat) (k : Key) :
    (s.get now k).1.mem.lookup k = s.vis now k := by
  unfold get getByKey vis
  cases hl : s.mem.lookup k with
  | none => simp [hl]
  | some r =>
    simp only [checkIfExpired, hl]
    by_cases h0 : r.header.ttl = 0
    · simp [h0, Record.expired, hl]
    · by_cases h1 : r.header.timestamp + r.header.ttl > now
      · simp [h0, h1, Record.expired, hl]
      · have : r.expired now = true := by rw [expired_iff]; omega
        simp [h0, h1, this, Mem.lookup_erase_self]

theorem get_lookup (s : MemStore) (now : Nat) (k k' : Key) :
    (s.get now k).1.mem.lookup k' = if k' = k then s.vis now k else s.mem.lookup k' := by
  by_cases h : k' = k
  · subst h; simp [get_lookup_self]
  · simp [h, get_lookup_ne s now h]

/-! ### `set` case by case -/

def stamp (r : Record) (c now : Nat) : Record := { r with header := { r.header with cas := c, timestamp := now } }

theorem set_cas0 (s : MemStore) (now : Nat) (k : Key) (r : Record) (h : r.header.cas = 0) :
    s.set now k r = ({ mem := s.mem.insert k (stamp r s.casId now), casId := s.casId + 1 }, .ok s.casId) := by
  simp [set, h, stamp]

theorem set_match (s : MemStore) (now : Nat) (k : Key) (r old : Record) (h : r.header.cas ≠ 0)
    (hl : s.mem.lookup k = some old) (hm : old.header.cas = r.header.cas) :
    s.set now k r = ({ mem := s.mem.insert k (stamp r s.casId now), casId := s.casId + 1 }, .ok s.casId) := by
  have : r.header.cas > 0 := by omega
  simp [set, this, hl, hm, stamp]

theorem set_mismatch (s : MemStore) (now : Nat) (k : Key) (r old : Record) (h : r.header.cas ≠ 0)
    (hl : s.mem.lookup k = some old) (hm : old.header.cas ≠ r.header.cas) :
    s.set now k r = (s, .error .keyExists) := by
  have : r.header.cas > 0 := by omega
  simp [set, this, hl, hm]

def satSucc (c : Nat) : Nat := if c + 1 < U64 then c + 1 else U64MAX

theorem set_absent (s : MemStore) (now : Nat) (k : Key) (r : Record) (h : r.header.cas ≠ 0)
    (hl : s.mem.lookup k = none) :
    s.set now k r = ({ s with mem := s.mem.insert k (stamp r (satSucc r.header.cas) now) }, .ok (satSucc r.header.cas)) := by
  have : r.header.cas > 0 := by omega
  simp [set, this, hl, stamp, satSucc]

/-- the three shapes of a `set` result -/
theorem set_self_cases' (s : MemStore) (now : Nat) (k : Key) (r : Record) :
    s.set now k r = (s, .error .keyExists)
    ∨ s.set now k r = ({ mem := s.mem.insert k (stamp r s.casId now), casId := s.casId + 1 }, .ok s.casId)
    ∨ s.set now k r = ({ s with mem := s.mem.insert k (stamp r (satSucc r.header.cas) now) }, .ok (satSucc r.header.cas)) := by
  by_cases h0 : r.header.cas = 0
  · right; left; exact set_cas0 s now k r h0
  · cases hl : s.mem.lookup k with
    | none => right; right; exact set_absent s now k r h0 hl
    | some old =>
      by_cases hm : old.header.cas = r.header.cas
      · right; left; exact set_match s now k r old h0 hl hm
      · left; exact set_mismatch s now k r old h0 hl hm

theorem set_casId_le (s : MemStore) (now : Nat) (k : Key) (r : Record) : s.casId ≤ (s.set now k r).1.casId := by
  unfold set
  split
  · split
    · split <;> simp
    · simp
  · simp

theorem set_eq_casId_le {s s2 : MemStore} {now : Nat} {k : Key} {r : Record} {res : Except CacheError Nat}
    (h : s.set now k r = (s2, res)) : s.casId ≤ s2.casId := by
  have := set_casId_le s now k r; rw [h] at this; exact this

/-! ### `delete` -/

theorem delete_ok (s : MemStore) (k : Key) (cas : Nat) (r : Record) (hl : s.mem.lookup k = some r)
    (h : cas = 0 ∨ r.header.cas = cas) : s.delete k cas = ({ s with mem := s.mem.erase k }, .ok r) := by
  simp [delete, hl, h]

theorem delete_mismatch (s : MemStore) (k : Key) (cas : Nat) (r : Record) (hl : s.mem.lookup k = some r)
    (h : ¬ (cas = 0 ∨ r.header.cas = cas)) : s.delete k cas = (s, .error .keyExists) := by
  simp [delete, hl, h]

theorem delete_absent (s : MemStore) (k : Key) (cas : Nat) (hl : s.mem.lookup k = none) :
    s.delete k cas = (s, .error .notFound) := by
  simp [delete, hl]

/-! ### `flush` -/

theorem flush_lookup (s : MemStore) (now ttl : Nat) (k : Key) :
    (s.flush now ttl).mem.lookup k = if ttl > 0 then (s.mem.lookup k).map (flushRecord now ttl) else none := by
  unfold flush
  split
  · simp [Mem.lookup_map]
  · simp

end MemStore
end Memc
