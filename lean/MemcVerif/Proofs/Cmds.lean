import MemcVerif.Proofs.Ops
/-! Case analyses of `set` and of the get-then-set commands of `MemcStore`, in terms of what is
    visible (`vis`) when the command starts. -/
namespace Memc
namespace MemStore

theorem get_vis_some {s : MemStore} {now : Nat} {k : Key} {x : Record} (h : s.vis now k = some x) :
    s.get now k = (s, .ok x) := by
  have hx : s.mem.lookup k = some x ∧ x.expired now = false := by
    rw [vis_def] at h
    cases hl : s.mem.lookup k with
    | none => simp [hl] at h
    | some r =>
      simp only [hl] at h
      by_cases he : r.expired now = true
      · simp [he] at h
      · simp [he] at h; subst h; simp [he]
  obtain ⟨hl, he⟩ := hx
  unfold get getByKey
  simp only [hl, checkIfExpired]
  have he' := he
  simp only [Record.expired] at he
  by_cases h0 : x.header.ttl = 0
  · simp [h0]
  · simp [h0] at he
    have : x.header.timestamp + x.header.ttl > now := by omega
    simp [h0, this]

theorem get_vis_none {s : MemStore} {now : Nat} {k : Key} (h : s.vis now k = none) :
    (s.get now k).2 = .error .notFound ∧ (s.get now k).1.mem.lookup k = none := by
  refine ⟨?_, ?_⟩
  · rw [get_result, h]
  · rw [get_lookup_self, h]

/-- everything `set` can do to the key it addresses -/
theorem set_self_cases (s : MemStore) (now : Nat) (k : Key) (r : Record) :
    (s.set now k r = (s, .error .keyExists)
        ∧ ∃ old, s.mem.lookup k = some old ∧ old.header.cas ≠ r.header.cas ∧ r.header.cas ≠ 0)
    ∨ (s.set now k r = ({ mem := s.mem.insert k (stamp r s.casId now), casId := s.casId + 1 }, .ok s.casId)
        ∧ (r.header.cas = 0 ∨ ∃ old, s.mem.lookup k = some old ∧ old.header.cas = r.header.cas))
    ∨ (s.set now k r = ({ s with mem := s.mem.insert k (stamp r (satSucc r.header.cas) now) }, .ok (satSucc r.header.cas))
        ∧ s.mem.lookup k = none ∧ r.header.cas ≠ 0) := by
  by_cases h0 : r.header.cas = 0
  · right; left; exact ⟨set_cas0 s now k r h0, Or.inl h0⟩
  · cases hl : s.mem.lookup k with
    | none => right; right; exact ⟨set_absent s now k r h0 hl, rfl, h0⟩
    | some old =>
      by_cases hm : old.header.cas = r.header.cas
      · right; left; exact ⟨set_match s now k r old h0 hl hm, Or.inr ⟨old, rfl, hm⟩⟩
      · left; exact ⟨set_mismatch s now k r old h0 hl hm, old, rfl, hm, h0⟩

/-- what is visible is what is stored -/
theorem vis_lookup {s : MemStore} {now : Nat} {k : Key} {x : Record} (h : s.vis now k = some x) :
    s.mem.lookup k = some x := by
  rw [vis_def] at h
  cases hl : s.mem.lookup k with
  | none => simp [hl] at h
  | some r =>
    simp only [hl] at h
    by_cases he : r.expired now = true
    · simp [he] at h
    · simp [he] at h; simp [h]

theorem expired_mono {r : Record} {t t' : Nat} (h : r.expired t = true) (hle : t ≤ t') : r.expired t' = true := by
  rw [expired_iff] at *; omega

theorem stamp_fresh_not_expired (r : Record) (c now : Nat) : (stamp r c now).expired now = false := by
  simp only [Record.expired, stamp]
  by_cases h : r.header.ttl = 0
  · simp [h]
  · simp; omega

end MemStore
end Memc
