import MemcVerif.Proofs.Feed
/-! What the decoder does with one complete frame at the head of the buffer. -/
namespace Memc

/-- `fb` is exactly one frame: 24 header octets announcing `h`, followed by `h.bodyLen` body octets -/
structure IsFrame (fb : Bytes) (h : ReqHeader) : Prop where
  len : fb.length = HEADER_LEN + h.bodyLen
  hdr : parseHeader fb = h

theorem frame_split {fb : Bytes} {h : ReqHeader} (hf : IsFrame fb h) (rest : Bytes) :
    ¬ (fb ++ rest).length < HEADER_LEN ∧ parseHeader (fb ++ rest) = h ∧
    (fb ++ rest).drop HEADER_LEN = fb.drop HEADER_LEN ++ rest ∧ (fb.drop HEADER_LEN).length = h.bodyLen := by
  have h24 : HEADER_LEN ≤ fb.length := by rw [hf.len]; omega
  refine ⟨by simp only [List.length_append]; omega, ?_, drop_app_le h24, by simp [hf.len]⟩
  rw [parseHeader_append rest h24, hf.hdr]

/-- a complete frame within the limit whose body parses is emitted and exactly its bytes are consumed -/
theorem decode1_frame (limit : Nat) {fb : Bytes} {h : ReqHeader} (hf : IsFrame fb h) (rest : Bytes)
    (hv : headerValid h = true) (hl : h.bodyLen ≤ limit) :
    decode1 limit .idle (fb ++ rest) =
      match parseBody h (fb.drop HEADER_LEN) with
      | some r => .emit (.frame r) .idle rest
      | none => .emit .protoErr .dead [] := by
  obtain ⟨h1, h2, h3, h4⟩ := frame_split hf rest
  rw [decode1_idle]
  simp only [h1, if_false, h2, hv, Bool.not_true, Bool.false_eq_true, h3]
  rw [bodyStep_eq]
  generalize fb.drop HEADER_LEN = body at h4 ⊢
  have h5 : ¬ h.bodyLen > limit := by omega
  have h6 : ¬ h.bodyLen > (body ++ rest).length := by simp; omega
  simp only [h5, h6, if_false]
  rw [take_app_le (by omega), List.take_of_length_le (by omega), drop_app_le (by omega),
    List.drop_of_length_le (by omega), List.nil_append]
  cases parseBody h body <;> rfl

/-- a complete frame above the limit is refused as a whole and exactly its bytes are discarded -/
theorem decode1_frame_oversize (limit : Nat) {fb : Bytes} {h : ReqHeader} (hf : IsFrame fb h) (rest : Bytes)
    (hv : headerValid h = true) (hl : h.bodyLen > limit) :
    decode1 limit .idle (fb ++ rest) = .emit (.frame (.tooLarge h)) .idle rest := by
  obtain ⟨h1, h2, h3, h4⟩ := frame_split hf rest
  rw [decode1_idle]
  simp only [h1, if_false, h2, hv, Bool.not_true, Bool.false_eq_true, h3]
  rw [bodyStep_eq]
  generalize fb.drop HEADER_LEN = body at h4 ⊢
  have h6 : (body ++ rest).length ≥ h.bodyLen := by simp; omega
  simp only [hl, h6, if_true]
  rw [drop_app_le (by omega), List.drop_of_length_le (by omega), List.nil_append]

/-- an invalid header kills the connection, nothing is emitted for it -/
theorem decode1_bad_header (limit : Nat) (buf : Bytes) (hlen : HEADER_LEN ≤ buf.length)
    (hv : headerValid (parseHeader buf) = false) :
    decode1 limit .idle buf = .emit .protoErr .dead [] := by
  rw [decode1_idle]
  have : ¬ buf.length < HEADER_LEN := by omega
  simp [this, hv]

/-- the event a frame stands for -/
def frameEv (limit : Nat) (fb : Bytes) (h : ReqHeader) : Ev :=
  if h.bodyLen > limit then .frame (.tooLarge h)
  else match parseBody h (fb.drop HEADER_LEN) with
    | some r => .frame r
    | none => .protoErr

def frameOK (limit : Nat) (fb : Bytes) (h : ReqHeader) : Bool :=
  headerValid h && (h.bodyLen > limit || (parseBody h (fb.drop HEADER_LEN)).isSome)

theorem drain_frame (limit : Nat) {fb : Bytes} {h : ReqHeader} (hf : IsFrame fb h) (rest : Bytes)
    (hok : frameOK limit fb h = true) :
    drain limit .idle (fb ++ rest) = (frameEv limit fb h :: (drain limit .idle rest).1, (drain limit .idle rest).2) := by
  simp only [frameOK, Bool.and_eq_true, Bool.or_eq_true, decide_eq_true_eq] at hok
  obtain ⟨hv, hcase⟩ := hok
  rw [drain_eq]
  by_cases hl : h.bodyLen > limit
  · rw [decode1_frame_oversize limit hf rest hv hl]
    simp [frameEv, hl]
  · rcases hcase with hc | hc
    · exact absurd hc hl
    · rw [decode1_frame limit hf rest hv (by omega)]
      cases hp : parseBody h (fb.drop HEADER_LEN) with
      | none => rw [hp] at hc; simp at hc
      | some r => simp [frameEv, hl, hp]

/-- a pipeline of complete, acceptable frames followed by anything: the frames' events in order, then
    whatever the tail decodes to -/
theorem drain_frames (limit : Nat) (frames : List (Bytes × ReqHeader)) (tail : Bytes)
    (hall : ∀ f ∈ frames, IsFrame f.1 f.2 ∧ frameOK limit f.1 f.2 = true) :
    drain limit .idle ((frames.map (·.1)).flatten ++ tail) =
      (frames.map (fun f => frameEv limit f.1 f.2) ++ (drain limit .idle tail).1, (drain limit .idle tail).2) := by
  induction frames with
  | nil => simp
  | cons f rest ih =>
    obtain ⟨hf, hok⟩ := hall f (List.mem_cons_self ..)
    simp only [List.map_cons, List.flatten_cons, List.append_assoc]
    rw [drain_frame limit hf _ hok, ih (fun g hg => hall g (List.mem_cons_of_mem _ hg))]
    simp

end Memc
