import MemcVerif.Model.Bytes
/-! Big-endian put/get round trip. -/
namespace Memc

theorem putBE_length (len n : Nat) : (putBE len n).length = len := by
  induction len generalizing n with
  | zero => rfl
  | succ l ih => simp [putBE, ih]

theorem getBE_acc (bs : Bytes) (a : Nat) :
    bs.foldl (fun acc b => acc * 256 + b.toNat) a = a * 256 ^ bs.length + getBE bs := by
  induction bs generalizing a with
  | nil => simp [getBE]
  | cons b t ih =>
    simp only [List.foldl_cons, List.length_cons, getBE]
    rw [ih (a * 256 + b.toNat), ih (0 * 256 + b.toNat)]
    generalize getBE t = v
    generalize b.toNat = x
    grind

theorem getBE_cons (b : UInt8) (t : Bytes) : getBE (b :: t) = b.toNat * 256 ^ t.length + getBE t := by
  have := getBE_acc t (0 * 256 + b.toNat)
  simp only [getBE, List.foldl_cons] at this ⊢
  rw [this]; simp

theorem getBE_putBE (len n : Nat) : getBE (putBE len n) = n % 256 ^ len := by
  induction len generalizing n with
  | zero => simp [putBE, getBE, Nat.mod_one]
  | succ l ih =>
    simp only [putBE]
    rw [getBE_cons, putBE_length, ih, UInt8.toNat_ofNat']
    have h256 : (2 : Nat) ^ 8 = 256 := by decide
    rw [h256, Nat.mod_mod, Nat.pow_succ, Nat.mod_mul (a := 256 ^ l) (b := 256)]
    rw [Nat.mul_comm]; omega

theorem getBE_putBE_of_lt (len n : Nat) (h : n < 256 ^ len) : getBE (putBE len n) = n := by
  rw [getBE_putBE, Nat.mod_eq_of_lt h]

theorem getBE_lt (bs : Bytes) : getBE bs < 256 ^ bs.length := by
  induction bs with
  | nil => simp [getBE]
  | cons b t ih =>
    rw [getBE_cons, List.length_cons, Nat.pow_succ]
    have : b.toNat < 256 := UInt8.toNat_lt b
    have h2 : b.toNat * 256 ^ t.length ≤ 255 * 256 ^ t.length := Nat.mul_le_mul_right _ (by omega)
    omega

end Memc
