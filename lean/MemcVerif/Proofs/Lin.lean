import MemcVerif.Model.Conc
import MemcVerif.Model.Ops
import MemcVerif.Proofs.Cmds
/-!
# Linearization of concurrent get / set / CAS-set / delete (C03)

The run of `Sys` under a schedule is re-read as a **log of atomic events** in the order in which they hit the
store: one event per command at its linearization point (set: the store call; delete: the `remove_if`; get: its
snapshot `get_by_key`, where the answer is decided) plus one internal `collect` event for the second half of a
get that found a record. A collect only removes a record that is expired, i.e. invisible.
-/
namespace Memc
open MemStore

/-- the commands C03 speaks about -/
def CCmd.plain : CCmd → Bool
  | .get _ | .set _ _ | .delete _ _ => true
  | _ => false

inductive Ev
  | cmd (i : Nat) (c : CCmd)
  | collect (k : Key) (snap : Record)
deriving Repr

/-- the answer of a get, decided on the record stored at this moment -/
def answerOf (now : Nat) : Option Record → CRes
  | some r => if r.expired now then .err .notFound else .hit r
  | none => .err .notFound

/-- one atomic event on the store; a command event yields the command's result -/
def Ev.apply (s : MemStore) (now : Nat) : Ev → MemStore × List (Nat × CRes)
  | .cmd i (.get k) => (s, [(i, answerOf now (s.mem.lookup k))])
  | .cmd i (.set k r) => let x := s.set now k r; (x.1, [(i, resOfCas x.2)])
  | .cmd i (.delete k cas) =>
    let x := s.delete k cas
    (x.1, [(i, match x.2 with | .ok _ => .deleted | .error e => .err e)])
  | .cmd i _ => (s, [(i, .done)])
  | .collect k snap => ((s.checkIfExpired now k snap).1, [])

def evStep (now : Nat) (acc : MemStore × List (Nat × CRes)) (e : Ev) : MemStore × List (Nat × CRes) :=
  let x := e.apply acc.1 now
  (x.1, acc.2 ++ x.2)

/-- the events one after the other -/
def runEvs (s : MemStore) (now : Nat) (evs : List Ev) : MemStore × List (Nat × CRes) :=
  evs.foldl (evStep now) (s, [])

theorem runEvs_snoc (s : MemStore) (now : Nat) (evs : List Ev) (e : Ev) :
    runEvs s now (evs ++ [e]) = evStep now (runEvs s now evs) e := by
  simp [runEvs, List.foldl_append]

/-- the commands of thread `i` in the log, in log order -/
def cmdsOf (i : Nat) (log : List Ev) : List CCmd :=
  log.filterMap (fun e => match e with | .cmd j c => if j = i then some c else none | .collect _ _ => none)

/-- the results handed to thread `i`, in log order -/
def outsOf (i : Nat) (outs : List (Nat × CRes)) : List CRes :=
  outs.filterMap (fun p => if p.1 = i then some p.2 else none)

@[simp] theorem cmdsOf_snoc_cmd (i j : Nat) (log : List Ev) (c : CCmd) :
    cmdsOf i (log ++ [.cmd j c]) = cmdsOf i log ++ (if j = i then [c] else []) := by
  simp only [cmdsOf, List.filterMap_append, List.filterMap_cons, List.filterMap_nil]
  split <;> simp_all

@[simp] theorem cmdsOf_snoc_collect (i : Nat) (log : List Ev) (k : Key) (r : Record) :
    cmdsOf i (log ++ [.collect k r]) = cmdsOf i log := by
  simp [cmdsOf, List.filterMap_append]

@[simp] theorem outsOf_append (i : Nat) (a b : List (Nat × CRes)) : outsOf i (a ++ b) = outsOf i a ++ outsOf i b := by
  simp [outsOf, List.filterMap_append]

@[simp] theorem outsOf_nil (i : Nat) : outsOf i [] = [] := rfl

@[simp] theorem outsOf_single (i j : Nat) (r : CRes) : outsOf i [(j, r)] = if j = i then [r] else [] := by
  simp only [outsOf, List.filterMap_cons, List.filterMap_nil]
  split <;> simp_all

/-- the result a thread is already owed: a get between its snapshot and its collection -/
def Thread.pending (t : Thread) (now : Nat) : List CRes :=
  match t.phase with
  | .snapped _ snap => [answerOf now (some snap)]
  | _ => []

/-- how one thread of the running system relates to its initial program and to the log -/
structure TRel (now : Nat) (i : Nat) (t0 t : Thread) (log : List Ev) (outs : List (Nat × CRes)) : Prop where
  todo : t0.todo = cmdsOf i log ++ t.todo
  outs : outsOf i outs = t.results ++ t.pending now
  plain : ∀ c ∈ t.todo, c.plain = true
  phase : t.phase = .idle ∨ ∃ k snap, t.phase = .snapped (.get k) snap

structure Rel (now : Nat) (sys0 sys : Sys) (log : List Ev) : Prop where
  store : sys.store = (runEvs sys0.store now log).1
  len : sys.threads.length = sys0.threads.length
  thr : ∀ i t0 t, sys0.threads[i]? = some t0 → sys.threads[i]? = some t →
          TRel now i t0 t log (runEvs sys0.store now log).2
  plainLog : ∀ i c, Ev.cmd i c ∈ log → c.plain = true

/-- a system about to start: every thread idle, nothing answered yet, programs of plain commands -/
def Sys.fresh (sys : Sys) : Prop :=
  ∀ t ∈ sys.threads, t.phase = .idle ∧ t.results = [] ∧ ∀ c ∈ t.todo, c.plain = true

theorem rel_init (now : Nat) (sys0 : Sys) (h : sys0.fresh) : Rel now sys0 sys0 [] := by
  refine ⟨rfl, rfl, ?_, by simp⟩
  intro i t0 t h0 h1
  rw [h0] at h1; cases h1
  have hm : t0 ∈ sys0.threads := List.mem_of_getElem? h0
  obtain ⟨hp, hr, hpl⟩ := h t0 hm
  exact ⟨by simp [cmdsOf], by simp [runEvs, hr, Thread.pending, hp], hpl, Or.inl hp⟩

theorem checkIfExpired_snd (s : MemStore) (now : Nat) (k : Key) (snap : Record) :
    (s.checkIfExpired now k snap).2 = snap.expired now := by
  unfold checkIfExpired Record.expired
  by_cases h0 : snap.header.ttl = 0
  · simp [h0]
  · by_cases h1 : snap.header.timestamp + snap.header.ttl > now
    · simp [h0, h1]
    · simp [h0, h1]; split <;> (try split) <;> simp [h0]

@[simp] theorem needsSet_get (k : Key) (f : Option Record) : needsSet (.get k) f = false := by
  cases f <;> rfl

@[simp] theorem afterGet_get (s : MemStore) (now : Nat) (k : Key) (f : Option Record) :
    afterGet s now (.get k) f = (s, match f with | some r => .hit r | none => .err .notFound) := by
  cases f <;> rfl

theorem afterFound_get (t : Thread) (s : MemStore) (now : Nat) (k : Key) (f : Option Record) :
    t.afterFound s now (.get k) f =
      (s, { t with phase := .idle, results := t.results ++ [match f with | some r => .hit r | none => .err .notFound] }) := by
  simp [Thread.afterFound]

/-- what the stepping thread does, as an event appended to the log -/
theorem thread_step_event (now : Nat) (i : Nat) (t0 t : Thread) (s : MemStore) (log : List Ev) (outs : List (Nat × CRes))
    (h : TRel now i t0 t log outs) :
    (t.step s now = (s, t) ∧ t.todo = [] ∧ t.phase = .idle) ∨
    ∃ e : Ev, (t.step s now).1 = (e.apply s now).1 ∧
      TRel now i t0 (t.step s now).2 (log ++ [e]) (outs ++ (e.apply s now).2) ∧
      (∀ j, j ≠ i → cmdsOf j (log ++ [e]) = cmdsOf j log ∧ outsOf j (e.apply s now).2 = []) ∧
      (∀ j c, e = .cmd j c → c.plain = true) := by
  obtain ⟨htodo, houts, hplain, hphase⟩ := h
  rcases hphase with hp | ⟨k, snap, hp⟩
  · -- idle
    cases ht : t.todo with
    | nil => left; simp [Thread.step, hp, ht]
    | cons c rest =>
      right
      have hc : c.plain = true := hplain c (by simp [ht])
      have hrest : ∀ c ∈ rest, c.plain = true := fun x hx => hplain x (by simp [ht, hx])
      have hpend : t.pending now = [] := by simp [Thread.pending, hp]
      rw [hpend, List.append_nil] at houts
      cases c with
      | set k r =>
        refine ⟨.cmd i (.set k r), ?_, ⟨?_, ?_, ?_, ?_⟩, ?_, ?_⟩
        · simp [Thread.step, hp, ht, Ev.apply]
        · simp [Thread.step, hp, ht, htodo]
        · simp [Thread.step, hp, ht, Ev.apply, houts, Thread.pending]
        · simpa [Thread.step, hp, ht] using hrest
        · left; simp [Thread.step, hp, ht]
        · intro j hj; simp [Ev.apply, Ne.symm hj]
        · intro j c h; cases h; rfl
      | delete k cas =>
        refine ⟨.cmd i (.delete k cas), ?_, ⟨?_, ?_, ?_, ?_⟩, ?_, ?_⟩
        · simp [Thread.step, hp, ht, Ev.apply]
        · simp [Thread.step, hp, ht, htodo]
        · simp [Thread.step, hp, ht, Ev.apply, houts, Thread.pending]; rfl
        · simpa [Thread.step, hp, ht] using hrest
        · left; simp [Thread.step, hp, ht]
        · intro j hj; simp [Ev.apply, Ne.symm hj]
        · intro j c h; cases h; rfl
      | get k =>
        refine ⟨.cmd i (.get k), ?_, ?_, ?_, ?_⟩
        · simp only [Thread.step, hp, ht, CCmd.key, getByKey, Ev.apply]
          cases hl : s.mem.lookup k with
          | none => simp [afterFound_get]
          | some r => simp
        · simp only [Thread.step, hp, ht, CCmd.key, getByKey, Ev.apply]
          cases hl : s.mem.lookup k with
          | none =>
            refine ⟨?_, ?_, ?_, ?_⟩
            · simp [afterFound_get, htodo, ht]
            · simp [afterFound_get, houts, Thread.pending, answerOf]
            · simpa [afterFound_get] using hrest
            · left; simp [afterFound_get]
          | some r =>
            refine ⟨?_, ?_, ?_, ?_⟩
            · simp [htodo, ht]
            · simp [houts, Thread.pending]
            · simpa using hrest
            · right; exact ⟨k, r, rfl⟩
        · intro j hj; simp [Ev.apply, Ne.symm hj]
        · intro j c h; cases h; rfl
      | flush _ => simp [CCmd.plain] at hc
      | add _ _ => simp [CCmd.plain] at hc
      | replace _ _ => simp [CCmd.plain] at hc
      | append _ _ => simp [CCmd.plain] at hc
      | prepend _ _ => simp [CCmd.plain] at hc
      | delta _ _ _ _ _ => simp [CCmd.plain] at hc
  · -- between snapshot and collection
    right
    refine ⟨.collect k snap, ?_, ⟨?_, ?_, ?_, ?_⟩, ?_, ?_⟩
    · simp [Thread.step, hp, CCmd.key, Ev.apply, afterFound_get]
    · simp [Thread.step, hp, CCmd.key, afterFound_get, htodo]
    · simp only [Thread.step, hp, CCmd.key, afterFound_get, Ev.apply, List.append_nil, houts,
        Thread.pending, answerOf, checkIfExpired_snd]
      by_cases he : snap.expired now = true
      · simp [he]
      · simp [he]
    · simpa [Thread.step, hp, CCmd.key, afterFound_get] using hplain
    · left; simp [Thread.step, hp, CCmd.key, afterFound_get]
    · intro j _; simp [Ev.apply]
    · intro j c h; cases h

/-- one scheduler step keeps the system explained by a log (extended by at most one event) -/
theorem rel_step (now : Nat) (sys0 sys : Sys) (log : List Ev) (i : Nat) (h : Rel now sys0 sys log) :
    ∃ log', Rel now sys0 (sys.step now i) log' := by
  unfold Sys.step
  cases hti : sys.threads[i]? with
  | none => exact ⟨log, h⟩
  | some t =>
    simp only
    have hi : i < sys.threads.length := by
      rcases Nat.lt_or_ge i sys.threads.length with h' | h'
      · exact h'
      · rw [List.getElem?_eq_none h'] at hti; cases hti
    have hi0 : i < sys0.threads.length := h.len ▸ hi
    have ht0 : sys0.threads[i]? = some sys0.threads[i] := List.getElem?_eq_getElem hi0
    have hrel := h.thr i _ t ht0 hti
    rcases thread_step_event now i _ t sys.store log _ hrel with ⟨hs, _, _⟩ | ⟨e, hst, hrel', hoth, hpe⟩
    · refine ⟨log, ?_⟩
      rw [hs]
      refine ⟨h.store, by simp [h.len], ?_, h.plainLog⟩
      intro j t0 tj h0 hj
      by_cases hji : j = i
      · subst hji
        simp [hi] at hj
        subst hj; rw [ht0] at h0; cases h0; exact hrel
      · rw [List.getElem?_set_ne (Ne.symm hji)] at hj
        exact h.thr j t0 tj h0 hj
    · refine ⟨log ++ [e], ?_⟩
      have hrun : runEvs sys0.store now (log ++ [e]) =
          ((e.apply sys.store now).1, (runEvs sys0.store now log).2 ++ (e.apply sys.store now).2) := by
        rw [runEvs_snoc, evStep, ← h.store]
      refine ⟨by rw [hrun, hst], by simp [h.len], ?_, ?_⟩
      rotate_left
      · intro j c hm
        rcases List.mem_append.mp hm with hm | hm
        · exact h.plainLog j c hm
        · simp at hm; exact hpe j c hm.symm
      intro j t0 tj h0 hj
      rw [hrun]
      by_cases hji : j = i
      · subst hji
        simp [hi] at hj
        subst hj; rw [ht0] at h0; cases h0; exact hrel'
      · rw [List.getElem?_set_ne (Ne.symm hji)] at hj
        obtain ⟨a, b, c, d⟩ := h.thr j t0 tj h0 hj
        obtain ⟨h1, h2⟩ := hoth j hji
        exact ⟨by rw [h1]; exact a, by simp [h2, b], c, d⟩

theorem rel_run (now : Nat) (sys0 : Sys) (sched : List Nat) :
    ∀ sys log, Rel now sys0 sys log → ∃ log', Rel now sys0 (sys.run now sched) log' := by
  induction sched with
  | nil => intro sys log h; exact ⟨log, h⟩
  | cons i rest ih =>
    intro sys log h
    obtain ⟨log', h'⟩ := rel_step now sys0 sys log i h
    exact ih _ log' h'

/-! ## from the event log to the one-at-a-time model (`applyOp`) -/

def CCmd.toOp : CCmd → Op
  | .get k => .get k
  | .set k r => .set k r
  | .delete k cas => .delete k cas
  | .flush ttl => .flush ttl
  | .add k r => .add k r
  | .replace k r => .replace k r
  | .append k r => .append k r
  | .prepend k r => .prepend k r
  | .delta k h d i inc => .delta k h d i inc

def CRes.toRes : CRes → Res
  | .hit r => .record r
  | .stored c => .stored c
  | .counter c v => .counter ⟨c, v⟩
  | .deleted => .deleted
  | .done => .unit
  | .err e => .err e

/-- one-at-a-time execution of tagged commands by the sequential model -/
def runSeq (s : MemStore) (now : Nat) (cs : List (Nat × CCmd)) : MemStore × List (Nat × Res) :=
  cs.foldl (fun acc p => let x := applyOp acc.1 now p.2.toOp; (x.1, acc.2 ++ [(p.1, x.2)])) (s, [])

theorem runSeq_snoc (s : MemStore) (now : Nat) (cs : List (Nat × CCmd)) (p : Nat × CCmd) :
    runSeq s now (cs ++ [p]) =
      ((applyOp (runSeq s now cs).1 now p.2.toOp).1, (runSeq s now cs).2 ++ [(p.1, (applyOp (runSeq s now cs).1 now p.2.toOp).2)]) := by
  simp [runSeq, List.foldl_append]

/-- the command events of a log -/
def linOf (log : List Ev) : List (Nat × CCmd) :=
  log.filterMap (fun e => match e with | .cmd i c => some (i, c) | .collect _ _ => none)

/-- nothing stored is expired at `now` -/
def AllLive (s : MemStore) (now : Nat) : Prop := ∀ k r, s.mem.lookup k = some r → r.expired now = false

theorem allLive_collect {s : MemStore} {now : Nat} (h : AllLive s now) (k : Key) (snap : Record) :
    (s.checkIfExpired now k snap).1 = s := by
  unfold checkIfExpired
  split
  · rfl
  · split
    · rfl
    · cases hl : s.mem.lookup k with
      | none => rfl
      | some st => simp [h k st hl]

theorem allLive_set {s : MemStore} {now : Nat} (h : AllLive s now) (k : Key) (r : Record) :
    AllLive (s.set now k r).1 now := by
  intro k' r' hl
  by_cases hk : k' = k
  · subst hk
    rcases set_self_cases s now k' r with ⟨h1, _⟩ | ⟨h1, _⟩ | ⟨h1, _⟩
    · rw [h1] at hl; exact h _ _ hl
    · rw [h1] at hl; simp [Mem.lookup_insert_self] at hl; subst hl; exact stamp_fresh_not_expired _ _ _
    · rw [h1] at hl; simp [Mem.lookup_insert_self] at hl; subst hl; exact stamp_fresh_not_expired _ _ _
  · rw [set_lookup_ne s now r hk] at hl; exact h _ _ hl

theorem allLive_delete {s : MemStore} {now : Nat} (h : AllLive s now) (k : Key) (cas : Nat) :
    AllLive (s.delete k cas).1 now := by
  intro k' r' hl
  by_cases hk : k' = k
  · subst hk
    unfold delete at hl
    cases hl0 : s.mem.lookup k' with
    | none => simp [hl0] at hl
    | some old =>
      simp only [hl0] at hl
      split at hl
      · simp [Mem.lookup_erase_self] at hl
      · exact h _ _ hl
  · rw [delete_lookup_ne s cas hk] at hl; exact h _ _ hl

theorem get_allLive {s : MemStore} {now : Nat} (h : AllLive s now) (k : Key) :
    applyOp s now (.get k) = (s, (answerOf now (s.mem.lookup k)).toRes) := by
  simp only [applyOp]
  cases hl : s.mem.lookup k with
  | none =>
    have : s.get now k = (s, .error .notFound) := by simp [MemStore.get, getByKey, hl]
    rw [this]; simp [answerOf, CRes.toRes]
  | some r =>
    have hv : s.vis now k = some r := by rw [vis_def, hl]; simp [h k r hl]
    rw [get_vis_some hv]; simp [answerOf, h k r hl, CRes.toRes]

theorem applyOp_delete (s : MemStore) (now : Nat) (k : Key) (cas : Nat) :
    applyOp s now (.delete k cas) =
      ((s.delete k cas).1, match (s.delete k cas).2 with | .ok _ => .deleted | .error e => .err e) := by
  simp only [applyOp]
  cases h : s.delete k cas with
  | mk s' r => cases r <;> simp

theorem snoc_induction {α : Type} {P : List α → Prop} (h0 : P []) (h1 : ∀ l a, P l → P (l ++ [a])) (l : List α) : P l := by
  have : ∀ l : List α, P l.reverse := by
    intro l
    induction l with
    | nil => exact h0
    | cons a l ih => rw [List.reverse_cons]; exact h1 _ _ ih
  simpa using this l.reverse

/-- with nothing expired in sight, the event log is the sequential model run on its command events -/
theorem runEvs_eq_runSeq (now : Nat) (log : List Ev) (hpl : ∀ i c, Ev.cmd i c ∈ log → c.plain = true) :
    ∀ s, AllLive s now →
      (runEvs s now log).1 = (runSeq s now (linOf log)).1 ∧
      (runEvs s now log).2.map (fun p => (p.1, p.2.toRes)) = (runSeq s now (linOf log)).2 ∧
      AllLive (runEvs s now log).1 now := by
  intro s hs
  induction log using snoc_induction with
  | h0 => simp [runEvs, runSeq, linOf, hs]
  | h1 log e ih =>
    have ih' := ih (fun i c hm => hpl i c (by simp [hm]))
    obtain ⟨h1, h2, h3⟩ := ih'
    rw [runEvs_snoc, evStep]
    cases e with
    | collect k snap =>
      have hl : linOf (log ++ [Ev.collect k snap]) = linOf log := by simp [linOf, List.filterMap_append]
      rw [hl]
      simp only [Ev.apply, List.append_nil, allLive_collect h3]
      exact ⟨h1, h2, h3⟩
    | cmd i c =>
      have hl : linOf (log ++ [Ev.cmd i c]) = linOf log ++ [(i, c)] := by simp [linOf, List.filterMap_append]
      rw [hl, runSeq_snoc, ← h1]
      have hc : c.plain = true := hpl i c (by simp)
      cases c with
      | get k =>
        simp only [Ev.apply, CCmd.toOp, get_allLive h3, List.map_append, h2]
        exact ⟨trivial, by simp, h3⟩
      | set k r =>
        simp only [Ev.apply, CCmd.toOp, applyOp, List.map_append, h2]
        refine ⟨trivial, ?_, allLive_set h3 k r⟩
        cases (set (runEvs s now log).1 now k r).2 <;> simp [resOfCas, Res.ofCas, CRes.toRes]
      | delete k cas =>
        simp only [Ev.apply, CCmd.toOp, applyOp_delete, List.map_append, h2]
        refine ⟨trivial, ?_, allLive_delete h3 k cas⟩
        cases (delete (runEvs s now log).1 k cas).2 <;> simp [CRes.toRes]
      | flush _ => simp [CCmd.plain] at hc
      | add _ _ => simp [CCmd.plain] at hc
      | replace _ _ => simp [CCmd.plain] at hc
      | append _ _ => simp [CCmd.plain] at hc
      | prepend _ _ => simp [CCmd.plain] at hc
      | delta _ _ _ _ _ => simp [CCmd.plain] at hc

end Memc
