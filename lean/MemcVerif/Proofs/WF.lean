import MemcVerif.Proofs.Policy
/-! The association list behind `Mem` never holds two entries for one key (`insert` erases first), so erasing a
    present key frees exactly the size of the record `lookup` returns. -/
namespace Memc

def Mem.WF : Mem → Prop
  | [] => True
  | e :: m => Mem.lookup m e.1 = none ∧ Mem.WF m

theorem Mem.erase_absent' (m : Mem) (k : Key) (h : m.lookup k = none) : m.erase k = m := by
  induction m with
  | nil => rfl
  | cons e m ih =>
    obtain ⟨k', r⟩ := e
    rw [Mem.lookup_cons] at h
    by_cases hk : k' = k
    · simp [hk] at h
    · simp [hk] at h
      rw [Mem.erase_cons]; simp [hk, ih h]

theorem Mem.WF_erase (m : Mem) (k : Key) (h : m.WF) : (m.erase k).WF := by
  induction m with
  | nil => trivial
  | cons e m ih =>
    obtain ⟨k', r⟩ := e
    obtain ⟨h1, h2⟩ := h
    rw [Mem.erase_cons]
    by_cases hk : k' = k
    · simp only [hk, if_true]
      simp only [hk] at h1
      rw [Mem.erase_absent' m k h1]; exact h2
    · simp only [hk, if_false]
      refine ⟨?_, ih h2⟩
      show Mem.lookup (Mem.erase m k) k' = none
      rw [Mem.lookup_erase_ne m hk]; exact h1

theorem Mem.WF_insert (m : Mem) (k : Key) (r : Record) (h : m.WF) : (m.insert k r).WF :=
  ⟨Mem.lookup_erase_self m k, Mem.WF_erase m k h⟩

theorem Mem.WF_map (m : Mem) (f : Record → Record) (h : m.WF) : Mem.WF (m.map (fun e => (e.1, f e.2))) := by
  induction m with
  | nil => trivial
  | cons e m ih =>
    obtain ⟨h1, h2⟩ := h
    refine ⟨?_, ih h2⟩
    show Mem.lookup (m.map (fun e => (e.1, f e.2))) e.1 = none
    rw [Mem.lookup_map, h1]; rfl

/-- erasing a present key frees exactly its record -/
theorem Mem.bytes_erase_exact (m : Mem) (k : Key) (r : Record) (h : m.WF) (hl : m.lookup k = some r) :
    (m.erase k).bytes + r.len = m.bytes := by
  induction m with
  | nil => simp at hl
  | cons e m ih =>
    obtain ⟨k', r'⟩ := e
    obtain ⟨h1, h2⟩ := h
    rw [Mem.lookup_cons] at hl
    rw [Mem.erase_cons]
    by_cases hk : k' = k
    · simp only [hk, if_true] at hl ⊢
      simp only [hk] at h1
      simp only [Option.some.injEq] at hl
      subst hl
      rw [Mem.erase_absent' m k h1]
      simp [Mem.bytes_cons]; omega
    · simp only [hk, if_false] at hl ⊢
      have := ih h2 hl
      simp only [Mem.bytes_cons]; omega

theorem Mem.bytes_erase_absent (m : Mem) (k : Key) (hl : m.lookup k = none) : (m.erase k).bytes = m.bytes := by
  rw [Mem.erase_absent' m k hl]

/-! the store's calls keep the list well formed -/

theorem MemStore.WF_set (s : MemStore) (now : Nat) (k : Key) (r : Record) (h : s.mem.WF) : (s.set now k r).1.mem.WF := by
  rcases MemStore.set_self_cases' s now k r with h1 | h1 | h1 <;> rw [h1]
  · exact h
  · exact Mem.WF_insert _ _ _ h
  · exact Mem.WF_insert _ _ _ h

theorem MemStore.WF_delete (s : MemStore) (k : Key) (cas : Nat) (h : s.mem.WF) : (s.delete k cas).1.mem.WF := by
  cases hl : s.mem.lookup k with
  | none => rw [MemStore.delete_absent _ _ _ hl]; exact h
  | some r =>
    by_cases hc : cas = 0 ∨ r.header.cas = cas
    · rw [MemStore.delete_ok _ _ _ r hl hc]; exact Mem.WF_erase _ _ h
    · rw [MemStore.delete_mismatch _ _ _ r hl hc]; exact h

theorem MemStore.WF_get (s : MemStore) (now : Nat) (k : Key) (h : s.mem.WF) : (s.get now k).1.mem.WF := by
  unfold MemStore.get MemStore.getByKey
  cases hl : s.mem.lookup k with
  | none => simpa using h
  | some r =>
    simp only [MemStore.checkIfExpired, hl]
    split
    · simpa using h
    · split
      · simpa using h
      · split
        · simp; exact Mem.WF_erase _ _ h
        · simpa using h

theorem MemStore.WF_flush (s : MemStore) (now ttl : Nat) (h : s.mem.WF) : (s.flush now ttl).mem.WF := by
  unfold MemStore.flush
  split
  · exact Mem.WF_map _ _ h
  · trivial

end Memc
