import MemcVerif.Model.Conn
/-! Two `Cache` implementations related by a simulation give the same responses to every request, the same
    bytes on every connection. `ok` is a sticky "nothing went wrong so far" flag on the first one (for the
    eviction policy: nothing was evicted); the relation only has to be kept while it holds. -/
namespace Memc

structure Sim {σ₁ σ₂ : Type} (C₁ : CacheOps σ₁) (C₂ : CacheOps σ₂) (R : σ₁ → σ₂ → Prop) (ok : σ₁ → Prop) : Prop where
  get_sticky : ∀ a n k, ¬ ok a → ¬ ok (C₁.get a n k).1
  set_sticky : ∀ a n k r, ¬ ok a → ¬ ok (C₁.set a n k r).1
  delete_sticky : ∀ a k c, ¬ ok a → ¬ ok (C₁.delete a k c).1
  flush_sticky : ∀ a n t, ¬ ok a → ¬ ok (C₁.flush a n t)
  get : ∀ a b n k, R a b → ok (C₁.get a n k).1 → R (C₁.get a n k).1 (C₂.get b n k).1 ∧ (C₁.get a n k).2 = (C₂.get b n k).2
  set : ∀ a b n k r, R a b → ok (C₁.set a n k r).1 → R (C₁.set a n k r).1 (C₂.set b n k r).1 ∧ (C₁.set a n k r).2 = (C₂.set b n k r).2
  delete : ∀ a b k c, R a b → ok (C₁.delete a k c).1 → R (C₁.delete a k c).1 (C₂.delete b k c).1 ∧ (C₁.delete a k c).2 = (C₂.delete b k c).2
  flush : ∀ a b n t, R a b → ok (C₁.flush a n t) → R (C₁.flush a n t) (C₂.flush b n t)

section
variable {σ₁ σ₂ : Type} {C₁ : CacheOps σ₁} {C₂ : CacheOps σ₂} {R : σ₁ → σ₂ → Prop} {ok : σ₁ → Prop}

/-- the shape shared by every `MemcStore` command: one `get`, then at most one `set` chosen from the result -/
def getThen {σ : Type} {α : Type} (C : CacheOps σ) (s : σ) (now : Nat) (k : Key)
    (f : Except CacheError Record → Option Record) (g : Except CacheError Record → Except CacheError Nat → α) : σ × α :=
  let x := C.get s now k
  match f x.2 with
  | some r => let y := C.set x.1 now k r; (y.1, g x.2 y.2)
  | none => (x.1, g x.2 (.error .internalError))

theorem getThen_sticky (S : Sim C₁ C₂ R ok) {α : Type} (a : σ₁) (now : Nat) (k : Key) (f) (g : _ → _ → α)
    (h : ¬ ok a) : ¬ ok (getThen C₁ a now k f g).1 := by
  unfold getThen
  have h1 := S.get_sticky a now k h
  cases hf : f (C₁.get a now k).2 with
  | none => simpa [hf] using h1
  | some r => simpa [hf] using S.set_sticky _ now k r h1

theorem getThen_sim (S : Sim C₁ C₂ R ok) {α : Type} (a : σ₁) (b : σ₂) (now : Nat) (k : Key) (f) (g : _ → _ → α)
    (hR : R a b) (hok : ok (getThen C₁ a now k f g).1) :
    R (getThen C₁ a now k f g).1 (getThen C₂ b now k f g).1 ∧ (getThen C₁ a now k f g).2 = (getThen C₂ b now k f g).2 := by
  unfold getThen at *
  cases hf : f (C₁.get a now k).2 with
  | none =>
    simp only [hf] at hok ⊢
    obtain ⟨h1, h2⟩ := S.get a b now k hR hok
    rw [← h2, hf]
    exact ⟨h1, rfl⟩
  | some r =>
    simp only [hf] at hok ⊢
    have hokg : ok (C₁.get a now k).1 := Classical.byContradiction fun hn => S.set_sticky _ now k r hn hok
    obtain ⟨h1, h2⟩ := S.get a b now k hR hokg
    rw [← h2, hf]
    obtain ⟨h3, h4⟩ := S.set _ _ now k r h1 hok
    simp only
    rw [← h4]
    exact ⟨h3, rfl⟩


/-! every `MemcStore` command is of that shape, with `f`/`g` that do not mention the cache -/

theorem add_shape {σ : Type} (C : CacheOps σ) (s : σ) (now : Nat) (k : Key) (r : Record) :
    Cmd.add C s now k r = getThen C s now k
      (fun res => match res with | .ok _ => none | .error _ => some r)
      (fun res sres => match res with | .ok _ => .error .keyExists | .error _ => sres) := by
  unfold Cmd.add getThen
  rcases h : C.get s now k with ⟨s', res⟩
  cases res <;> rfl

theorem replace_shape {σ : Type} (C : CacheOps σ) (s : σ) (now : Nat) (k : Key) (r : Record) :
    Cmd.replace C s now k r = getThen C s now k
      (fun res => match res with | .ok _ => some r | .error _ => none)
      (fun res sres => match res with | .ok _ => sres | .error _ => .error .notFound) := by
  unfold Cmd.replace getThen
  rcases h : C.get s now k with ⟨s', res⟩
  cases res <;> rfl

theorem append_shape {σ : Type} (C : CacheOps σ) (s : σ) (now : Nat) (k : Key) (nr : Record) :
    Cmd.append C s now k nr = getThen C s now k
      (fun res => match res with
        | .ok rec => some { header := { rec.header with cas := nr.header.cas }, value := rec.value ++ nr.value }
        | .error _ => none)
      (fun res sres => match res with | .ok _ => sres | .error _ => .error .notFound) := by
  unfold Cmd.append getThen
  rcases h : C.get s now k with ⟨s', res⟩
  cases res <;> rfl

theorem prepend_shape {σ : Type} (C : CacheOps σ) (s : σ) (now : Nat) (k : Key) (nr : Record) :
    Cmd.prepend C s now k nr = getThen C s now k
      (fun res => match res with
        | .ok rec => some { header := { rec.header with cas := nr.header.cas }, value := nr.value ++ rec.value }
        | .error _ => none)
      (fun res sres => match res with | .ok _ => sres | .error _ => .error .notFound) := by
  unfold Cmd.prepend getThen
  rcases h : C.get s now k with ⟨s', res⟩
  cases res <;> rfl

def deltaNew (increment : Bool) (delta v : Nat) : Nat :=
  if increment then (v + delta) % U64 else if delta > v then 0 else v - delta

theorem addDelta_shape {σ : Type} (C : CacheOps σ) (s : σ) (now : Nat) (header : Meta) (k : Key)
    (delta initial : Nat) (increment : Bool) :
    Cmd.addDelta C s now header k delta initial increment = getThen C s now k
      (fun res => match res with
        | .ok rec => match parseU64 rec.value with
          | none => none
          | some v => some { header := { header with flags := rec.header.flags }, value := toDec (deltaNew increment delta v) }
        | .error _ => if header.ttl ≠ 0xffffffff then some (Record.new (toDec initial) 0 0 header.ttl) else none)
      (fun res sres => match res with
        | .ok rec => match parseU64 rec.value with
          | none => .error .arithOnNonNumeric
          | some v => match sres with
            | .ok c => .ok ⟨c, deltaNew increment delta v⟩
            | .error e => .error e
        | .error _ => if header.ttl ≠ 0xffffffff then
            match sres with
            | .ok c => .ok ⟨c, initial⟩
            | .error e => .error e
          else .error .notFound) := by
  unfold Cmd.addDelta getThen
  rcases h : C.get s now k with ⟨s', res⟩
  cases res with
  | error e =>
    by_cases ht : header.ttl ≠ 0xffffffff
    · simp only [if_pos ht]
      rcases h2 : C.set s' now k (Record.new (toDec initial) 0 0 header.ttl) with ⟨s'', sres⟩
      cases sres <;> rfl
    · simp only [if_neg ht]
  | ok rec =>
    cases hp : parseU64 rec.value with
    | none => simp only [hp]
    | some v =>
      simp only [hp, deltaNew]
      rcases h2 : C.set s' now k _ with ⟨s'', sres⟩
      cases sres <;> rfl


/-- the storage part of a request: new cache state and the command's result, before the response is built -/
inductive CoreRes
  | rcd (r : Except CacheError Record)
  | cas (r : Except CacheError Nat)
  | delta (r : Except CacheError DeltaResult)
  | none

def core {σ : Type} (C : CacheOps σ) (s : σ) (now : Nat) (req : Req) : σ × CoreRes :=
  let h := req.header
  match req with
  | .get _ key => let x := C.get s now key; (x.1, .rcd x.2)
  | .delete _ key => let x := C.delete s key h.cas; (x.1, .rcd x.2)
  | .set _ flags exp key value =>
    let nr := Record.new value h.cas flags exp
    let x := if isSetOp h.opcode then C.set s now key nr
      else if isAddOp h.opcode then Cmd.add C s now key nr
      else Cmd.replace C s now key nr
    (x.1, .cas x.2)
  | .append _ key value =>
    let nr := Record.new value h.cas 0 0
    let x := if isAppendOp h.opcode then Cmd.append C s now key nr else Cmd.prepend C s now key nr
    (x.1, .cas x.2)
  | .delta _ delta initial exp key =>
    let x := Cmd.addDelta C s now (Meta.new h.cas h.opaq exp) key delta initial (isIncrOp h.opcode)
    (x.1, .delta x.2)
  | .flush _ exp => (C.flush s now exp, .none)
  | .headerOnly _ | .tooLarge _ | .notSupported _ => (s, .none)

/-- the response as a function of the request and the storage result alone -/
def build (req : Req) (res : CoreRes) : Option Resp :=
  let h := req.header
  let rh : RespHeader := { opcode := h.opcode, opaq := h.opaq }
  match req, res with
  | .get _ key, .rcd res =>
    let resp : Resp :=
      match res with
      | .ok rec =>
        let k : Bytes := if getKeyOp h.opcode then key else []
        .get { rh with bodyLen := rec.value.length + 4 + k.length, keyLen := k.length, extrasLen := 4,
                        cas := rec.header.cas } rec.header.flags k rec.value
      | .error e => errorResp e rh
    if quietGetOp h.opcode then intoQuietGet resp else some resp
  | .delete _ _, .rcd res =>
    let resp : Resp := match res with
      | .ok _ => .plain rh
      | .error e => errorResp e rh
    if quietDeleteOp h.opcode then intoQuietMutation resp else some resp
  | .set _ _ _ _ _, .cas res =>
    let resp := statusResp rh res
    if quietSetOp h.opcode then intoQuietMutation resp else some resp
  | .append _ _ _, .cas res =>
    let resp := statusResp rh res
    if quietAppendOp h.opcode then intoQuietMutation resp else some resp
  | .delta _ _ _ _ _, .delta res =>
    let resp : Resp := match res with
      | .ok d => .counter { rh with bodyLen := 8, cas := d.cas } d.value
      | .error e => errorResp e rh
    if quietDeltaOp h.opcode then intoQuietMutation resp else some resp
  | .headerOnly _, _ =>
    if h.opcode = 0x0a then some (.plain rh)
    else if h.opcode = 0x07 then some (.quit rh)
    else if h.opcode = 0x17 then none
    else some (.version { rh with bodyLen := VERSION.length } VERSION)
  | .flush _ _, _ => if quietFlushOp h.opcode then none else some (.plain rh)
  | .tooLarge _, _ => some (errorResp .valueTooLarge rh)
  | .notSupported _, _ => some (errorResp .notSupported rh)
  | _, _ => none

/-- `handle_request` for **every** cache: run the storage part, build the response from its result -/
theorem handleRequest_core {σ : Type} (C : CacheOps σ) (s : σ) (now : Nat) (req : Req) :
    handleRequest C s now req = ((core C s now req).1, build req (core C s now req).2) := by
  cases req with
  | headerOnly hd =>
    simp only [handleRequest, core, build, Req.header]
    by_cases h1 : hd.opcode = 0x0a
    · simp [h1]
    · by_cases h2 : hd.opcode = 0x07
      · simp [h2]
      · by_cases h3 : hd.opcode = 0x17 <;> simp [h1, h2, h3]
  | _ => rfl


theorem core_sticky (S : Sim C₁ C₂ R ok) (a : σ₁) (now : Nat) (req : Req) (h : ¬ ok a) :
    ¬ ok (core C₁ a now req).1 := by
  cases req with
  | get hd key => exact S.get_sticky a now key h
  | delete hd key => exact S.delete_sticky a key _ h
  | set hd flags exp key value =>
    simp only [core]
    by_cases h1 : isSetOp hd.opcode = true
    · simp only [Req.header, h1, if_true]; exact S.set_sticky a now key _ h
    · by_cases h2 : isAddOp hd.opcode = true
      · simp only [Req.header, h1, h2, if_true, if_false, Bool.false_eq_true, ↓reduceIte, add_shape]; exact getThen_sticky S a now key _ _ h
      · simp only [Req.header, h1, h2, if_false, Bool.false_eq_true, ↓reduceIte, replace_shape]; exact getThen_sticky S a now key _ _ h
  | append hd key value =>
    simp only [core]
    by_cases h1 : isAppendOp hd.opcode = true
    · simp only [Req.header, h1, if_true, append_shape]; exact getThen_sticky S a now key _ _ h
    · simp only [Req.header, h1, if_false, Bool.false_eq_true, ↓reduceIte, prepend_shape]; exact getThen_sticky S a now key _ _ h
  | delta hd d i exp key =>
    simp only [core, addDelta_shape]; exact getThen_sticky S a now key _ _ h
  | flush hd exp => exact S.flush_sticky a now exp h
  | headerOnly hd => exact h
  | tooLarge hd => exact h
  | notSupported hd => exact h

theorem core_sim (S : Sim C₁ C₂ R ok) (a : σ₁) (b : σ₂) (now : Nat) (req : Req) (hR : R a b)
    (hok : ok (core C₁ a now req).1) :
    R (core C₁ a now req).1 (core C₂ b now req).1 ∧ (core C₁ a now req).2 = (core C₂ b now req).2 := by
  cases req with
  | get hd key =>
    obtain ⟨h1, h2⟩ := S.get a b now key hR hok
    exact ⟨h1, by simp only [core]; rw [h2]⟩
  | delete hd key =>
    obtain ⟨h1, h2⟩ := S.delete a b key _ hR hok
    exact ⟨h1, by simp only [core]; rw [h2]⟩
  | set hd flags exp key value =>
    simp only [core] at hok ⊢
    by_cases h1 : isSetOp hd.opcode = true
    · simp only [Req.header, h1, if_true] at hok ⊢
      obtain ⟨h3, h4⟩ := S.set a b now key _ hR hok
      exact ⟨h3, by rw [h4]⟩
    · by_cases h2 : isAddOp hd.opcode = true
      · simp only [Req.header, h1, h2, if_true, if_false, Bool.false_eq_true, ↓reduceIte, add_shape] at hok ⊢
        obtain ⟨h3, h4⟩ := getThen_sim S a b now key _ _ hR hok
        exact ⟨h3, by rw [h4]⟩
      · simp only [Req.header, h1, h2, if_false, Bool.false_eq_true, ↓reduceIte, replace_shape] at hok ⊢
        obtain ⟨h3, h4⟩ := getThen_sim S a b now key _ _ hR hok
        exact ⟨h3, by rw [h4]⟩
  | append hd key value =>
    simp only [core] at hok ⊢
    by_cases h1 : isAppendOp hd.opcode = true
    · simp only [Req.header, h1, if_true, append_shape] at hok ⊢
      obtain ⟨h3, h4⟩ := getThen_sim S a b now key _ _ hR hok
      exact ⟨h3, by rw [h4]⟩
    · simp only [Req.header, h1, if_false, Bool.false_eq_true, ↓reduceIte, prepend_shape] at hok ⊢
      obtain ⟨h3, h4⟩ := getThen_sim S a b now key _ _ hR hok
      exact ⟨h3, by rw [h4]⟩
  | delta hd d i exp key =>
    simp only [core, addDelta_shape] at hok ⊢
    obtain ⟨h3, h4⟩ := getThen_sim S a b now key _ _ hR hok
    exact ⟨h3, by rw [h4]⟩
  | flush hd exp => exact ⟨S.flush a b now exp hR hok, rfl⟩
  | headerOnly hd => exact ⟨hR, rfl⟩
  | tooLarge hd => exact ⟨hR, rfl⟩
  | notSupported hd => exact ⟨hR, rfl⟩

/-- one request: related caches stay related and answer identically -/
theorem handle_sim (S : Sim C₁ C₂ R ok) (a : σ₁) (b : σ₂) (now : Nat) (req : Req) (hR : R a b)
    (hok : ok (handleRequest C₁ a now req).1) :
    R (handleRequest C₁ a now req).1 (handleRequest C₂ b now req).1 ∧
    (handleRequest C₁ a now req).2 = (handleRequest C₂ b now req).2 := by
  rw [handleRequest_core] at hok ⊢
  rw [handleRequest_core]
  obtain ⟨h1, h2⟩ := core_sim S a b now req hR hok
  exact ⟨h1, by simp only [h2]⟩

theorem handle_sticky (S : Sim C₁ C₂ R ok) (a : σ₁) (now : Nat) (req : Req) (h : ¬ ok a) :
    ¬ ok (handleRequest C₁ a now req).1 := by
  rw [handleRequest_core]; exact core_sticky S a now req h


theorem execEv_sticky (S : Sim C₁ C₂ R ok) (now : Nat) (a : σ₁) (e : Ev) (h : ¬ ok a) :
    ¬ ok (execEv C₁ now a e).1 := by
  cases e with
  | protoErr => exact h
  | frame r =>
    simp only [execEv]
    by_cases hq : isQuitQ r = true
    · simpa [hq] using h
    · have := handle_sticky S a now r h
      simp only [hq, Bool.false_eq_true, ↓reduceIte]
      rcases hh : handleRequest C₁ a now r with ⟨s', resp⟩
      rw [hh] at this
      cases resp <;> exact this

theorem execEv_sim (S : Sim C₁ C₂ R ok) (now : Nat) (a : σ₁) (b : σ₂) (e : Ev) (hR : R a b)
    (hok : ok (execEv C₁ now a e).1) :
    R (execEv C₁ now a e).1 (execEv C₂ now b e).1 ∧ (execEv C₁ now a e).2 = (execEv C₂ now b e).2 := by
  cases e with
  | protoErr => exact ⟨hR, rfl⟩
  | frame r =>
    simp only [execEv] at hok ⊢
    by_cases hq : isQuitQ r = true
    · simp only [hq, if_true] at hok ⊢; exact ⟨hR, trivial⟩
    · simp only [hq, Bool.false_eq_true, ↓reduceIte] at hok ⊢
      have hok' : ok (handleRequest C₁ a now r).1 := by
        rcases hh : handleRequest C₁ a now r with ⟨s', resp⟩
        rw [hh] at hok
        cases resp <;> exact hok
      obtain ⟨h1, h2⟩ := handle_sim S a b now r hR hok'
      rcases hh1 : handleRequest C₁ a now r with ⟨s1, r1⟩
      rcases hh2 : handleRequest C₂ b now r with ⟨s2, r2⟩
      rw [hh1, hh2] at h1 h2
      simp only at h1 h2
      subst h2
      cases r1 <;> exact ⟨h1, rfl⟩

theorem execEvs_sticky (S : Sim C₁ C₂ R ok) (now : Nat) (a : σ₁) (es : List Ev) (h : ¬ ok a) :
    ¬ ok (execEvs C₁ now a es).1 := by
  induction es generalizing a with
  | nil => exact h
  | cons e rest ih =>
    simp only [execEvs]
    have h1 := execEv_sticky S now a e h
    by_cases hl : (execEv C₁ now a e).2.2 = true
    · simpa [hl] using h1
    · simp only [hl, Bool.false_eq_true, ↓reduceIte]; exact ih _ h1

/-- the receive loop: related caches stay related and the same bytes are written -/
theorem execEvs_sim (S : Sim C₁ C₂ R ok) (now : Nat) (a : σ₁) (b : σ₂) (es : List Ev) (hR : R a b)
    (hok : ok (execEvs C₁ now a es).1) :
    R (execEvs C₁ now a es).1 (execEvs C₂ now b es).1 ∧ (execEvs C₁ now a es).2 = (execEvs C₂ now b es).2 := by
  induction es generalizing a b with
  | nil => exact ⟨hR, rfl⟩
  | cons e rest ih =>
    simp only [execEvs] at hok ⊢
    by_cases hl : (execEv C₁ now a e).2.2 = true
    · simp only [hl, if_true] at hok ⊢
      obtain ⟨h1, h2⟩ := execEv_sim S now a b e hR hok
      have hl2 : (execEv C₂ now b e).2.2 = true := by rw [← h2]; exact hl
      simp only [hl2, if_true]
      exact ⟨h1, h2⟩
    · simp only [hl, Bool.false_eq_true, ↓reduceIte] at hok ⊢
      have hok1 : ok (execEv C₁ now a e).1 := Classical.byContradiction fun hn => execEvs_sticky S now _ rest hn hok
      obtain ⟨h1, h2⟩ := execEv_sim S now a b e hR hok1
      have hl2 : ¬ (execEv C₂ now b e).2.2 = true := by rw [← h2]; exact hl
      simp only [hl2, Bool.false_eq_true, ↓reduceIte]
      obtain ⟨h3, h4⟩ := ih _ _ h1 hok
      exact ⟨h3, by rw [h2, h4]⟩

theorem feed_sticky (S : Sim C₁ C₂ R ok) (limit now : Nat) (c : Conn) (a : σ₁) (chunk : Bytes) (h : ¬ ok a) :
    ¬ ok (feed C₁ limit now c a chunk).2.1 := by
  unfold feed
  by_cases hc : c.closed = true
  · simpa [hc] using h
  · simp only [hc, Bool.false_eq_true, ↓reduceIte]
    have := execEvs_sticky S now a (drain limit c.pst (c.buf ++ chunk)).1 h
    by_cases hl : (execEvs C₁ now a (drain limit c.pst (c.buf ++ chunk)).1).2.2 = true
    · simpa [hl] using this
    · simpa [hl] using this

/-- bytes arriving on a connection: same connection state afterwards, related caches, same bytes written -/
theorem feed_sim (S : Sim C₁ C₂ R ok) (limit now : Nat) (c : Conn) (a : σ₁) (b : σ₂) (chunk : Bytes) (hR : R a b)
    (hok : ok (feed C₁ limit now c a chunk).2.1) :
    (feed C₁ limit now c a chunk).1 = (feed C₂ limit now c b chunk).1 ∧
    R (feed C₁ limit now c a chunk).2.1 (feed C₂ limit now c b chunk).2.1 ∧
    (feed C₁ limit now c a chunk).2.2 = (feed C₂ limit now c b chunk).2.2 := by
  unfold feed at *
  by_cases hc : c.closed = true
  · simp only [hc, if_true] at hok ⊢; exact ⟨trivial, hR, trivial⟩
  · simp only [hc, Bool.false_eq_true, ↓reduceIte] at hok ⊢
    have hok1 : ok (execEvs C₁ now a (drain limit c.pst (c.buf ++ chunk)).1).1 := by
      by_cases hl : (execEvs C₁ now a (drain limit c.pst (c.buf ++ chunk)).1).2.2 = true
      · simpa [hl] using hok
      · simpa [hl] using hok
    obtain ⟨h1, h2⟩ := execEvs_sim S now a b _ hR hok1
    rw [← h2]
    by_cases hl : (execEvs C₁ now a (drain limit c.pst (c.buf ++ chunk)).1).2.2 = true
    · simp only [hl, if_true]; exact ⟨trivial, h1, trivial⟩
    · simp only [hl, Bool.false_eq_true, ↓reduceIte]; exact ⟨trivial, h1, trivial⟩


/-- a connection's whole input: arrivals `(clock reading, bytes)` in order; the bytes written per arrival -/
def feedSeq {σ : Type} (C : CacheOps σ) (limit : Nat) : Conn → σ → List (Nat × Bytes) → Conn × σ × List Bytes
  | c, s, [] => (c, s, [])
  | c, s, (now, chunk) :: rest =>
    let r := feed C limit now c s chunk
    let r2 := feedSeq C limit r.1 r.2.1 rest
    (r2.1, r2.2.1, r.2.2 :: r2.2.2)

theorem feedSeq_sticky (S : Sim C₁ C₂ R ok) (limit : Nat) (c : Conn) (a : σ₁) (fs : List (Nat × Bytes)) (h : ¬ ok a) :
    ¬ ok (feedSeq C₁ limit c a fs).2.1 := by
  induction fs generalizing c a with
  | nil => exact h
  | cons f rest ih =>
    obtain ⟨now, chunk⟩ := f
    simp only [feedSeq]
    exact ih _ _ (feed_sticky S limit now c a chunk h)

theorem feedSeq_sim (S : Sim C₁ C₂ R ok) (limit : Nat) (c : Conn) (a : σ₁) (b : σ₂) (fs : List (Nat × Bytes))
    (hR : R a b) (hok : ok (feedSeq C₁ limit c a fs).2.1) :
    (feedSeq C₁ limit c a fs).1 = (feedSeq C₂ limit c b fs).1 ∧
    R (feedSeq C₁ limit c a fs).2.1 (feedSeq C₂ limit c b fs).2.1 ∧
    (feedSeq C₁ limit c a fs).2.2 = (feedSeq C₂ limit c b fs).2.2 := by
  induction fs generalizing c a b with
  | nil => exact ⟨rfl, hR, rfl⟩
  | cons f rest ih =>
    obtain ⟨now, chunk⟩ := f
    simp only [feedSeq] at hok ⊢
    have hok1 : ok (feed C₁ limit now c a chunk).2.1 :=
      Classical.byContradiction fun hn => feedSeq_sticky S limit _ _ rest hn hok
    obtain ⟨h1, h2, h3⟩ := feed_sim S limit now c a b chunk hR hok1
    rw [← h1, ← h3]
    obtain ⟨h4, h5, h6⟩ := ih _ _ _ h2 hok
    exact ⟨h4, h5, by rw [h6]⟩

/-! ## invariants of the cache carried through the whole pipeline -/

structure Pres {σ : Type} (C : CacheOps σ) (P : σ → Prop) : Prop where
  get : ∀ a n k, P a → P (C.get a n k).1
  set : ∀ a n k r, P a → P (C.set a n k r).1
  delete : ∀ a k c, P a → P (C.delete a k c).1
  flush : ∀ a n t, P a → P (C.flush a n t)

section
variable {σ : Type} {C : CacheOps σ} {P : σ → Prop}

theorem getThen_pres (H : Pres C P) {α : Type} (a : σ) (now : Nat) (k : Key) (f) (g : _ → _ → α) (h : P a) :
    P (getThen C a now k f g).1 := by
  unfold getThen
  have h1 := H.get a now k h
  cases hf : f (C.get a now k).2 with
  | none => simpa [hf] using h1
  | some r => simpa [hf] using H.set _ now k r h1

theorem core_pres (H : Pres C P) (a : σ) (now : Nat) (req : Req) (h : P a) : P (core C a now req).1 := by
  cases req with
  | get hd key => exact H.get a now key h
  | delete hd key => exact H.delete a key _ h
  | set hd flags exp key value =>
    simp only [core]
    by_cases h1 : isSetOp hd.opcode = true
    · simp only [Req.header, h1, if_true]; exact H.set a now key _ h
    · by_cases h2 : isAddOp hd.opcode = true
      · simp only [Req.header, h1, h2, if_true, if_false, Bool.false_eq_true, ↓reduceIte, add_shape]; exact getThen_pres H a now key _ _ h
      · simp only [Req.header, h1, h2, if_false, Bool.false_eq_true, ↓reduceIte, replace_shape]; exact getThen_pres H a now key _ _ h
  | append hd key value =>
    simp only [core]
    by_cases h1 : isAppendOp hd.opcode = true
    · simp only [Req.header, h1, if_true, append_shape]; exact getThen_pres H a now key _ _ h
    · simp only [Req.header, h1, if_false, Bool.false_eq_true, ↓reduceIte, prepend_shape]; exact getThen_pres H a now key _ _ h
  | delta hd d i exp key =>
    simp only [core, addDelta_shape]; exact getThen_pres H a now key _ _ h
  | flush hd exp => exact H.flush a now exp h
  | headerOnly hd => exact h
  | tooLarge hd => exact h
  | notSupported hd => exact h

theorem handle_pres (H : Pres C P) (a : σ) (now : Nat) (req : Req) (h : P a) : P (handleRequest C a now req).1 := by
  rw [handleRequest_core]; exact core_pres H a now req h

theorem execEv_pres (H : Pres C P) (now : Nat) (a : σ) (e : Ev) (h : P a) : P (execEv C now a e).1 := by
  cases e with
  | protoErr => exact h
  | frame r =>
    simp only [execEv]
    by_cases hq : isQuitQ r = true
    · simpa [hq] using h
    · have := handle_pres H a now r h
      simp only [hq, Bool.false_eq_true, ↓reduceIte]
      rcases hh : handleRequest C a now r with ⟨s', resp⟩
      rw [hh] at this
      cases resp <;> exact this

theorem execEvs_pres (H : Pres C P) (now : Nat) (a : σ) (es : List Ev) (h : P a) : P (execEvs C now a es).1 := by
  induction es generalizing a with
  | nil => exact h
  | cons e rest ih =>
    simp only [execEvs]
    have h1 := execEv_pres H now a e h
    by_cases hl : (execEv C now a e).2.2 = true
    · simpa [hl] using h1
    · simp only [hl, Bool.false_eq_true, ↓reduceIte]; exact ih _ h1

theorem feed_pres (H : Pres C P) (limit now : Nat) (c : Conn) (a : σ) (chunk : Bytes) (h : P a) :
    P (feed C limit now c a chunk).2.1 := by
  unfold feed
  by_cases hc : c.closed = true
  · simpa [hc] using h
  · simp only [hc, Bool.false_eq_true, ↓reduceIte]
    have := execEvs_pres H now a (drain limit c.pst (c.buf ++ chunk)).1 h
    by_cases hl : (execEvs C now a (drain limit c.pst (c.buf ++ chunk)).1).2.2 = true
    · simpa [hl] using this
    · simpa [hl] using this

theorem feedSeq_pres (H : Pres C P) (limit : Nat) (c : Conn) (a : σ) (fs : List (Nat × Bytes)) (h : P a) :
    P (feedSeq C limit c a fs).2.1 := by
  induction fs generalizing c a with
  | nil => exact h
  | cons f rest ih =>
    obtain ⟨now, chunk⟩ := f
    simp only [feedSeq]
    exact ih _ _ (feed_pres H limit now c a chunk h)
end

end
end Memc
