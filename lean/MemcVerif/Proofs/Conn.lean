import MemcVerif.Model.Conn
/-! Stream lemmas for the connection-level decoder: appending bytes to the buffer commutes with decoding
    (`drain_append`), the core of segmentation independence. -/
namespace Memc

theorem drop_app_le {a b : Bytes} {n : Nat} (h : n ≤ a.length) : (a ++ b).drop n = a.drop n ++ b :=
  List.drop_append_of_le_length h
theorem drop_app_ge {a b : Bytes} {n : Nat} (h : a.length ≤ n) : (a ++ b).drop n = b.drop (n - a.length) := by
  simp [List.drop_append, List.drop_of_length_le h]
theorem take_app_le {a b : Bytes} {n : Nat} (h : n ≤ a.length) : (a ++ b).take n = a.take n :=
  List.take_append_of_le_length h

theorem slice_append {a b : Bytes} {n m : Nat} (h : n + m ≤ a.length) :
    ((a ++ b).drop n).take m = (a.drop n).take m := by
  rw [drop_app_le (by omega)]
  exact take_app_le (by simp; omega)

theorem parseHeader_append {buf : Bytes} (x : Bytes) (h : HEADER_LEN ≤ buf.length) :
    parseHeader (buf ++ x) = parseHeader buf := by
  simp only [HEADER_LEN] at h
  simp only [parseHeader]
  rw [take_app_le (by omega), slice_append (by omega), slice_append (by omega), slice_append (by omega),
    slice_append (by omega), slice_append (by omega), slice_append (by omega), slice_append (by omega),
    slice_append (by omega)]

theorem parseBody_ne_tooLarge (h h' : ReqHeader) (b : Bytes) : parseBody h b ≠ some (.tooLarge h') := by
  unfold parseBody
  split <;> (repeat' split) <;> simp

/-- one turn of the loop once the header is known -/
def bodyStep (limit : Nat) (h : ReqHeader) (buf : Bytes) : Dec := afterDecode (Codec.afterHeader limit h buf)

theorem bodyStep_eq (limit : Nat) (h : ReqHeader) (buf : Bytes) :
    bodyStep limit h buf =
      if h.bodyLen > limit then
        if buf.length ≥ h.bodyLen then .emit (.frame (.tooLarge h)) .idle (buf.drop h.bodyLen)
        else .needMore (.skipping h (h.bodyLen - buf.length)) []
      else if h.bodyLen > buf.length then .needMore (.hdr h) buf
      else
        match parseBody h (buf.take h.bodyLen) with
        | some r => .emit (.frame r) .idle (buf.drop h.bodyLen)
        | none => .emit .protoErr .dead [] := by
  unfold bodyStep Codec.afterHeader
  split
  · simp [afterDecode]
  · split
    · simp [afterDecode]
    · cases hp : parseBody h (buf.take h.bodyLen) with
      | none => simp [afterDecode]
      | some r =>
        simp only
        cases r with
        | tooLarge h' => exact absurd hp (parseBody_ne_tooLarge h h' _)
        | _ => simp [afterDecode]

theorem decode1_idle (limit : Nat) (buf : Bytes) :
    decode1 limit .idle buf =
      if buf.length < HEADER_LEN then .needMore .idle buf
      else if !headerValid (parseHeader buf) then .emit .protoErr .dead []
      else bodyStep limit (parseHeader buf) (buf.drop HEADER_LEN) := by
  simp only [decode1, Codec.decode]
  split
  · simp [afterDecode]
  · split
    · simp [afterDecode]
    · rfl

theorem decode1_hdr (limit : Nat) (h : ReqHeader) (buf : Bytes) :
    decode1 limit (.hdr h) buf = bodyStep limit h buf := rfl

theorem bodyStep_needMore_append {limit h buf st' buf'} (x : Bytes)
    (hd : bodyStep limit h buf = .needMore st' buf') :
    bodyStep limit h (buf ++ x) = decode1 limit st' (buf' ++ x) := by
  rw [bodyStep_eq] at hd
  split at hd
  · rename_i h1
    split at hd
    · simp at hd
    · rename_i h2
      simp at hd; obtain ⟨rfl, rfl⟩ := hd
      rw [bodyStep_eq]
      simp only [decode1, List.nil_append, List.length_append, h1, if_true]
      by_cases hx : h.bodyLen ≤ buf.length + x.length
      · have h3 : h.bodyLen - buf.length ≤ x.length := by omega
        have h4 : buf.length ≤ h.bodyLen := by omega
        have h5 : buf.length + x.length ≥ h.bodyLen := hx
        simp only [h5, h3, if_true, drop_app_ge h4]
      · have h3 : ¬ h.bodyLen - buf.length ≤ x.length := by omega
        have h5 : ¬ buf.length + x.length ≥ h.bodyLen := hx
        simp only [h5, h3, if_false]
        congr 2; omega
  · rename_i h1
    split at hd
    · simp at hd; obtain ⟨rfl, rfl⟩ := hd
      rfl
    · split at hd <;> simp at hd

theorem bodyStep_emit_append {limit h buf e st' buf'} (x : Bytes)
    (hd : bodyStep limit h buf = .emit e st' buf') :
    bodyStep limit h (buf ++ x) = .emit e st' (buf' ++ x) ∨
      (st' = .dead ∧ bodyStep limit h (buf ++ x) = .emit e .dead []) := by
  rw [bodyStep_eq] at hd
  split at hd
  · rename_i h1
    split at hd
    · rename_i h2
      simp at hd; obtain ⟨rfl, rfl, rfl⟩ := hd
      left
      rw [bodyStep_eq]
      have : (buf ++ x).length ≥ h.bodyLen := by simp; omega
      simp only [h1, this, if_true, drop_app_le h2]
    · simp at hd
  · rename_i h1
    split at hd
    · simp at hd
    · rename_i h2
      have h3 : h.bodyLen ≤ buf.length := by omega
      have h4 : ¬ h.bodyLen > (buf ++ x).length := by simp; omega
      cases hp : parseBody h (buf.take h.bodyLen) with
      | some r =>
        rw [hp] at hd; simp at hd; obtain ⟨rfl, rfl, rfl⟩ := hd
        left
        rw [bodyStep_eq]
        simp only [h1, h4, if_false, take_app_le h3, hp, drop_app_le h3]
      | none =>
        rw [hp] at hd; simp at hd; obtain ⟨rfl, rfl, rfl⟩ := hd
        right
        refine ⟨rfl, ?_⟩
        rw [bodyStep_eq]
        simp only [h1, h4, if_false, take_app_le h3, hp]

theorem decode1_needMore_append {limit st buf st' buf'} (x : Bytes)
    (hd : decode1 limit st buf = .needMore st' buf') :
    decode1 limit st (buf ++ x) = decode1 limit st' (buf' ++ x) := by
  cases st with
  | idle =>
    rw [decode1_idle] at hd
    split at hd
    · simp at hd; obtain ⟨rfl, rfl⟩ := hd; rfl
    · rename_i h1
      have hl : HEADER_LEN ≤ buf.length := by omega
      have hl' : ¬ (buf ++ x).length < HEADER_LEN := by simp; omega
      rw [decode1_idle]
      simp only [hl', if_false, parseHeader_append x hl, drop_app_le hl]
      split at hd
      · simp at hd
      · rename_i h2
        simp only [h2, if_false]
        exact bodyStep_needMore_append x hd
  | hdr h =>
    rw [decode1_hdr] at hd ⊢
    exact bodyStep_needMore_append x hd
  | skipping h n =>
    simp only [decode1] at hd
    split at hd
    · simp at hd
    · rename_i h1
      simp at hd; obtain ⟨rfl, rfl⟩ := hd
      simp only [decode1, List.nil_append, List.length_append]
      by_cases hx : n ≤ buf.length + x.length
      · have h3 : n - buf.length ≤ x.length := by omega
        have h4 : buf.length ≤ n := by omega
        simp only [hx, h3, if_true, drop_app_ge h4]
      · have h3 : ¬ n - buf.length ≤ x.length := by omega
        simp only [hx, h3, if_false]
        congr 2; omega
  | dead =>
    simp only [decode1] at hd
    simp at hd; obtain ⟨rfl, rfl⟩ := hd
    simp [decode1]

theorem decode1_emit_append {limit st buf e st' buf'} (x : Bytes)
    (hd : decode1 limit st buf = .emit e st' buf') :
    decode1 limit st (buf ++ x) = .emit e st' (buf' ++ x) ∨
      (st' = .dead ∧ decode1 limit st (buf ++ x) = .emit e .dead []) := by
  cases st with
  | idle =>
    rw [decode1_idle] at hd
    split at hd
    · simp at hd
    · rename_i h1
      have hl : HEADER_LEN ≤ buf.length := by omega
      have hl' : ¬ (buf ++ x).length < HEADER_LEN := by simp; omega
      rw [decode1_idle]
      simp only [hl', if_false, parseHeader_append x hl, drop_app_le hl]
      split at hd
      · rename_i h2
        simp at hd; obtain ⟨rfl, rfl, rfl⟩ := hd
        right; simp [h2]
      · rename_i h2
        simp only [h2, if_false]
        exact bodyStep_emit_append x hd
  | hdr h =>
    rw [decode1_hdr] at hd ⊢
    exact bodyStep_emit_append x hd
  | skipping h n =>
    simp only [decode1] at hd
    split at hd
    · rename_i h1
      simp at hd; obtain ⟨rfl, rfl, rfl⟩ := hd
      have : n ≤ (buf ++ x).length := by simp; omega
      left; simp only [decode1, this, if_true, drop_app_le h1]
    · simp at hd
  | dead => simp [decode1] at hd

theorem drain_eq (limit : Nat) (st : PState) (buf : Bytes) :
    drain limit st buf =
      match decode1 limit st buf with
      | .needMore st' buf' => ([], st', buf')
      | .emit e st' buf' => (e :: (drain limit st' buf').1, (drain limit st' buf').2) := by
  rw [drain]
  split <;> rename_i h <;> simp only [h]

theorem drain_dead (limit : Nat) (b : Bytes) : drain limit .dead b = ([], .dead, []) := by
  rw [drain_eq]; simp [decode1]

/-- **stream-append lemma**: draining `buf ++ x` is draining `buf`, then appending `x` to the residue and
    draining again -/
theorem drain_append (limit : Nat) (st : PState) (buf x : Bytes) :
    drain limit st (buf ++ x) =
      ((drain limit st buf).1 ++ (drain limit (drain limit st buf).2.1 ((drain limit st buf).2.2 ++ x)).1,
       (drain limit (drain limit st buf).2.1 ((drain limit st buf).2.2 ++ x)).2) := by
  fun_induction drain limit st buf with
  | case1 st buf st' buf' hd =>
    have := decode1_needMore_append x hd
    simp only [List.nil_append]
    rw [drain_eq limit st (buf ++ x), drain_eq limit st' (buf' ++ x), this]
  | case2 st buf e st' buf' hd r ih =>
    rcases decode1_emit_append x hd with h | ⟨rfl, h⟩
    · rw [drain_eq limit st (buf ++ x), h]
      simp only [ih]
      simp [r]
    · rw [drain_eq limit st (buf ++ x), h]
      simp [r, drain_dead]

end Memc
