import MemcVerif.Model.PolConc
import MemcVerif.Proofs.Policy
/-! Invariants of the micro-step model of RandomPolicy under every schedule. -/
namespace Memc

/-- bytes a thread's current call has added to the counter and not yet to the store, plus bytes it has taken
    from the store and not yet from the counter -/
def PPhase.pend : PPhase → Nat
  | .idle => 0
  | .looping _ r _ | .evicting _ r _ | .resetting _ r _ | .ready _ r => r.len
  | .evicted _ r l => r.len + l
  | .deleted l _ => l

def pendSum (ts : List PThread) : Nat := (ts.map (fun t => t.phase.pend)).sum

/-- a thread that will look at the counter again before it stores, holding a local copy not below it -/
def PPhase.witness (usage : Nat) : PPhase → Prop
  | .looping _ _ u | .evicting _ _ u | .resetting _ _ u => usage ≤ u
  | .evicted _ _ _ => True
  | _ => False

def PCall.Bounded (B : Nat) : PCall → Prop
  | .set _ r => r.len ≤ B
  | _ => True

def PPhase.Bounded (B : Nat) : PPhase → Prop
  | .looping _ r _ | .evicting _ r _ | .resetting _ r _ | .ready _ r | .evicted _ r _ => r.len ≤ B
  | _ => True

def PThread.Bounded (B : Nat) (t : PThread) : Prop := (∀ c ∈ t.todo, c.Bounded B) ∧ t.phase.Bounded B

theorem sum_eq_zero_of (l : List Nat) (h : ∀ n ∈ l, n = 0) : l.sum = 0 := by
  induction l with
  | nil => rfl
  | cons x rest ih =>
    have hx := h x (List.mem_cons_self ..)
    have := ih (fun n hn => h n (List.mem_cons_of_mem _ hn))
    simp only [List.sum_cons]; omega

theorem pendSum_set (ts : List PThread) (i : Nat) (t t' : PThread) (h : ts[i]? = some t) :
    pendSum (ts.set i t') + t.phase.pend = pendSum ts + t'.phase.pend := by
  induction ts generalizing i with
  | nil => simp at h
  | cons x rest ih =>
    cases i with
    | zero =>
      simp only [List.getElem?_cons_zero, Option.some.injEq] at h
      subst h
      simp only [List.set_cons_zero, pendSum, List.map_cons, List.sum_cons]
      omega
    | succ n =>
      simp only [List.getElem?_cons_succ] at h
      have := ih n h
      simp only [List.set_cons_succ, pendSum, List.map_cons, List.sum_cons] at this ⊢
      omega

theorem pendSum_only (ts : List PThread) (i : Nat) (t : PThread) (h : ts[i]? = some t)
    (hothers : ∀ j tj, j ≠ i → ts[j]? = some tj → tj.phase.pend = 0) : pendSum ts = t.phase.pend := by
  induction ts generalizing i with
  | nil => simp at h
  | cons x rest ih =>
    cases i with
    | zero =>
      simp only [List.getElem?_cons_zero, Option.some.injEq] at h
      subst h
      have hrest : pendSum rest = 0 := by
        unfold pendSum
        apply sum_eq_zero_of
        intro n hn
        obtain ⟨tj, htj, rfl⟩ := List.mem_map.mp hn
        obtain ⟨j, hj, hget⟩ := List.getElem_of_mem htj
        exact hothers (j + 1) tj (by omega) (by simp [List.getElem?_cons_succ, List.getElem?_eq_getElem hj, hget])
      simp only [pendSum, List.map_cons, List.sum_cons] at hrest ⊢
      omega
    | succ n =>
      simp only [List.getElem?_cons_succ] at h
      have h0 : x.phase.pend = 0 := hothers 0 x (by omega) (by simp)
      have := ih n h (fun j tj hj hget => hothers (j + 1) tj (by omega) (by simpa using hget))
      simp only [pendSum, List.map_cons, List.sum_cons] at this ⊢
      omega

theorem pendSum_zero_of_idle (ts : List PThread) (h : ∀ t ∈ ts, t.phase = .idle) : pendSum ts = 0 := by
  unfold pendSum
  apply sum_eq_zero_of
  intro n hn
  obtain ⟨t, ht, rfl⟩ := List.mem_map.mp hn
  rw [h t ht]; rfl

theorem witness_mono {p : PPhase} {u u' : Nat} (h : p.witness u) (hle : u' ≤ u) : p.witness u' := by
  cases p <;> simp only [PPhase.witness] at h ⊢ <;> omega

theorem witness_keep (ts : List PThread) (i : Nat) (t t' : PThread) (usage usage' : Nat) (hi : ts[i]? = some t)
    (hle : usage' ≤ usage) (hw : ∃ (j : Nat) (tj : PThread), ts[j]? = some tj ∧ tj.phase.witness usage)
    (ht : t.phase.witness usage → t'.phase.witness usage') :
    ∃ (j : Nat) (tj : PThread), (ts.set i t')[j]? = some tj ∧ tj.phase.witness usage' := by
  obtain ⟨j, tj, hj, hwj⟩ := hw
  by_cases hji : i = j
  · subst hji
    rw [hi] at hj
    cases hj
    have hlt : i < ts.length := by
      rcases Nat.lt_or_ge i ts.length with h | h
      · exact h
      · rw [List.getElem?_eq_none h] at hi; cases hi
    exact ⟨i, t', by simp [hlt], ht hwj⟩
  · exact ⟨j, tj, by rw [List.getElem?_set_ne hji]; exact hj, witness_mono hwj hle⟩

theorem witness_self (ts : List PThread) (i : Nat) (t t' : PThread) (usage' : Nat) (hi : ts[i]? = some t)
    (ht : t'.phase.witness usage') : ∃ (j : Nat) (tj : PThread), (ts.set i t')[j]? = some tj ∧ tj.phase.witness usage' := by
  have hlt : i < ts.length := by
    rcases Nat.lt_or_ge i ts.length with h | h
    · exact h
    · rw [List.getElem?_eq_none h] at hi; cases hi
  exact ⟨i, t', by simp [hlt], ht⟩

theorem bounded_set (B : Nat) (ts : List PThread) (i : Nat) (t' : PThread) (h : ∀ t ∈ ts, t.Bounded B)
    (ht : t'.Bounded B) : ∀ t ∈ ts.set i t', t.Bounded B := by
  intro t hm
  rcases List.mem_or_eq_of_mem_set hm with h1 | h1
  · exact h t h1
  · subst h1; exact ht

theorem wsub_lt (a b : Nat) : wsub a b < U64 := Nat.mod_lt _ (by decide)
theorem wadd_lt' (a b : Nat) : wadd a b < U64 := Nat.mod_lt _ (by decide)

theorem othersIdle_spec (s : PSys) (i : Nat) (h : s.othersIdle i = true) :
    ∀ j tj, j ≠ i → s.threads[j]? = some tj → tj.phase = .idle := by
  intro j tj hne hj
  have hlt : j < s.threads.length := by
    rcases Nat.lt_or_ge j s.threads.length with h | h
    · exact h
    · rw [List.getElem?_eq_none h] at hj; cases hj
  simp only [PSys.othersIdle, List.all_eq_true, List.mem_range] at h
  have := h j hlt
  simp only [hj, Bool.or_eq_true, beq_iff_eq] at this
  rcases this with h1 | h1
  · exact absurd h1 hne
  · exact h1

theorem pend_le_pendSum (ts : List PThread) (i : Nat) (t : PThread) (h : ts[i]? = some t) :
    t.phase.pend ≤ pendSum ts := by
  have := pendSum_set ts i t { t with phase := .idle } h
  have h0 : ({ t with phase := .idle } : PThread).phase.pend = 0 := rfl
  omega

/-! what the inner store's calls do to the byte total -/

theorem MemStore.delete_bytes (s : MemStore) (k : Key) (cas : Nat) :
    (∀ r, (s.delete k cas).2 = .ok r → (s.delete k cas).1.mem.bytes + r.len ≤ s.mem.bytes) ∧
    (s.delete k cas).1.mem.bytes ≤ s.mem.bytes := by
  cases hl : s.mem.lookup k with
  | none => rw [MemStore.delete_absent _ _ _ hl]; exact ⟨fun r h => (by cases h), Nat.le_refl _⟩
  | some r =>
    by_cases h : cas = 0 ∨ r.header.cas = cas
    · rw [MemStore.delete_ok _ _ _ r hl h]
      have := Mem.bytes_erase_lookup s.mem k r hl
      refine ⟨fun r' h' => ?_, ?_⟩
      · simp only [Except.ok.injEq] at h'; subst h'; exact this
      · show (s.mem.erase k).bytes ≤ _; omega
    · rw [MemStore.delete_mismatch _ _ _ r hl h]; exact ⟨fun r h => (by cases h), Nat.le_refl _⟩

theorem MemStore.get_bytes_le (s : MemStore) (now : Nat) (k : Key) : (s.get now k).1.mem.bytes ≤ s.mem.bytes := by
  unfold MemStore.get MemStore.getByKey
  cases hl : s.mem.lookup k with
  | none => simp
  | some r =>
    simp only [MemStore.checkIfExpired, hl]
    split
    · simp
    · split
      · simp
      · split
        · simp; exact Mem.bytes_erase_le _ _
        · simp

theorem MemStore.flush_bytes_le (s : MemStore) (now ttl : Nat) : (s.flush now ttl).mem.bytes ≤ s.mem.bytes := by
  unfold MemStore.flush
  split
  · simp only [Mem.bytes_map_flush]; exact Nat.le_refl _
  · simp

/-- the invariant of the micro-step model while no reset was racy and the counter did not overflow -/
structure PInv (B : Nat) (s : PSys) : Prop where
  cover : s.inner.mem.bytes + pendSum s.threads ≤ s.usage
  lt : s.usage < U64
  bound : s.usage ≤ max s.limit B ∨ ∃ (j : Nat) (tj : PThread), s.threads[j]? = some tj ∧ tj.phase.witness s.usage
  bounded : ∀ t ∈ s.threads, t.Bounded B

theorem getElem?_mem {ts : List PThread} {i : Nat} {t : PThread} (h : ts[i]? = some t) : t ∈ ts := by
  obtain ⟨hlt, rfl⟩ := List.getElem?_eq_some_iff.mp h
  exact List.getElem_mem hlt

/-- keep-or-left: the counter does not grow and the stepping thread stays a witness if it was one -/
theorem bound_keep (B : Nat) (s : PSys) (i : Nat) (t t' : PThread) (usage' : Nat) (hi : s.threads[i]? = some t)
    (hb : s.usage ≤ max s.limit B ∨ ∃ (j : Nat) (tj : PThread), s.threads[j]? = some tj ∧ tj.phase.witness s.usage)
    (hle : usage' ≤ s.usage)
    (ht : ¬ s.usage ≤ max s.limit B → t.phase.witness s.usage → t'.phase.witness usage') :
    usage' ≤ max s.limit B ∨ ∃ (j : Nat) (tj : PThread), (s.threads.set i t')[j]? = some tj ∧ tj.phase.witness usage' := by
  by_cases hm : s.usage ≤ max s.limit B
  · exact Or.inl (Nat.le_trans hle hm)
  · rcases hb with h | h
    · exact absurd h hm
    · exact Or.inr (witness_keep s.threads i t t' s.usage usage' hi hle h (ht hm))

theorem cover_of (ts : List PThread) (i : Nat) (t t' : PThread) (b u : Nat) (hi : ts[i]? = some t)
    (hle : b + (pendSum ts + t'.phase.pend - t.phase.pend) ≤ u) : b + pendSum (ts.set i t') ≤ u := by
  have := pendSum_set ts i t t' hi
  omega

theorem stepThread_inv (B : Nat) (s : PSys) (now i : Nat) (t : PThread) (victim : Option Key)
    (hi : s.threads[i]? = some t) (h : PInv B s)
    (hr : (s.stepThread now i t victim).racy = false) (ho : (s.stepThread now i t victim).overflow = false) :
    PInv B (s.stepThread now i t victim) ∧ (s.stepThread now i t victim).limit = s.limit := by
  have htb := h.bounded t (getElem?_mem hi)
  have hpend := pend_le_pendSum s.threads i t hi
  cases hph : t.phase with
  | idle =>
    cases htodo : t.todo with
    | nil => simp only [PSys.stepThread, hph, htodo]; exact ⟨h, by first | rfl | trivial⟩
    | cons c rest =>
      have hrestb : ∀ c' ∈ rest, c'.Bounded B := fun c' hc' => htb.1 c' (by rw [htodo]; exact List.mem_cons_of_mem _ hc')
      have hcb : c.Bounded B := htb.1 c (by rw [htodo]; exact List.mem_cons_self ..)
      cases c with
      | set k r =>
        simp only [PSys.stepThread, hph, htodo] at hr ho ⊢
        simp only [Bool.or_eq_false_iff, decide_eq_false_iff_not, Nat.not_le] at ho
        have hadd : wadd s.usage r.len = s.usage + r.len := wadd_exact ho.2
        refine ⟨⟨?_, wadd_lt' _ _, Or.inr (witness_self s.threads i t _ _ hi (Nat.le_refl _)), ?_⟩, by first | rfl | trivial⟩
        · refine cover_of s.threads i t _ _ _ hi ?_
          simp only [hph, PPhase.pend]
          have := h.cover; omega
        · exact bounded_set B _ i _ h.bounded ⟨hrestb, hcb⟩
      | delete k cas =>
        simp only [PSys.stepThread, hph, htodo] at hr ho ⊢
        obtain ⟨hd1, hd2⟩ := MemStore.delete_bytes s.inner k cas
        cases hres : (s.inner.delete k cas).2 with
        | ok rec =>
          simp only [hres] at hr ho ⊢
          have hfree := hd1 rec hres
          refine ⟨⟨?_, h.lt, ?_, ?_⟩, by first | rfl | trivial⟩
          · refine cover_of s.threads i t _ _ _ hi ?_
            simp only [hph, PPhase.pend]
            have := h.cover; omega
          · exact bound_keep B s i t _ s.usage hi h.bound (Nat.le_refl _) (fun _ hw => by rw [hph] at hw; exact hw.elim)
          · exact bounded_set B _ i _ h.bounded ⟨hrestb, trivial⟩
        | error e =>
          simp only [hres] at hr ho ⊢
          refine ⟨⟨?_, h.lt, ?_, ?_⟩, by first | rfl | trivial⟩
          · refine cover_of s.threads i t _ _ _ hi ?_
            simp only [hph, PPhase.pend]
            have := h.cover; omega
          · exact bound_keep B s i t _ s.usage hi h.bound (Nat.le_refl _) (fun _ hw => by rw [hph] at hw; exact hw.elim)
          · exact bounded_set B _ i _ h.bounded ⟨hrestb, trivial⟩
      | get k =>
        simp only [PSys.stepThread, hph, htodo] at hr ho ⊢
        have hg := MemStore.get_bytes_le s.inner now k
        refine ⟨⟨?_, h.lt, ?_, ?_⟩, by first | rfl | trivial⟩
        · refine cover_of s.threads i t _ _ _ hi ?_
          simp only [hph, PPhase.pend]
          have := h.cover; omega
        · exact bound_keep B s i t _ s.usage hi h.bound (Nat.le_refl _) (fun _ hw => by rw [hph] at hw; exact hw.elim)
        · exact bounded_set B _ i _ h.bounded ⟨hrestb, trivial⟩
      | flush ttl =>
        simp only [PSys.stepThread, hph, htodo] at hr ho ⊢
        have hg := MemStore.flush_bytes_le s.inner now ttl
        refine ⟨⟨?_, h.lt, ?_, ?_⟩, by first | rfl | trivial⟩
        · refine cover_of s.threads i t _ _ _ hi ?_
          simp only [hph, PPhase.pend]
          have := h.cover; omega
        · exact bound_keep B s i t _ s.usage hi h.bound (Nat.le_refl _) (fun _ hw => by rw [hph] at hw; exact hw.elim)
        · exact bounded_set B _ i _ h.bounded ⟨hrestb, trivial⟩
  | looping k r u =>
    have hrb : r.len ≤ B := by have := htb.2; rw [hph] at this; exact this
    simp only [hph, PPhase.pend] at hpend
    by_cases hg : u > s.limit
    · by_cases he : s.inner.len = 0
      · simp only [PSys.stepThread, hph, hg, he, if_true] at hr ho ⊢
        refine ⟨⟨?_, h.lt, ?_, ?_⟩, by first | rfl | trivial⟩
        · refine cover_of s.threads i t _ _ _ hi ?_
          simp only [hph, PPhase.pend]
          have := h.cover; omega
        · exact bound_keep B s i t _ s.usage hi h.bound (Nat.le_refl _) (fun _ hw => by rw [hph] at hw; exact hw)
        · exact bounded_set B _ i _ h.bounded ⟨htb.1, hrb⟩
      · simp only [PSys.stepThread, hph, hg, he, if_true, if_false] at hr ho ⊢
        refine ⟨⟨?_, h.lt, ?_, ?_⟩, by first | rfl | trivial⟩
        · refine cover_of s.threads i t _ _ _ hi ?_
          simp only [hph, PPhase.pend]
          have := h.cover; omega
        · exact bound_keep B s i t _ s.usage hi h.bound (Nat.le_refl _) (fun _ hw => by rw [hph] at hw; exact hw)
        · exact bounded_set B _ i _ h.bounded ⟨htb.1, hrb⟩
    · simp only [PSys.stepThread, hph, hg, if_false] at hr ho ⊢
      have hset := MemStore.set_bytes_le s.inner now k r
      refine ⟨⟨?_, h.lt, ?_, ?_⟩, by first | rfl | trivial⟩
      · refine cover_of s.threads i t _ _ _ hi ?_
        simp only [hph, PPhase.pend]
        have := h.cover; omega
      · refine bound_keep B s i t _ s.usage hi h.bound (Nat.le_refl _) (fun hm hw => ?_)
        rw [hph] at hw
        have hw' : s.usage ≤ u := hw
        have : s.limit ≤ max s.limit B := Nat.le_max_left _ _
        omega
      · exact bounded_set B _ i _ h.bounded ⟨htb.1, trivial⟩
  | evicting k r u =>
    have hrb : r.len ≤ B := by have := htb.2; rw [hph] at this; exact this
    simp only [hph, PPhase.pend] at hpend
    have keep : PInv B { s with threads := s.threads.set i { todo := t.todo, phase := .looping k r u, results := t.results } } := by
      refine ⟨?_, h.lt, ?_, ?_⟩
      · refine cover_of s.threads i t _ _ _ hi ?_
        simp only [hph, PPhase.pend]
        have := h.cover; omega
      · exact bound_keep B s i t _ s.usage hi h.bound (Nat.le_refl _) (fun _ hw => by rw [hph] at hw; exact hw)
      · exact bounded_set B _ i _ h.bounded ⟨htb.1, hrb⟩
    cases victim with
    | none => simp only [PSys.stepThread, hph]; exact ⟨keep, by first | rfl | trivial⟩
    | some v =>
      cases hl : s.inner.mem.lookup v with
      | none => simp only [PSys.stepThread, hph, hl]; exact ⟨keep, by first | rfl | trivial⟩
      | some vr =>
        simp only [PSys.stepThread, hph, hl] at hr ho ⊢
        have hfree := Mem.bytes_erase_lookup s.inner.mem v vr hl
        refine ⟨⟨?_, h.lt, ?_, ?_⟩, by first | rfl | trivial⟩
        · refine cover_of s.threads i t _ _ _ hi ?_
          simp only [hph, PPhase.pend]
          have := h.cover; omega
        · exact bound_keep B s i t _ s.usage hi h.bound (Nat.le_refl _) (fun _ _ => trivial)
        · exact bounded_set B _ i _ h.bounded ⟨htb.1, hrb⟩
  | evicted k r l =>
    have hrb : r.len ≤ B := by have := htb.2; rw [hph] at this; exact this
    simp only [hph, PPhase.pend] at hpend
    simp only [PSys.stepThread, hph] at hr ho ⊢
    have hle : l ≤ s.usage := by have := h.cover; omega
    have hsub : wsub s.usage l = s.usage - l := wsub_exact hle h.lt
    refine ⟨⟨?_, wsub_lt _ _, Or.inr (witness_self s.threads i t _ _ hi (Nat.le_refl _)), ?_⟩, by first | rfl | trivial⟩
    · refine cover_of s.threads i t _ _ _ hi ?_
      simp only [hph, PPhase.pend]
      have := h.cover; omega
    · exact bounded_set B _ i _ h.bounded ⟨htb.1, hrb⟩
  | resetting k r u =>
    have hrb : r.len ≤ B := by have := htb.2; rw [hph] at this; exact this
    simp only [hph, PPhase.pend] at hpend
    simp only [PSys.stepThread, hph] at hr ho ⊢
    simp only [Bool.or_eq_false_iff, Bool.not_eq_false', Bool.and_eq_true, decide_eq_true_eq] at hr
    obtain ⟨_, ⟨hoth, hemp⟩, hu⟩ := hr
    have hidle := othersIdle_spec s i hoth
    have honly := pendSum_only s.threads i t hi (fun j tj hj hget => by rw [hidle j tj hj hget]; rfl)
    simp only [hph, PPhase.pend] at honly
    have hbytes : s.inner.mem.bytes = 0 := Mem.bytes_of_length_zero _ hemp
    have hrl : r.len ≤ s.usage := by have := h.cover; omega
    subst hu
    have h1 : wsub s.usage r.len = s.usage - r.len := wsub_exact hrl h.lt
    have h2 : wsub s.usage (s.usage - r.len) = r.len := by rw [wsub_exact (by omega) h.lt]; omega
    refine ⟨⟨?_, wsub_lt _ _, Or.inl ?_, ?_⟩, by first | rfl | trivial⟩
    · refine cover_of s.threads i t _ _ _ hi ?_
      simp only [hph, PPhase.pend]
      rw [h1, h2]; omega
    · show wsub s.usage (wsub s.usage r.len) ≤ max s.limit B
      rw [h1, h2]; exact Nat.le_trans hrb (Nat.le_max_right _ _)
    · exact bounded_set B _ i _ h.bounded ⟨htb.1, hrb⟩
  | ready k r =>
    simp only [hph, PPhase.pend] at hpend
    simp only [PSys.stepThread, hph] at hr ho ⊢
    have hset := MemStore.set_bytes_le s.inner now k r
    refine ⟨⟨?_, h.lt, ?_, ?_⟩, by first | rfl | trivial⟩
    · refine cover_of s.threads i t _ _ _ hi ?_
      simp only [hph, PPhase.pend]
      have := h.cover; omega
    · exact bound_keep B s i t _ s.usage hi h.bound (Nat.le_refl _) (fun _ hw => by rw [hph] at hw; exact hw.elim)
    · exact bounded_set B _ i _ h.bounded ⟨htb.1, trivial⟩
  | deleted l res =>
    simp only [hph, PPhase.pend] at hpend
    simp only [PSys.stepThread, hph] at hr ho ⊢
    have hle : l ≤ s.usage := by have := h.cover; omega
    have hsub : wsub s.usage l = s.usage - l := wsub_exact hle h.lt
    refine ⟨⟨?_, wsub_lt _ _, ?_, ?_⟩, by first | rfl | trivial⟩
    · refine cover_of s.threads i t _ _ _ hi ?_
      simp only [hph, PPhase.pend]
      have := h.cover; omega
    · exact bound_keep B s i t _ (wsub s.usage l) hi h.bound (by omega) (fun _ hw => by rw [hph] at hw; exact hw.elim)
    · exact bounded_set B _ i _ h.bounded ⟨htb.1, trivial⟩

/-- the flags are sticky -/
theorem stepThread_flags (s : PSys) (now i : Nat) (t : PThread) (victim : Option Key) :
    ((s.stepThread now i t victim).racy = false → s.racy = false) ∧
    ((s.stepThread now i t victim).overflow = false → s.overflow = false) := by
  cases hph : t.phase with
  | idle =>
    cases htodo : t.todo with
    | nil => simp only [PSys.stepThread, hph, htodo]; exact ⟨id, id⟩
    | cons c rest =>
      cases c with
      | set k r =>
        simp only [PSys.stepThread, hph, htodo, Bool.or_eq_false_iff]
        exact ⟨id, fun h => h.1⟩
      | delete k cas =>
        simp only [PSys.stepThread, hph, htodo]
        cases (s.inner.delete k cas).2 <;> exact ⟨id, id⟩
      | get k => simp only [PSys.stepThread, hph, htodo]; exact ⟨id, id⟩
      | flush ttl => simp only [PSys.stepThread, hph, htodo]; exact ⟨id, id⟩
  | looping k r u =>
    simp only [PSys.stepThread, hph]
    by_cases hg : u > s.limit
    · by_cases he : s.inner.len = 0
      · simp only [hg, he, if_true]; exact ⟨id, id⟩
      · simp only [hg, he, if_true, if_false]; exact ⟨id, id⟩
    · simp only [hg, if_false]; exact ⟨id, id⟩
  | evicting k r u =>
    simp only [PSys.stepThread, hph]
    cases victim with
    | none => exact ⟨id, id⟩
    | some v =>
      cases hl : s.inner.mem.lookup v with
      | none => simp only [hl]; exact ⟨id, id⟩
      | some vr => simp only [hl]; exact ⟨id, id⟩
  | evicted k r l => simp only [PSys.stepThread, hph]; exact ⟨id, id⟩
  | resetting k r u =>
    simp only [PSys.stepThread, hph, Bool.or_eq_false_iff]
    exact ⟨fun h => h.1, id⟩
  | ready k r => simp only [PSys.stepThread, hph]; exact ⟨id, id⟩
  | deleted l res => simp only [PSys.stepThread, hph]; exact ⟨id, id⟩

theorem step_flags (s : PSys) (now i : Nat) (victim : Option Key) :
    ((s.step now i victim).racy = false → s.racy = false) ∧
    ((s.step now i victim).overflow = false → s.overflow = false) := by
  unfold PSys.step
  cases hi : s.threads[i]? with
  | none => exact ⟨id, id⟩
  | some t => exact stepThread_flags s now i t victim

theorem step_inv (B : Nat) (s : PSys) (now i : Nat) (victim : Option Key) (h : PInv B s)
    (hr : (s.step now i victim).racy = false) (ho : (s.step now i victim).overflow = false) :
    PInv B (s.step now i victim) ∧ (s.step now i victim).limit = s.limit := by
  unfold PSys.step at *
  cases hi : s.threads[i]? with
  | none => exact ⟨h, rfl⟩
  | some t =>
    simp only [hi] at hr ho
    exact stepThread_inv B s now i t victim hi h hr ho

theorem run_flags (s : PSys) (now : Nat) (sched : List (Nat × Option Key)) :
    ((s.run now sched).racy = false → s.racy = false) ∧ ((s.run now sched).overflow = false → s.overflow = false) := by
  induction sched generalizing s with
  | nil => exact ⟨id, id⟩
  | cons e rest ih =>
    simp only [PSys.run, List.foldl_cons]
    have h1 := ih (s.step now e.1 e.2)
    have h2 := step_flags s now e.1 e.2
    simp only [PSys.run] at h1
    exact ⟨fun h => h2.1 (h1.1 h), fun h => h2.2 (h1.2 h)⟩

/-- every schedule: the invariant holds in the state reached, provided no reset was racy and the counter
    did not overflow on the way -/
theorem run_inv (B : Nat) (s : PSys) (now : Nat) (sched : List (Nat × Option Key)) (h : PInv B s)
    (hr : (s.run now sched).racy = false) (ho : (s.run now sched).overflow = false) :
    PInv B (s.run now sched) ∧ (s.run now sched).limit = s.limit := by
  induction sched generalizing s with
  | nil => exact ⟨h, rfl⟩
  | cons e rest ih =>
    simp only [PSys.run, List.foldl_cons] at hr ho ⊢
    have hf := run_flags (s.step now e.1 e.2) now rest
    simp only [PSys.run] at hf
    obtain ⟨h1, h2⟩ := step_inv B s now e.1 e.2 h (hf.1 hr) (hf.2 ho)
    have := ih (s.step now e.1 e.2) h1 hr ho
    simp only [PSys.run] at this
    exact ⟨this.1, by rw [this.2, h2]⟩

theorem init_inv (B limit : Nat) (programs : List (List PCall)) (hb : ∀ p ∈ programs, ∀ c ∈ p, c.Bounded B) :
    PInv B (PSys.init limit programs) := by
  refine ⟨?_, (by show 0 < U64; decide), Or.inl (Nat.zero_le _), ?_⟩
  · have : pendSum (PSys.init limit programs).threads = 0 := by
      apply pendSum_zero_of_idle
      intro t ht
      simp only [PSys.init, List.mem_map] at ht
      obtain ⟨p, _, rfl⟩ := ht
      rfl
    rw [this]; simp [PSys.init, MemStore.init]
  · intro t ht
    simp only [PSys.init, List.mem_map] at ht
    obtain ⟨p, hp, rfl⟩ := ht
    exact ⟨hb p hp, trivial⟩

/-- at rest nothing is pending and nobody is a witness -/
theorem quiescent_spec (s : PSys) (h : s.quiescent = true) : ∀ t ∈ s.threads, t.phase = .idle := by
  intro t ht
  simp only [PSys.quiescent, List.all_eq_true] at h
  have := h t ht
  simp only [PThread.finished, Bool.and_eq_true, beq_iff_eq] at this
  exact this.2

theorem PInv.at_rest {B : Nat} {s : PSys} (h : PInv B s) (hq : s.quiescent = true) :
    s.inner.mem.bytes ≤ s.usage ∧ s.usage ≤ max s.limit B := by
  have hidle := quiescent_spec s hq
  have h0 := pendSum_zero_of_idle s.threads hidle
  refine ⟨by have := h.cover; omega, ?_⟩
  rcases h.bound with hb | ⟨j, tj, hj, hw⟩
  · exact hb
  · rw [hidle tj (getElem?_mem hj)] at hw
    exact hw.elim

end Memc
