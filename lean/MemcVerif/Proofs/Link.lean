import MemcVerif.Model.Ops
import MemcVerif.Proofs.Frames
/-! `BinaryHandler::handle_request` over the MemoryStore is: run the store command the request stands for
    (`applyOp (reqOp req)`), then build the response from its result (`respond`). This ties the sequential
    theorems about commands (C01, C02, C05–C08) to what the wire-level model — the one the driver runs — does. -/
namespace Memc

/-- how the handler turns a command's result into what is written back -/
def respond (req : Req) (res : Res) : Option Resp :=
  let h := req.header
  let rh : RespHeader := { opcode := h.opcode, opaq := h.opaq }
  match req with
  | .get _ key =>
    let resp : Resp := match res with
      | .record rec =>
        let k : Bytes := if getKeyOp h.opcode then key else []
        .get { rh with bodyLen := rec.value.length + 4 + k.length, keyLen := k.length, extrasLen := 4, cas := rec.header.cas }
          rec.header.flags k rec.value
      | .err e => errorResp e rh
      | _ => errorResp .internalError rh
    if quietGetOp h.opcode then intoQuietGet resp else some resp
  | .delete _ _ =>
    let resp : Resp := match res with
      | .err e => errorResp e rh
      | _ => .plain rh
    if quietDeleteOp h.opcode then intoQuietMutation resp else some resp
  | .set _ _ _ _ _ =>
    let resp : Resp := match res with
      | .stored c => .plain { rh with cas := c }
      | .err e => errorResp e rh
      | _ => errorResp .internalError rh
    if quietSetOp h.opcode then intoQuietMutation resp else some resp
  | .append _ _ _ =>
    let resp : Resp := match res with
      | .stored c => .plain { rh with cas := c }
      | .err e => errorResp e rh
      | _ => errorResp .internalError rh
    if quietAppendOp h.opcode then intoQuietMutation resp else some resp
  | .delta _ _ _ _ _ =>
    let resp : Resp := match res with
      | .counter d => .counter { rh with bodyLen := 8, cas := d.cas } d.value
      | .err e => errorResp e rh
      | _ => errorResp .internalError rh
    if quietDeltaOp h.opcode then intoQuietMutation resp else some resp
  | .headerOnly _ =>
    if h.opcode = 0x0a then some (.plain rh)
    else if h.opcode = 0x07 then some (.quit rh)
    else if h.opcode = 0x17 then none
    else some (.version { rh with bodyLen := VERSION.length } VERSION)
  | .flush _ _ => if quietFlushOp h.opcode then none else some (.plain rh)
  | .tooLarge _ => some (errorResp .valueTooLarge rh)
  | .notSupported _ => some (errorResp .notSupported rh)

theorem memOps_get : memOps.get = MemStore.get := rfl
theorem memOps_set : memOps.set = MemStore.set := rfl
theorem memOps_delete : memOps.delete = MemStore.delete := rfl
theorem memOps_flush : memOps.flush = MemStore.flush := rfl

theorem handleRequest_eq (s : MemStore) (now : Nat) (req : Req) :
    handleRequest memOps s now req = ((applyOp s now (reqOp req)).1, respond req (applyOp s now (reqOp req)).2) := by
  cases req with
  | get hd key =>
    simp only [handleRequest, reqOp, applyOp, respond, Req.header, memOps_get]
    rcases hg : s.get now key with ⟨s', res⟩
    cases res <;> simp [hg]
  | delete hd key =>
    simp only [handleRequest, reqOp, applyOp, respond, Req.header, memOps_delete]
    rcases hg : s.delete key hd.cas with ⟨s', res⟩
    cases res <;> simp [hg]
  | set hd flags exp key value =>
    simp only [handleRequest, reqOp, respond, Req.header, memOps_set]
    by_cases h1 : isSetOp hd.opcode = true
    · simp only [h1, if_true, applyOp]
      rcases hg : s.set now key (Record.new value hd.cas flags exp) with ⟨s', res⟩
      cases res <;> simp [hg, statusResp, Res.ofCas]
    · by_cases h2 : isAddOp hd.opcode = true
      · simp only [h1, h2, if_true, if_false, applyOp]
        rcases hg : Cmd.add memOps s now key (Record.new value hd.cas flags exp) with ⟨s', res⟩
        cases res <;> simp [hg, statusResp, Res.ofCas]
      · simp only [h1, h2, if_false, applyOp]
        rcases hg : Cmd.replace memOps s now key (Record.new value hd.cas flags exp) with ⟨s', res⟩
        cases res <;> simp [hg, statusResp, Res.ofCas]
  | append hd key value =>
    simp only [handleRequest, reqOp, respond, Req.header]
    by_cases h1 : isAppendOp hd.opcode = true
    · simp only [h1, if_true, applyOp]
      rcases hg : Cmd.append memOps s now key (Record.new value hd.cas 0 0) with ⟨s', res⟩
      cases res <;> simp [hg, statusResp, Res.ofCas]
    · simp only [h1, if_false, applyOp]
      rcases hg : Cmd.prepend memOps s now key (Record.new value hd.cas 0 0) with ⟨s', res⟩
      cases res <;> simp [hg, statusResp, Res.ofCas]
  | delta hd d i exp key =>
    simp only [handleRequest, reqOp, applyOp, respond, Req.header]
    rcases hg : Cmd.addDelta memOps s now (Meta.new hd.cas hd.opaq exp) key d i (isIncrOp hd.opcode) with ⟨s', res⟩
    cases res <;> simp [hg]
  | headerOnly hd =>
    simp only [handleRequest, reqOp, applyOp, respond, Req.header]
    by_cases h1 : hd.opcode = 0x0a
    · simp [h1]
    · by_cases h2 : hd.opcode = 0x07
      · simp [h2]
      · by_cases h3 : hd.opcode = 0x17 <;> simp [h1, h2, h3]
  | flush hd exp =>
    simp only [handleRequest, reqOp, applyOp, respond, Req.header, memOps_flush]
  | tooLarge hd => simp [handleRequest, reqOp, applyOp, respond, Req.header]
  | notSupported hd => simp [handleRequest, reqOp, applyOp, respond, Req.header]

/-- running a list of decoded requests through the handler = running their commands -/
theorem runReqs_store (s : MemStore) (reqs : List (Nat × Req)) :
    (reqs.foldl (fun st e => (handleRequest memOps st e.1 e.2).1) s) = runOps s (reqs.map (fun e => (e.1, reqOp e.2))) := by
  induction reqs generalizing s with
  | nil => rfl
  | cons e rest ih =>
    simp only [List.foldl_cons, List.map_cons, runOps]
    rw [handleRequest_eq]
    exact ih _

/-- requests after which `Client::handle` leaves its receive loop -/
def Req.leaves (r : Req) : Bool :=
  match r with
  | .headerOnly h => h.opcode = 0x17 || h.opcode = 0x07
  | _ => false

theorem errorResp_not_quit (e : CacheError) (rh : RespHeader) : (errorResp e rh).isQuit = false := rfl

theorem intoQuietMutation_not_quit (x y : Resp) (hx : x.isQuit = false) (h : intoQuietMutation x = some y) :
    y.isQuit = false := by
  cases x <;> simp [intoQuietMutation] at h <;> subst h <;> exact hx

theorem intoQuietGet_not_quit (x y : Resp) (hx : x.isQuit = false) (h : intoQuietGet x = some y) :
    y.isQuit = false := by
  cases x <;> simp [intoQuietGet] at h
  all_goals first | (subst h; exact hx) | (obtain ⟨_, h⟩ := h; subst h; exact hx)

theorem quietM_not_quit (b : Bool) (x y : Resp) (hx : x.isQuit = false)
    (h : (if b = true then intoQuietMutation x else some x) = some y) : y.isQuit = false := by
  cases b
  · simp at h; subst h; exact hx
  · exact intoQuietMutation_not_quit x y hx (by simpa using h)

theorem quietG_not_quit (b : Bool) (x y : Resp) (hx : x.isQuit = false)
    (h : (if b = true then intoQuietGet x else some x) = some y) : y.isQuit = false := by
  cases b
  · simp at h; subst h; exact hx
  · exact intoQuietGet_not_quit x y hx (by simpa using h)

/-- only Quit and QuitQ make the loop leave -/
theorem respond_not_quit (r : Req) (res : Res) (resp : Resp) (hl : r.leaves = false)
    (h : respond r res = some resp) : resp.isQuit = false := by
  cases r with
  | get hd key =>
    simp only [respond, Req.header] at h
    exact quietG_not_quit _ _ _ (by cases res <;> rfl) h
  | delete hd key =>
    simp only [respond, Req.header] at h
    exact quietM_not_quit _ _ _ (by cases res <;> rfl) h
  | set hd flags exp key value =>
    simp only [respond, Req.header] at h
    exact quietM_not_quit _ _ _ (by cases res <;> rfl) h
  | append hd key value =>
    simp only [respond, Req.header] at h
    exact quietM_not_quit _ _ _ (by cases res <;> rfl) h
  | delta hd d i exp key =>
    simp only [respond, Req.header] at h
    exact quietM_not_quit _ _ _ (by cases res <;> rfl) h
  | headerOnly hd =>
    simp only [Req.leaves, Bool.or_eq_false_iff, decide_eq_false_iff_not] at hl
    simp only [respond, Req.header, hl.1, hl.2, if_false] at h
    by_cases h1 : hd.opcode = 0x0a
    · simp [h1] at h; subst h; rfl
    · simp [h1] at h; subst h; rfl
  | flush hd exp =>
    simp only [respond, Req.header] at h
    by_cases h1 : quietFlushOp hd.opcode = true
    · simp [h1] at h
    · simp [h1] at h; subst h; rfl
  | tooLarge hd => simp [respond] at h; subst h; rfl
  | notSupported hd => simp [respond] at h; subst h; rfl

/-- one decoded request that does not end the connection: the store moves by the request's command -/
theorem execEv_frame (now : Nat) (s : MemStore) (r : Req) (hl : r.leaves = false) :
    (execEv memOps now s (.frame r)).1 = (applyOp s now (reqOp r)).1 ∧
    (execEv memOps now s (.frame r)).2.2 = false ∧
    (execEv memOps now s (.frame r)).2.1 =
      (match respond r (applyOp s now (reqOp r)).2 with | some resp => encode resp | none => []) := by
  have hq : isQuitQ r = false := by
    cases r <;> simp_all [isQuitQ, Req.leaves]
  simp only [execEv, hq, handleRequest_eq]
  cases hr : respond r (applyOp s now (reqOp r)).2 with
  | none => simp
  | some resp => simp [respond_not_quit r _ resp hl hr]

/-- the bytes written for a list of requests, in order (each response built from the command's result in
    the state the earlier commands left) -/
def respondAll (now : Nat) : MemStore → List Req → Bytes
  | _, [] => []
  | s, r :: rest =>
    (match respond r (applyOp s now (reqOp r)).2 with | some resp => encode resp | none => []) ++
      respondAll now (applyOp s now (reqOp r)).1 rest

/-- a list of decoded requests none of which ends the connection: the receive loop stays in, the store is
    the commands' store, the output is the responses in request order -/
theorem execEvs_frames (now : Nat) (s : MemStore) (reqs : List Req) (hl : ∀ r ∈ reqs, r.leaves = false) :
    execEvs memOps now s (reqs.map .frame) =
      (runOps s (reqs.map (fun r => (now, reqOp r))), respondAll now s reqs, false) := by
  induction reqs generalizing s with
  | nil => rfl
  | cons r rest ih =>
    obtain ⟨h1, h2, h3⟩ := execEv_frame now s r (hl r (List.mem_cons_self ..))
    simp only [List.map_cons, execEvs, h2, runOps, respondAll]
    rw [h1, ih _ (fun x hx => hl x (List.mem_cons_of_mem _ hx)), h3]
    simp

end Memc
