import MemcVerif.Proofs.Ops
/-! Frame lemma: a command addressed to `k` leaves the record of every other key untouched. -/
namespace Memc
open MemStore

theorem cmd_frame_get {k k' : Key} (s : MemStore) (now : Nat) (h : k' ≠ k) :
    (memOps.get s now k).1.mem.lookup k' = s.mem.lookup k' := get_lookup_ne s now h

/-- **key isolation**: a command addressed to `k` leaves the physical record of every other key
    untouched — hence what any later command returns for that key. All nine command kinds. -/
theorem applyOp_frame (s : MemStore) (now : Nat) (op : Op) (k k' : Key) (hk : op.key = some k) (hne : k' ≠ k) :
    (applyOp s now op).1.mem.lookup k' = s.mem.lookup k' := by
  cases op with
  | get k0 =>
    simp only [Op.key, Option.some.injEq] at hk; subst hk
    simp only [applyOp]
    have := get_lookup_ne s now hne
    split <;> rename_i h <;> simp [h] at this <;> exact this
  | set k0 r =>
    simp only [Op.key, Option.some.injEq] at hk; subst hk
    simp only [applyOp]; exact set_lookup_ne s now r hne
  | add k0 r =>
    simp only [Op.key, Option.some.injEq] at hk; subst hk
    simp only [applyOp, Cmd.add, memOps]
    have hg := get_lookup_ne s now hne
    split
    · rename_i s' _ h; simp [h] at hg; exact hg
    · rename_i s' _ h; simp [h] at hg; rw [set_lookup_ne _ _ _ hne]; exact hg
  | replace k0 r =>
    simp only [Op.key, Option.some.injEq] at hk; subst hk
    simp only [applyOp, Cmd.replace, memOps]
    have hg := get_lookup_ne s now hne
    split
    · rename_i s' _ h; simp [h] at hg; rw [set_lookup_ne _ _ _ hne]; exact hg
    · rename_i s' _ h; simp [h] at hg; exact hg
  | append k0 r =>
    simp only [Op.key, Option.some.injEq] at hk; subst hk
    simp only [applyOp, Cmd.append, memOps]
    have hg := get_lookup_ne s now hne
    split
    · rename_i s' _ h; simp [h] at hg; rw [set_lookup_ne _ _ _ hne]; exact hg
    · rename_i s' _ h; simp [h] at hg; exact hg
  | prepend k0 r =>
    simp only [Op.key, Option.some.injEq] at hk; subst hk
    simp only [applyOp, Cmd.prepend, memOps]
    have hg := get_lookup_ne s now hne
    split
    · rename_i s' _ h; simp [h] at hg; rw [set_lookup_ne _ _ _ hne]; exact hg
    · rename_i s' _ h; simp [h] at hg; exact hg
  | delta k0 hd d i inc =>
    simp only [Op.key, Option.some.injEq] at hk; subst hk
    have key : (Cmd.addDelta memOps s now hd k0 d i inc).1.mem.lookup k' = s.mem.lookup k' := by
      simp only [Cmd.addDelta, memOps]
      have hg := get_lookup_ne s now hne
      rcases hget : s.get now k0 with ⟨s', res⟩
      rw [hget] at hg; simp only at hg
      cases res with
      | ok rec =>
        simp only
        cases hp : parseU64 rec.value with
        | none => simpa using hg
        | some v =>
          simp only
          rcases hs : s'.set now k0 _ with ⟨s'', res2⟩
          have := set_eq_lookup_ne hs hne
          cases res2 <;> simp only <;> rw [this] <;> exact hg
      | error e =>
        simp only
        split
        · rcases hs : s'.set now k0 _ with ⟨s'', res2⟩
          have := set_eq_lookup_ne hs hne
          cases res2 <;> simp only <;> rw [this] <;> exact hg
        · exact hg
    simp only [applyOp]
    split <;> rename_i h <;> simp [h] at key <;> exact key
  | delete k0 cas =>
    simp only [Op.key, Option.some.injEq] at hk; subst hk
    simp only [applyOp]
    have := delete_lookup_ne s cas hne
    split <;> rename_i h <;> simp [h] at this <;> exact this
  | flush t => simp [Op.key] at hk
  | nop => simp [Op.key] at hk


end Memc
