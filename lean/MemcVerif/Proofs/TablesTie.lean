import MemcVerif.Model.Handler
import MemcVerif.Generated.Tables
import MemcVerif.Model.Skip
import MemcVerif.Model.Conn
import MemcVerif.Model.Cmd
import MemcVerif.Model.Ops
/-!
# The model's tables are the source's tables

`Generated/Tables.lean` is rewritten from /repo's source by `tools/gentables.py` on every run of a check. The theorems
below are closed by kernel evaluation: they hold exactly as long as the hand-written model uses the values the source
has *now*. A section the extractor did not recognise is `none` and its theorem is vacuous (reported as "not established",
not as a violation).
-/
namespace Memc

/-- "if the extractor recognised this part of the source, its value satisfies `p`" -/
def Holds {α : Type} (o : Option α) (p : α → Prop) : Prop := ∀ a, o = some a → p a

instance {α : Type} (o : Option α) (p : α → Prop) [∀ a, Decidable (p a)] : Decidable (Holds o p) :=
  match o with
  | none => isTrue (by intro a h; cases h)
  | some a => if h : p a then isTrue (by intro b hb; cases hb; exact h) else isFalse (fun H => h (H a rfl))

def allErrors : List CacheError :=
  [.notFound, .keyExists, .valueTooLarge, .invalidArguments, .itemNotStored, .arithOnNonNumeric, .unknownCommand,
   .outOfMemory, .notSupported, .internalError, .busy, .temporaryFailure]

def OpGroup.idx : OpGroup → Nat
  | .get => 0 | .append => 1 | .set => 2 | .delete => 3 | .delta => 4 | .headerOnly => 5 | .flush => 6
  | .unsupported => 7 | .invalid => 8

def hdr0 : ReqHeader := ⟨0x80, 0, 1, 0, 0, 0, 1, 0, 0⟩

/-- status codes and message texts of `CacheError`, variant by variant in declaration order -/
theorem tie_errors :
    Holds Gen.errors (fun t => t = allErrors.map (fun e => (e.code, e.text))) := by decide

/-- every opcode the source dispatches goes to the same per-opcode parser in the model … -/
theorem tie_dispatch :
    Holds Gen.dispatch (fun t => t.all (fun p => (opGroup p.1).idx == p.2) = true) := by decide

/-- … and every other opcode value of the one-byte field is rejected by the model as it is by `from_u8` returning `None` -/
theorem tie_dispatch_complete :
    Holds Gen.dispatch (fun t => (List.range 256).all (fun op => t.any (fun p => p.1 == op) || (opGroup op).idx == 8) = true) := by
  decide +kernel

/-- the dispatch covers exactly the declared opcodes -/
theorem tie_opcodes :
    Holds Gen.opcodes (fun os => Holds Gen.dispatch (fun t => os = t.map (·.1))) := by decide

theorem tie_opcode_max :
    Holds Gen.opcodeMax (fun n => n = OPCODE_MAX) := by decide

/-- request magic accepted, response magic written -/
theorem tie_magic :
    Holds Gen.magic (fun m =>
      headerValid { hdr0 with magic := m.1 } = true ∧ headerValid { hdr0 with magic := m.1 + 1 } = false ∧
      (encodeHeader { opcode := 0, opaq := 0 }).head? = some (UInt8.ofNat m.2)) := by decide

/-- the thresholds of `request_valid`: the largest extras / key length accepted, and the first one refused -/
theorem tie_limits :
    Holds Gen.limits (fun l =>
      requestValid { hdr0 with extrasLen := l.1, bodyLen := l.1 + 1 } true = true ∧
      requestValid { hdr0 with extrasLen := l.1 + 1, bodyLen := l.1 + 2 } true = false ∧
      requestValid { hdr0 with keyLen := l.2, bodyLen := l.2 } true = true ∧
      requestValid { hdr0 with keyLen := l.2 + 1, bodyLen := l.2 + 1 } true = false) := by decide

theorem tie_skip_buf :
    Holds Gen.skipBuf (fun n => n = SKIP_BUF) := by decide

/-- does a size test written with operator `op` (0 `>`, 1 `>=`) refuse a body of `b` bytes under limit `l`? -/
def opRefuses (op b l : Nat) : Bool := if op = 0 then decide (b > l) else if op = 1 then decide (b ≥ l) else false

/-- does the model's decoder refuse (hand out 'too large' for) a header announcing `b` bytes under limit `l`? -/
def modelRefuses (b l : Nat) : Bool :=
  match (Codec.afterHeader l { hdr0 with bodyLen := b } []).1 with
  | .frame (.tooLarge _) => true
  | _ => false

/-- every comparison of the announced body length with the item size limit in the codec's source is the model's: at the
    limit itself, one byte below and one byte above, for a small and a large limit -/
theorem tie_size_tests :
    Holds Gen.sizeTests (fun ops => ops.all (fun op =>
      [1024, 1048576].all (fun l => [l - 1, l, l + 1].all (fun b => opRefuses op b l == modelRefuses b l))) = true) := by
  decide

/-- a store holding the counter `n` under key `[107]` -/
def counterStore (n : Nat) : MemStore := (MemStore.init.set 0 [107] (Record.new (toDec n) 0 0 0)).1

/-- an `add_delta` result as plain data: `some (cas, value)`, or `none` for 'not found', `some (0, code)` for another error -/
def deltaOut (r : Except CacheError DeltaResult) : Option (Nat × Nat) :=
  match r with
  | .ok d => some (d.cas, d.value)
  | .error .notFound => none
  | .error e => some (0, e.code)

/-- the rules of `add_delta` as the source states them are the model's: the expiration value the source tests before creating
    is the one (and, next to it, the only one) for which the model refuses to create; where the source wraps, the model wraps
    (2^64−1 + 1 = 0); where the source saturates, the model saturates (3 − 5 = 0) -/
theorem tie_delta_rules :
    Holds Gen.deltaRules (fun r =>
      r.2.1 = 1 ∧ r.2.2.1 = 1 ∧ r.2.2.2 = 1 ∧
      deltaOut (Cmd.addDelta memOps MemStore.init 0 (Meta.new 0 0 r.1) [107] 1 5 true).2 = none ∧
      deltaOut (Cmd.addDelta memOps MemStore.init 0 (Meta.new 0 0 (r.1 - 1)) [107] 1 5 true).2 = some (1, 5) ∧
      deltaOut (Cmd.addDelta memOps (counterStore 18446744073709551615) 0 (Meta.new 0 0 0) [107] 1 5 true).2 = some (2, 0) ∧
      deltaOut (Cmd.addDelta memOps (counterStore 3) 0 (Meta.new 0 0 0) [107] 5 9 false).2 = some (2, 0)) := by
  decide +kernel

theorem tie_version :
    Holds Gen.version (fun v => v = VERSION) := by decide

end Memc
