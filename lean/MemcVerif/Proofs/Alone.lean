import MemcVerif.Proofs.Lin
/-!
# A thread running alone performs the sequential command

Ties the micro-step model (`Conc`) to the sequential model (`applyOp`, `Cmd.*`) for **all nine** command kinds:
the calls of one command run back to back (no foreign call in between) are exactly the one-at-a-time command.
-/
namespace Memc
open MemStore

def Thread.runAlone : Nat → Thread → MemStore → Nat → MemStore × Thread
  | 0, t, s, _ => (s, t)
  | n + 1, t, s, now => let x := t.step s now; Thread.runAlone n x.2 x.1 now

/-- what `Cache::get` found, as the micro-step model records it -/
def foundOf : Except CacheError Record → Option Record
  | .ok r => some r
  | .error _ => none

theorem runAlone_done (n : Nat) (s : MemStore) (now : Nat) (rs : List CRes) :
    Thread.runAlone n { todo := [], phase := .idle, results := rs } s now = (s, { todo := [], phase := .idle, results := rs }) := by
  induction n with
  | zero => rfl
  | succ n ih => simp [Thread.runAlone, Thread.step, ih]

/-- a get-first command run alone: after its (at most three) calls the store and the answer are those of
    `afterGet` applied to the outcome of the sequential `get` -/
theorem runAlone_getFirst (s : MemStore) (now : Nat) (c : CCmd)
    (hc : ∀ k r, c ≠ .set k r) (hd : ∀ k cas, c ≠ .delete k cas) (hf : ∀ ttl, c ≠ .flush ttl) :
    Thread.runAlone 3 { todo := [c] } s now =
      ((afterGet (s.get now c.key).1 now c (foundOf (s.get now c.key).2)).1,
       { todo := [], phase := .idle, results := [(afterGet (s.get now c.key).1 now c (foundOf (s.get now c.key).2)).2] }) := by
  have hstep1 : ∀ (t : Thread), t = { todo := [c] } → t.step s now =
      match s.getByKey c.key with
      | .ok snap => (s, { todo := [], phase := .snapped c snap })
      | .error _ => Thread.afterFound { todo := [] } s now c none := by
    intro t ht; subst ht
    cases c with
    | set k r => exact absurd rfl (hc k r)
    | delete k cas => exact absurd rfl (hd k cas)
    | flush ttl => exact absurd rfl (hf ttl)
    | get k => simp [Thread.step]; rfl
    | add k r => simp [Thread.step]; rfl
    | replace k r => simp [Thread.step]; rfl
    | append k r => simp [Thread.step]; rfl
    | prepend k r => simp [Thread.step]; rfl
    | delta k h d i inc => simp [Thread.step]; rfl
  -- finishing the get with answer `found` on store `s'`, with `n+1` calls left
  have hfin : ∀ (n : Nat) (s' : MemStore) (found : Option Record) (ph : Phase),
      Thread.runAlone (n + 1) (Thread.afterFound { todo := [], phase := ph } s' now c found).2
          (Thread.afterFound { todo := [], phase := ph } s' now c found).1 now =
        ((afterGet s' now c found).1, { todo := [], phase := .idle, results := [(afterGet s' now c found).2] }) := by
    intro n s' found ph
    unfold Thread.afterFound
    by_cases hn : needsSet c found = true
    · simp only [hn, if_true, Thread.runAlone, Thread.step]
      simp [runAlone_done]
    · simp only [hn]
      simp [runAlone_done]
  unfold Thread.runAlone
  rw [hstep1 _ rfl]
  unfold MemStore.get
  cases hg : s.getByKey c.key with
  | error e =>
    simp only [foundOf]
    exact hfin 1 s none .idle
  | ok snap =>
    simp only
    unfold Thread.runAlone
    simp only [Thread.step]
    have := hfin 0 (s.checkIfExpired now c.key snap).1 (if (s.checkIfExpired now c.key snap).2 then none else some snap) (.snapped c snap)
    rw [this]
    cases hx : (s.checkIfExpired now c.key snap).2 <;> simp [foundOf]

theorem runAlone_set (s : MemStore) (now : Nat) (k : Key) (r : Record) :
    Thread.runAlone 3 { todo := [.set k r] } s now =
      ((s.set now k r).1, { todo := [], phase := .idle, results := [resOfCas (s.set now k r).2] }) := by
  simp [Thread.runAlone, Thread.step]

def delRes : Except CacheError Record → CRes
  | .ok _ => .deleted
  | .error e => .err e

theorem runAlone_delete (s : MemStore) (now : Nat) (k : Key) (cas : Nat) :
    Thread.runAlone 3 { todo := [.delete k cas] } s now =
      ((s.delete k cas).1, { todo := [], phase := .idle, results := [delRes (s.delete k cas).2] }) := by
  simp [Thread.runAlone, Thread.step, delRes]
  cases (s.delete k cas).2 <;> rfl

theorem runAlone_flush (s : MemStore) (now : Nat) (ttl : Nat) :
    Thread.runAlone 3 { todo := [.flush ttl] } s now =
      (s.flush now ttl, { todo := [], phase := .idle, results := [.done] }) := by
  simp [Thread.runAlone, Thread.step]

/-- `afterGet` on the outcome of the sequential `get` is the sequential command -/
theorem afterGet_seq (s : MemStore) (now : Nat) (c : CCmd)
    (hc : ∀ k r, c ≠ .set k r) (hd : ∀ k cas, c ≠ .delete k cas) (hf : ∀ ttl, c ≠ .flush ttl) :
    (afterGet (s.get now c.key).1 now c (foundOf (s.get now c.key).2)).1 = (applyOp s now c.toOp).1 ∧
    (afterGet (s.get now c.key).1 now c (foundOf (s.get now c.key).2)).2.toRes = (applyOp s now c.toOp).2 := by
  cases c with
  | set k r => exact absurd rfl (hc k r)
  | delete k cas => exact absurd rfl (hd k cas)
  | flush ttl => exact absurd rfl (hf ttl)
  | get k =>
    simp only [CCmd.key, CCmd.toOp, applyOp]
    rcases hg : s.get now k with ⟨s', res⟩
    cases res with
    | ok x => simp [foundOf, afterGet, CRes.toRes]
    | error e =>
      have he : e = .notFound := by
        have h2 : (s.get now k).2 = .error e := by rw [hg]
        rw [get_result] at h2
        cases hv : s.vis now k <;> simp [hv] at h2
        exact h2.symm
      simp [foundOf, afterGet, CRes.toRes, he]
  | add k r =>
    simp only [CCmd.key, CCmd.toOp, applyOp, Cmd.add, memOps]
    rcases hg : s.get now k with ⟨s', res⟩
    cases res with
    | error e =>
      simp only [foundOf, afterGet]
      cases (s'.set now k r).2 <;> simp [resOfCas, Res.ofCas, CRes.toRes]
    | ok x => simp [foundOf, afterGet, Res.ofCas, CRes.toRes]
  | replace k r =>
    simp only [CCmd.key, CCmd.toOp, applyOp, Cmd.replace, memOps]
    rcases hg : s.get now k with ⟨s', res⟩
    cases res with
    | error e => simp [foundOf, afterGet, Res.ofCas, CRes.toRes]
    | ok x =>
      simp only [foundOf, afterGet]
      cases (s'.set now k r).2 <;> simp [resOfCas, Res.ofCas, CRes.toRes]
  | append k r =>
    simp only [CCmd.key, CCmd.toOp, applyOp, Cmd.append, memOps]
    rcases hg : s.get now k with ⟨s', res⟩
    cases res with
    | error e => simp [foundOf, afterGet, Res.ofCas, CRes.toRes]
    | ok x =>
      simp only [foundOf, afterGet]
      cases (s'.set now k _).2 <;> simp [resOfCas, Res.ofCas, CRes.toRes]
  | prepend k r =>
    simp only [CCmd.key, CCmd.toOp, applyOp, Cmd.prepend, memOps]
    rcases hg : s.get now k with ⟨s', res⟩
    cases res with
    | error e => simp [foundOf, afterGet, Res.ofCas, CRes.toRes]
    | ok x =>
      simp only [foundOf, afterGet]
      cases (s'.set now k _).2 <;> simp [resOfCas, Res.ofCas, CRes.toRes]
  | delta k h d i inc =>
    simp only [CCmd.key, CCmd.toOp, applyOp, Cmd.addDelta, memOps]
    rcases hg : s.get now k with ⟨s', res⟩
    cases res with
    | error e =>
      simp only [foundOf, afterGet]
      by_cases ht : h.ttl ≠ 0xffffffff
      · rw [if_pos ht, if_pos ht]
        rcases hs : s'.set now k (Record.new (toDec i) 0 0 h.ttl) with ⟨s'', r2⟩
        cases r2 <;> simp [CRes.toRes]
      · simp [ht, CRes.toRes]
    | ok x =>
      simp only [foundOf, afterGet]
      cases hp : parseU64 x.value with
      | none => simp [CRes.toRes]
      | some v =>
        simp only
        split <;> simp_all [CRes.toRes]

end Memc
