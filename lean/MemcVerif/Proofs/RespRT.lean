import MemcVerif.Model.Wire
import MemcVerif.Proofs.BE
/-! A client's reading of the response stream: the header fields come back as written, and a reader that
    takes 24 octets and then `bodyLen` more cuts a concatenation of responses at the response boundaries. -/
namespace Memc

/-- a client's reading of a response header (`buf` holds at least 24 octets) -/
def parseRespHeader (b : Bytes) : RespHeader :=
  { opcode := getBE ((b.drop 1).take 1), keyLen := getBE ((b.drop 2).take 2), extrasLen := getBE ((b.drop 4).take 1),
    status := getBE ((b.drop 6).take 2), bodyLen := getBE ((b.drop 8).take 4), opaq := getBE ((b.drop 12).take 4),
    cas := getBE ((b.drop 16).take 8) }

/-- every field fits the width it is written with -/
def RespHeader.inRange (h : RespHeader) : Prop :=
  h.opcode < 256 ∧ h.keyLen < 256 ^ 2 ∧ h.extrasLen < 256 ∧ h.status < 256 ^ 2 ∧ h.bodyLen < 256 ^ 4 ∧
  h.opaq < 256 ^ 4 ∧ h.cas < 256 ^ 8

theorem take_drop_mid (a m c : Bytes) : ((a ++ m ++ c).drop a.length).take m.length = m := by
  simp [List.append_assoc]

theorem encodeHeader_length (h : RespHeader) : (encodeHeader h).length = 24 := by
  simp [encodeHeader, putBE_length]

theorem parseRespHeader_encode (h : RespHeader) (hr : h.inRange) (rest : Bytes) :
    parseRespHeader (encodeHeader h ++ rest) = h := by
  obtain ⟨h1, h2, h3, h4, h5, h6, h7⟩ := hr
  have e1 := take_drop_mid (putBE 1 0x81) (putBE 1 h.opcode)
    (putBE 2 h.keyLen ++ putBE 1 h.extrasLen ++ putBE 1 0 ++ putBE 2 h.status ++ putBE 4 h.bodyLen ++ putBE 4 h.opaq ++ putBE 8 h.cas ++ rest)
  have e2 := take_drop_mid (putBE 1 0x81 ++ putBE 1 h.opcode) (putBE 2 h.keyLen)
    (putBE 1 h.extrasLen ++ putBE 1 0 ++ putBE 2 h.status ++ putBE 4 h.bodyLen ++ putBE 4 h.opaq ++ putBE 8 h.cas ++ rest)
  have e3 := take_drop_mid (putBE 1 0x81 ++ putBE 1 h.opcode ++ putBE 2 h.keyLen) (putBE 1 h.extrasLen)
    (putBE 1 0 ++ putBE 2 h.status ++ putBE 4 h.bodyLen ++ putBE 4 h.opaq ++ putBE 8 h.cas ++ rest)
  have e4 := take_drop_mid (putBE 1 0x81 ++ putBE 1 h.opcode ++ putBE 2 h.keyLen ++ putBE 1 h.extrasLen ++ putBE 1 0) (putBE 2 h.status)
    (putBE 4 h.bodyLen ++ putBE 4 h.opaq ++ putBE 8 h.cas ++ rest)
  have e5 := take_drop_mid (putBE 1 0x81 ++ putBE 1 h.opcode ++ putBE 2 h.keyLen ++ putBE 1 h.extrasLen ++ putBE 1 0 ++ putBE 2 h.status) (putBE 4 h.bodyLen)
    (putBE 4 h.opaq ++ putBE 8 h.cas ++ rest)
  have e6 := take_drop_mid (putBE 1 0x81 ++ putBE 1 h.opcode ++ putBE 2 h.keyLen ++ putBE 1 h.extrasLen ++ putBE 1 0 ++ putBE 2 h.status ++ putBE 4 h.bodyLen) (putBE 4 h.opaq)
    (putBE 8 h.cas ++ rest)
  have e7 := take_drop_mid (putBE 1 0x81 ++ putBE 1 h.opcode ++ putBE 2 h.keyLen ++ putBE 1 h.extrasLen ++ putBE 1 0 ++ putBE 2 h.status ++ putBE 4 h.bodyLen ++ putBE 4 h.opaq) (putBE 8 h.cas) rest
  simp only [List.length_append, putBE_length, List.append_assoc] at e1 e2 e3 e4 e5 e6 e7
  simp only [parseRespHeader, encodeHeader, List.append_assoc, e1, e2, e3, e4, e5, e6, e7]
  rw [getBE_putBE_of_lt 1 _ (by simpa using h1), getBE_putBE_of_lt 2 _ h2, getBE_putBE_of_lt 1 _ (by simpa using h3),
    getBE_putBE_of_lt 2 _ h4, getBE_putBE_of_lt 4 _ h5, getBE_putBE_of_lt 4 _ h6, getBE_putBE_of_lt 8 _ h7]

/-- a client's framing of the response stream: 24 octets of header, then `bodyLen` octets; stops when
    fewer than a whole response is left -/
def clientSplit : (fuel : Nat) → Bytes → List Bytes
  | 0, _ => []
  | fuel + 1, b =>
    if b.length < 24 then []
    else
      let n := 24 + (parseRespHeader b).bodyLen
      if b.length < n then [] else b.take n :: clientSplit fuel (b.drop n)

/-- what the client needs of a response: fields in range and the announced body length is the real one -/
def Resp.Framed (r : Resp) : Prop := r.header.inRange ∧ (encode r).length = 24 + r.header.bodyLen

theorem encode_eq (r : Resp) : ∃ body, encode r = encodeHeader r.header ++ body := by
  cases r <;> exact ⟨_, rfl⟩

theorem clientSplit_responses (rs : List Resp) (hall : ∀ r ∈ rs, r.Framed) (fuel : Nat) (hf : rs.length ≤ fuel) :
    clientSplit fuel (rs.map encode).flatten = rs.map encode := by
  induction rs generalizing fuel with
  | nil =>
    cases fuel with
    | zero => rfl
    | succ n => simp [clientSplit]
  | cons r rest ih =>
    cases fuel with
    | zero => simp at hf
    | succ n =>
      obtain ⟨hr, hlen⟩ := hall r (List.mem_cons_self ..)
      obtain ⟨body, hb⟩ := encode_eq r
      have hp : parseRespHeader (encode r ++ (rest.map encode).flatten) = r.header := by
        rw [hb, List.append_assoc]; exact parseRespHeader_encode _ hr _
      simp only [List.map_cons, List.flatten_cons, clientSplit, hp]
      have h1 : ¬ (encode r ++ (rest.map encode).flatten).length < 24 := by
        simp only [List.length_append]; omega
      have h2 : ¬ (encode r ++ (rest.map encode).flatten).length < 24 + r.header.bodyLen := by
        simp only [List.length_append]; omega
      rw [← hlen] at h2
      simp only [h1, h2, if_false, ← hlen, List.take_left', List.drop_left']
      rw [ih (fun x hx => hall x (List.mem_cons_of_mem _ hx)) n (by simpa using hf)]

end Memc
