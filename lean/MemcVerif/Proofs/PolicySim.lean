import MemcVerif.Proofs.Sim
import MemcVerif.Model.Policy
/-! RandomPolicy that never evicts (no victims on the tape, `bad` never set: the loop guard was false or
    the store was empty whenever it was evaluated) simulates the bare MemoryStore. -/
namespace Memc

theorem evictLoop_bad_sticky (value : Nat) (tape : List Key) (p : Policy) (u : Nat) (h : p.bad = true) :
    (Policy.evictLoop value tape p u).bad = true := by
  induction tape generalizing p u with
  | nil =>
    unfold Policy.evictLoop
    by_cases hg : u > p.limit
    · by_cases he : p.inner.len = 0 <;> simp [hg, he, h]
    · simp [hg, h]
  | cons v rest ih =>
    unfold Policy.evictLoop
    by_cases hg : u > p.limit
    · by_cases he : p.inner.len = 0
      · simp [hg, he, h]
      · simp only [hg, he, if_true, if_false]
        cases hl : p.inner.mem.lookup v with
        | none => rfl
        | some r => exact ih _ _ h
    · simp [hg, h]

theorem evictLoop_nil (value : Nat) (p : Policy) (u : Nat) (h : (Policy.evictLoop value [] p u).bad = false) :
    (Policy.evictLoop value [] p u).inner = p.inner ∧ (Policy.evictLoop value [] p u).tape = [] := by
  unfold Policy.evictLoop at *
  by_cases hg : u > p.limit
  · by_cases he : p.inner.len = 0
    · simp [hg, he]
    · simp [hg, he] at h
  · simp [hg]

def polR (p : Policy) (s : MemStore) : Prop := p.inner = s ∧ p.tape = []
def polOk (p : Policy) : Prop := p.bad = false

theorem policy_sim : Sim polOps memOps polR polOk where
  get_sticky := by intro a n k h; exact h
  set_sticky := by
    intro a n k r h
    simp only [polOk, Bool.not_eq_false] at h ⊢
    show (Policy.evictLoop r.len a.tape { a with usage := wadd a.usage r.len } (wadd a.usage r.len)).bad = true
    exact evictLoop_bad_sticky _ _ _ _ h
  delete_sticky := by
    intro a k c h
    simp only [polOps, Policy.delete]
    cases (a.inner.delete k c).2 <;> exact h
  flush_sticky := by intro a n t h; exact h
  get := by
    intro a b n k hR _
    obtain ⟨h1, h2⟩ := hR
    subst h1
    exact ⟨⟨rfl, h2⟩, rfl⟩
  set := by
    intro a b n k r hR hok
    obtain ⟨h1, h2⟩ := hR
    subst h1
    obtain ⟨inner, usage, limit, tape, bad⟩ := a
    simp only at h2
    subst h2
    have hok' : (Policy.evictLoop r.len [] ⟨inner, wadd usage r.len, limit, [], bad⟩ (wadd usage r.len)).bad = false := hok
    obtain ⟨h3, h4⟩ := evictLoop_nil _ _ _ hok'
    refine ⟨⟨?_, h4⟩, ?_⟩
    · show ((Policy.evictLoop r.len [] ⟨inner, wadd usage r.len, limit, [], bad⟩ (wadd usage r.len)).inner.set n k r).1 = _
      rw [h3]; rfl
    · show ((Policy.evictLoop r.len [] ⟨inner, wadd usage r.len, limit, [], bad⟩ (wadd usage r.len)).inner.set n k r).2 = _
      rw [h3]; rfl
  delete := by
    intro a b k c hR _
    obtain ⟨h1, h2⟩ := hR
    subst h1
    simp only [polOps, memOps, Policy.delete, polR]
    cases hd : (a.inner.delete k c).2 <;> exact ⟨⟨rfl, h2⟩, rfl⟩
  flush := by
    intro a b n t hR _
    obtain ⟨h1, h2⟩ := hR
    subst h1
    exact ⟨rfl, h2⟩

/-- a limit no 64-bit counter can exceed, nothing on the victim tape, nothing evicted so far -/
def Policy.Unreachable (p : Policy) : Prop := U64 ≤ p.limit + 1 ∧ p.tape = [] ∧ p.bad = false

theorem wadd_lt (a b : Nat) : wadd a b < U64 := Nat.mod_lt _ (by decide)

theorem policy_unreachable : Pres polOps Policy.Unreachable where
  get := by intro a n k h; exact h
  delete := by
    intro a k c h
    simp only [polOps, Policy.delete]
    cases (a.inner.delete k c).2 <;> exact h
  flush := by intro a n t h; exact h
  set := by
    intro a n k r h
    obtain ⟨inner, usage, limit, tape, bad⟩ := a
    obtain ⟨h1, h2, h3⟩ := h
    simp only at h1 h2 h3
    subst h2 h3
    have hlt := wadd_lt usage r.len
    have hg : ¬ wadd usage r.len > limit := by omega
    show Policy.Unreachable ⟨((Policy.evictLoop r.len [] ⟨inner, wadd usage r.len, limit, [], false⟩ (wadd usage r.len)).inner.set n k r).1,
      (Policy.evictLoop r.len [] ⟨inner, wadd usage r.len, limit, [], false⟩ (wadd usage r.len)).usage,
      (Policy.evictLoop r.len [] ⟨inner, wadd usage r.len, limit, [], false⟩ (wadd usage r.len)).limit,
      (Policy.evictLoop r.len [] ⟨inner, wadd usage r.len, limit, [], false⟩ (wadd usage r.len)).tape,
      (Policy.evictLoop r.len [] ⟨inner, wadd usage r.len, limit, [], false⟩ (wadd usage r.len)).bad⟩
    unfold Policy.evictLoop
    simp only [hg, if_false]
    exact ⟨h1, rfl, rfl⟩

end Memc
