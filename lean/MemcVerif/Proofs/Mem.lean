import MemcVerif.Model.Cmd
/-! Helper lemmas about the association list standing for the DashMap, and the per-call frame
    properties of `MemStore` (a call addressed to `k` leaves every other key alone). -/
namespace Memc

@[simp] theorem Mem.lookup_nil (k : Key) : Mem.lookup [] k = none := rfl

theorem Mem.lookup_cons (k k' : Key) (r : Record) (m : Mem) :
    Mem.lookup ((k', r) :: m) k = if k' = k then some r else Mem.lookup m k := rfl

theorem Mem.erase_cons (k k' : Key) (r : Record) (m : Mem) :
    Mem.erase ((k', r) :: m) k = if k' = k then Mem.erase m k else (k', r) :: Mem.erase m k := by
  by_cases h : k' = k <;> simp [Mem.erase, List.filter, h]

@[simp] theorem Mem.erase_nil (k : Key) : Mem.erase [] k = [] := rfl

theorem Mem.lookup_erase_self (m : Mem) (k : Key) : (m.erase k).lookup k = none := by
  induction m with
  | nil => rfl
  | cons e m ih =>
    obtain ⟨k', r⟩ := e
    rw [Mem.erase_cons]
    by_cases h : k' = k
    · simp [h, ih]
    · simp [h, Mem.lookup_cons, ih]

theorem Mem.lookup_erase_ne (m : Mem) {k k' : Key} (h : k' ≠ k) : (m.erase k).lookup k' = m.lookup k' := by
  induction m with
  | nil => rfl
  | cons e m ih =>
    obtain ⟨k2, r⟩ := e
    rw [Mem.erase_cons]
    by_cases h2 : k2 = k
    · subst h2
      have : k2 ≠ k' := fun e => h e.symm
      simp [Mem.lookup_cons, ih, this]
    · simp [h2, Mem.lookup_cons, ih]

theorem Mem.lookup_insert_self (m : Mem) (k : Key) (r : Record) : (m.insert k r).lookup k = some r := by
  simp [Mem.insert, Mem.lookup_cons]

theorem Mem.lookup_insert_ne (m : Mem) {k k' : Key} (r : Record) (h : k' ≠ k) :
    (m.insert k r).lookup k' = m.lookup k' := by
  have : k ≠ k' := fun e => h e.symm
  simp [Mem.insert, Mem.lookup_cons, this, Mem.lookup_erase_ne m h]

theorem Mem.lookup_map (m : Mem) (f : Record → Record) (k : Key) :
    Mem.lookup (m.map (fun e => (e.1, f e.2))) k = (m.lookup k).map f := by
  induction m with
  | nil => rfl
  | cons e m ih =>
    obtain ⟨k', r⟩ := e
    by_cases h : k' = k <;> simp [Mem.lookup_cons, h, ih]

theorem Mem.lookup_some_mem {m : Mem} {k : Key} {r : Record} (h : m.lookup k = some r) : (k, r) ∈ m := by
  induction m with
  | nil => simp at h
  | cons e m ih =>
    obtain ⟨k', r'⟩ := e
    rw [Mem.lookup_cons] at h
    by_cases hk : k' = k
    · simp [hk] at h; subst hk; subst h; simp
    · simp [hk] at h; exact List.mem_cons_of_mem _ (ih h)

namespace MemStore

/-! ### what each call does to the key it addresses and to all others -/

theorem get_lookup_ne (s : MemStore) (now : Nat) {k k' : Key} (h : k' ≠ k) :
    (s.get now k).1.mem.lookup k' = s.mem.lookup k' := by
  unfold get getByKey
  cases hl : s.mem.lookup k with
  | none => simp
  | some r =>
    simp only [checkIfExpired, hl]
    split
    · simp
    · split
      · simp
      · split <;> simp [Mem.lookup_erase_ne _ h]

theorem get_casId (s : MemStore) (now : Nat) (k : Key) : (s.get now k).1.casId = s.casId := by
  unfold get getByKey
  cases hl : s.mem.lookup k with
  | none => simp
  | some r =>
    simp only [checkIfExpired, hl]
    split
    · simp
    · split
      · simp
      · split <;> simp

theorem set_lookup_ne (s : MemStore) (now : Nat) {k k' : Key} (r : Record) (h : k' ≠ k) :
    (s.set now k r).1.mem.lookup k' = s.mem.lookup k' := by
  unfold set
  split
  · cases hl : s.mem.lookup k with
    | none => simp [Mem.lookup_insert_ne _ _ h]
    | some old =>
      simp only
      split
      · rfl
      · simp [Mem.lookup_insert_ne _ _ h]
  · simp [Mem.lookup_insert_ne _ _ h]

theorem delete_lookup_ne (s : MemStore) {k k' : Key} (cas : Nat) (h : k' ≠ k) :
    (s.delete k cas).1.mem.lookup k' = s.mem.lookup k' := by
  unfold delete
  cases hl : s.mem.lookup k with
  | none => simp
  | some r =>
    simp only
    split
    · simp [Mem.lookup_erase_ne _ h]
    · rfl

theorem set_eq_lookup_ne {s s2 : MemStore} {now : Nat} {k k' : Key} {r : Record} {res : Except CacheError Nat}
    (h : s.set now k r = (s2, res)) (hne : k' ≠ k) : s2.mem.lookup k' = s.mem.lookup k' := by
  have := set_lookup_ne s now r hne; rw [h] at this; exact this

theorem get_eq_lookup_ne {s s2 : MemStore} {now : Nat} {k k' : Key} {res : Except CacheError Record}
    (h : s.get now k = (s2, res)) (hne : k' ≠ k) : s2.mem.lookup k' = s.mem.lookup k' := by
  have := get_lookup_ne s now hne; rw [h] at this; exact this

end MemStore
end Memc
