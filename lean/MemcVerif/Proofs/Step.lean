import MemcVerif.Proofs.Cmds
import MemcVerif.Proofs.Frame
/-! What one command can do to the record of a given key (all command kinds): the workhorse for the
    CAS-uniqueness (C02) and expiry (C05) invariants over histories. -/
namespace Memc
open MemStore

/-- same client-visible item: value, flags and CAS -/
def sameItem (x r : Record) : Prop :=
  r.value = x.value ∧ r.header.flags = x.header.flags ∧ r.header.cas = x.header.cas

theorem sameItem_refl (x : Record) : sameItem x x := ⟨rfl, rfl, rfl⟩

/-- the CAS a command carries -/
def Op.cas : Op → Nat
  | .set _ r | .add _ r | .replace _ r | .append _ r | .prepend _ r => r.header.cas
  | .delta _ h _ _ _ => h.cas
  | .delete _ c => c
  | .get _ | .flush _ | .nop => 0

theorem vis_none_expired {s : MemStore} {now : Nat} {k : Key} {x : Record}
    (hl : s.mem.lookup k = some x) (hv : s.vis now k = none) : x.expired now = true := by
  rw [vis_def, hl] at hv
  by_cases he : x.expired now = true
  · exact he
  · simp [he] at hv

theorem vis_some_eq {s : MemStore} {now : Nat} {k : Key} {x y : Record}
    (hl : s.mem.lookup k = some x) (hv : s.vis now k = some y) : y = x := by
  rw [vis_def, hl] at hv
  by_cases he : x.expired now = true
  · simp [he] at hv
  · simp [he] at hv; exact hv.symm

/-- the command kinds that write a record -/
def Op.stores : Op → Bool
  | .set _ _ | .add _ _ | .replace _ _ | .append _ _ | .prepend _ _ | .delta _ _ _ _ _ => true
  | .get _ | .delete _ _ | .flush _ | .nop => false

/-- outcome alternatives for the record of `k` after a command, given it held `x` before -/
def StepAlt (s s' : MemStore) (now : Nat) (op : Op) (k : Key) (x : Record) : Prop :=
    s'.mem.lookup k = none
  ∨ (∃ r', s'.mem.lookup k = some r' ∧ (r' = x ∨ ∃ t, t > 0 ∧ r' = flushRecord now t x))
  ∨ (∃ r', s'.mem.lookup k = some r' ∧ r'.header.cas = s.casId ∧ s'.casId = s.casId + 1 ∧ r'.header.timestamp = now
        ∧ op.key = some k ∧ op.stores = true)
  ∨ (∃ r', s'.mem.lookup k = some r' ∧ x.expired now = true ∧ op.cas ≠ 0 ∧ op.key = some k ∧ r'.header.timestamp = now
        ∧ op.stores = true)

/-- `set` addressed to a key that is physically present -/
theorem set_present_alt (s : MemStore) (now : Nat) (k : Key) (r x : Record) (hl : s.mem.lookup k = some x) :
    ((s.set now k r).1 = s ∧ ∃ e, (s.set now k r).2 = .error e)
    ∨ ((s.set now k r).1.mem.lookup k = some (stamp r s.casId now) ∧ (s.set now k r).1.casId = s.casId + 1
        ∧ (s.set now k r).2 = .ok s.casId) := by
  rcases set_self_cases s now k r with ⟨h1, _⟩ | ⟨h1, _⟩ | ⟨h1, h2, _⟩
  · left; rw [h1]; exact ⟨rfl, _, rfl⟩
  · right; rw [h1]; simp [Mem.lookup_insert_self]
  · rw [hl] at h2; simp at h2

/-- `set` addressed to a key that is physically absent -/
theorem set_absent_alt (s : MemStore) (now : Nat) (k : Key) (r : Record) (hl : s.mem.lookup k = none) :
    (r.header.cas = 0 ∧ (s.set now k r).1.mem.lookup k = some (stamp r s.casId now) ∧ (s.set now k r).1.casId = s.casId + 1
        ∧ (s.set now k r).2 = .ok s.casId)
    ∨ (r.header.cas ≠ 0 ∧ (s.set now k r).1.mem.lookup k = some (stamp r (satSucc r.header.cas) now)
        ∧ (s.set now k r).1.casId = s.casId ∧ (s.set now k r).2 = .ok (satSucc r.header.cas)) := by
  by_cases h0 : r.header.cas = 0
  · left; rw [set_cas0 _ _ _ _ h0]; simp [h0, Mem.lookup_insert_self]
  · right; rw [set_absent _ _ _ _ h0 hl]; simp [h0, Mem.lookup_insert_self]

theorem applyOp_casId_le (s : MemStore) (now : Nat) (op : Op) : s.casId ≤ (applyOp s now op).1.casId := by
  have hg : ∀ k, (s.get now k).1.casId = s.casId := get_casId s now
  cases op with
  | get k =>
    simp only [applyOp]
    rcases hget : s.get now k with ⟨s', res⟩
    have := hg k; rw [hget] at this; simp only at this
    cases res <;> simp only <;> omega
  | set k r => simp only [applyOp]; exact set_casId_le s now k r
  | add k r =>
    simp only [applyOp, Cmd.add, memOps]
    rcases hget : s.get now k with ⟨s', res⟩
    have := hg k; rw [hget] at this; simp only at this
    cases res <;> simp only
    · have := set_casId_le s' now k r; omega
    · omega
  | replace k r =>
    simp only [applyOp, Cmd.replace, memOps]
    rcases hget : s.get now k with ⟨s', res⟩
    have := hg k; rw [hget] at this; simp only at this
    cases res <;> simp only
    · omega
    · have := set_casId_le s' now k r; omega
  | append k r =>
    simp only [applyOp, Cmd.append, memOps]
    rcases hget : s.get now k with ⟨s', res⟩
    have := hg k; rw [hget] at this; simp only at this
    cases res <;> simp only
    · omega
    · rw [← this]; exact set_casId_le s' now k _
  | prepend k r =>
    simp only [applyOp, Cmd.prepend, memOps]
    rcases hget : s.get now k with ⟨s', res⟩
    have := hg k; rw [hget] at this; simp only at this
    cases res <;> simp only
    · omega
    · rw [← this]; exact set_casId_le s' now k _
  | delta k hd d i inc =>
    have key : s.casId ≤ (Cmd.addDelta memOps s now hd k d i inc).1.casId := by
      simp only [Cmd.addDelta, memOps]
      rcases hget : s.get now k with ⟨s', res⟩
      have := hg k; rw [hget] at this; simp only at this
      cases res with
      | ok rec =>
        simp only
        cases hp : parseU64 rec.value with
        | none => simp only; omega
        | some v =>
          simp only
          rcases hs : s'.set now k _ with ⟨s'', res2⟩
          have h4 := set_eq_casId_le hs
          cases res2 <;> simp only <;> omega
      | error e =>
        simp only
        split
        · rcases hs : s'.set now k _ with ⟨s'', res2⟩
          have h4 := set_eq_casId_le hs
          cases res2 <;> simp only <;> omega
        · simp only; omega
    simp only [applyOp]
    split <;> rename_i h <;> simp [h] at key <;> exact key
  | delete k c =>
    simp only [applyOp, MemStore.delete]
    split <;> rename_i h <;> revert h <;> (split <;> (try split) <;> intro h <;> simp at h <;> obtain ⟨rfl, _⟩ := h <;> simp)
  | flush t => simp only [applyOp, MemStore.flush]; split <;> simp
  | nop => simp [applyOp]

end Memc

namespace Memc
open MemStore

theorem alt_of_set_present {s : MemStore} {now : Nat} {op : Op} {k : Key} {x : Record} (r : Record)
    (hl : s.mem.lookup k = some x) (hkey : op.key = some k) (hst : op.stores = true) :
    StepAlt s (s.set now k r).1 now op k x := by
  rcases set_present_alt s now k r x hl with ⟨h1, _⟩ | ⟨h1, h2, _⟩
  · right; left; rw [h1]; exact ⟨x, hl, Or.inl rfl⟩
  · right; right; left; exact ⟨_, h1, by simp [stamp], h2, by simp [stamp], hkey, hst⟩

theorem alt_of_set_collected {s s' : MemStore} {now : Nat} {op : Op} {k : Key} {x : Record} (r : Record)
    (hl' : s'.mem.lookup k = none) (hc : s'.casId = s.casId) (hx : x.expired now = true)
    (hop : op.cas = r.header.cas) (hkey : op.key = some k) (hst : op.stores = true) :
    StepAlt s (s'.set now k r).1 now op k x := by
  rcases set_absent_alt s' now k r hl' with ⟨_, h1, h2, _⟩ | ⟨h0, h1, _, _⟩
  · right; right; left; exact ⟨_, h1, by simp [stamp, hc], by omega, by simp [stamp], hkey, hst⟩
  · right; right; right; exact ⟨_, h1, hx, by rw [hop]; exact h0, hkey, by simp [stamp], hst⟩

theorem flushRecord_same (now t : Nat) (x : Record) : sameItem x (flushRecord now t x) := by
  unfold flushRecord sameItem; split <;> simp

/-- everything one command can do to the record of a key that is physically present -/
theorem step_alt (s : MemStore) (now : Nat) (op : Op) (k : Key) (x : Record) (hl : s.mem.lookup k = some x) :
    StepAlt s (applyOp s now op).1 now op k x := by
  by_cases hk : op.key = some k
  · -- the facts about the command's own `get`
    have hget : (∃ y, s.vis now k = some y) ∨ s.vis now k = none := by
      cases s.vis now k <;> simp
    have hA : ∀ y, s.vis now k = some y → s.get now k = (s, .ok x) := by
      intro y hy; have := vis_some_eq hl hy; subst this; exact get_vis_some hy
    have hB : s.vis now k = none → x.expired now = true ∧ (s.get now k).2 = .error .notFound
        ∧ (s.get now k).1.mem.lookup k = none ∧ (s.get now k).1.casId = s.casId := by
      intro hv; obtain ⟨h1, h2⟩ := get_vis_none hv
      exact ⟨vis_none_expired hl hv, h1, h2, get_casId s now k⟩
    cases op with
    | flush t => simp [Op.key] at hk
    | nop => simp [Op.key] at hk
    | get k0 =>
      simp [Op.key] at hk; subst hk
      simp only [applyOp]
      rcases hget with ⟨y, hy⟩ | hv
      · rw [hA y hy]; right; left; exact ⟨x, hl, Or.inl rfl⟩
      · obtain ⟨_, h1, h2, _⟩ := hB hv
        rcases hg : s.get now k0 with ⟨s', res⟩
        rw [hg] at h1 h2; simp only at h1 h2; subst h1
        left; exact h2
    | set k0 r =>
      simp [Op.key] at hk; subst hk
      simp only [applyOp]; exact alt_of_set_present r hl rfl rfl
    | add k0 r =>
      simp [Op.key] at hk; subst hk
      simp only [applyOp, Cmd.add, memOps]
      rcases hget with ⟨y, hy⟩ | hv
      · rw [hA y hy]; right; left; exact ⟨x, hl, Or.inl rfl⟩
      · obtain ⟨hx, h1, h2, h3⟩ := hB hv
        rcases hg : s.get now k0 with ⟨s', res⟩
        rw [hg] at h1 h2 h3; simp only at h1 h2 h3; subst h1
        exact alt_of_set_collected r h2 h3 hx rfl rfl rfl
    | replace k0 r =>
      simp [Op.key] at hk; subst hk
      simp only [applyOp, Cmd.replace, memOps]
      rcases hget with ⟨y, hy⟩ | hv
      · rw [hA y hy]; exact alt_of_set_present r hl rfl rfl
      · obtain ⟨hx, h1, h2, h3⟩ := hB hv
        rcases hg : s.get now k0 with ⟨s', res⟩
        rw [hg] at h1 h2 h3; simp only at h1 h2 h3; subst h1
        left; exact h2
    | append k0 r =>
      simp [Op.key] at hk; subst hk
      simp only [applyOp, Cmd.append, memOps]
      rcases hget with ⟨y, hy⟩ | hv
      · rw [hA y hy]; exact alt_of_set_present _ hl rfl rfl
      · obtain ⟨hx, h1, h2, h3⟩ := hB hv
        rcases hg : s.get now k0 with ⟨s', res⟩
        rw [hg] at h1 h2 h3; simp only at h1 h2 h3; subst h1
        left; exact h2
    | prepend k0 r =>
      simp [Op.key] at hk; subst hk
      simp only [applyOp, Cmd.prepend, memOps]
      rcases hget with ⟨y, hy⟩ | hv
      · rw [hA y hy]; exact alt_of_set_present _ hl rfl rfl
      · obtain ⟨hx, h1, h2, h3⟩ := hB hv
        rcases hg : s.get now k0 with ⟨s', res⟩
        rw [hg] at h1 h2 h3; simp only at h1 h2 h3; subst h1
        left; exact h2
    | delta k0 hd d i inc =>
      simp [Op.key] at hk; subst hk
      have key : StepAlt s (Cmd.addDelta memOps s now hd k0 d i inc).1 now (.delta k0 hd d i inc) k0 x := by
        simp only [Cmd.addDelta, memOps]
        rcases hget with ⟨y, hy⟩ | hv
        · rw [hA y hy]; simp only
          cases hp : parseU64 x.value with
          | none => right; left; exact ⟨x, hl, Or.inl rfl⟩
          | some v =>
            simp only
            have := alt_of_set_present (op := .delta k0 hd d i inc) (now := now)
              ⟨{ hd with flags := x.header.flags }, toDec (if inc then (v + d) % U64 else if d > v then 0 else v - d)⟩ hl rfl rfl
            rcases hs : s.set now k0 _ with ⟨s'', res2⟩
            rw [hs] at this
            cases res2 <;> exact this
        · obtain ⟨hx, h1, h2, h3⟩ := hB hv
          rcases hg : s.get now k0 with ⟨s', res⟩
          rw [hg] at h1 h2 h3; simp only at h1 h2 h3; subst h1
          simp only
          split
          · have := alt_of_set_collected (s := s) (op := .delta k0 hd d i inc) (now := now) (x := x)
              (Record.new (toDec i) 0 0 hd.ttl) h2 h3 hx
            rcases set_absent_alt s' now k0 (Record.new (toDec i) 0 0 hd.ttl) h2 with ⟨_, h5, h6, _⟩ | ⟨h0, _⟩
            · rcases hs : s'.set now k0 _ with ⟨s'', res2⟩
              rw [hs] at h5 h6; simp only at h5 h6
              have alt : StepAlt s s'' now (.delta k0 hd d i inc) k0 x := by
                right; right; left; exact ⟨_, h5, by simp [stamp, h3], by omega, by simp [stamp], rfl, rfl⟩
              cases res2 <;> exact alt
            · simp [Record.new, Meta.new] at h0
          · left; exact h2
      simp only [applyOp]
      split <;> rename_i h <;> simp [h] at key <;> exact key
    | delete k0 c =>
      simp [Op.key] at hk; subst hk
      simp only [applyOp]
      by_cases hc : c = 0 ∨ x.header.cas = c
      · rw [delete_ok s k0 c x hl hc]; left; simp [Mem.lookup_erase_self]
      · rw [delete_mismatch s k0 c x hl hc]; right; left; exact ⟨x, hl, Or.inl rfl⟩
  · -- not addressed to k
    cases op with
    | flush t =>
      simp only [applyOp]
      by_cases ht : t > 0
      · right; left; refine ⟨flushRecord now t x, ?_, Or.inr ⟨t, ht, rfl⟩⟩
        rw [flush_lookup, hl]; simp [ht]
      · left; rw [flush_lookup]; simp [ht]
    | nop => right; left; exact ⟨x, by simp [applyOp, hl], Or.inl rfl⟩
    | get k0 => right; left; exact ⟨x, by rw [applyOp_frame s now _ k0 k rfl (fun e => hk (by simp [Op.key, e])), hl], Or.inl rfl⟩
    | set k0 r => right; left; exact ⟨x, by rw [applyOp_frame s now _ k0 k rfl (fun e => hk (by simp [Op.key, e])), hl], Or.inl rfl⟩
    | add k0 r => right; left; exact ⟨x, by rw [applyOp_frame s now _ k0 k rfl (fun e => hk (by simp [Op.key, e])), hl], Or.inl rfl⟩
    | replace k0 r => right; left; exact ⟨x, by rw [applyOp_frame s now _ k0 k rfl (fun e => hk (by simp [Op.key, e])), hl], Or.inl rfl⟩
    | append k0 r => right; left; exact ⟨x, by rw [applyOp_frame s now _ k0 k rfl (fun e => hk (by simp [Op.key, e])), hl], Or.inl rfl⟩
    | prepend k0 r => right; left; exact ⟨x, by rw [applyOp_frame s now _ k0 k rfl (fun e => hk (by simp [Op.key, e])), hl], Or.inl rfl⟩
    | delta k0 a b c d => right; left; exact ⟨x, by rw [applyOp_frame s now _ k0 k rfl (fun e => hk (by simp [Op.key, e])), hl], Or.inl rfl⟩
    | delete k0 c => right; left; exact ⟨x, by rw [applyOp_frame s now _ k0 k rfl (fun e => hk (by simp [Op.key, e])), hl], Or.inl rfl⟩

end Memc
