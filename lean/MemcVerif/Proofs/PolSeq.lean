import MemcVerif.Model.PolConc
import MemcVerif.Proofs.PolicySim
/-! The two models of `RandomPolicy::set` agree: the micro-step model (`Model/PolConc`) run by a single thread, with
    the victims of the tape as the scheduler's victim choices, ends where the sequential model (`Model/Policy`) ends,
    whenever the tape is one the loop could have produced (`bad = false`). -/
namespace Memc

/-- the schedule of one thread that evicts the victims of `tape` in order and then finishes its store -/
def seqSched (tape : List Key) : List (Nat × Option Key) :=
  (tape.flatMap fun v => [(0, none), (0, some v), (0, none)]) ++ [(0, none), (0, none), (0, none)]

def oneThread (inner : MemStore) (usage limit : Nat) (t : PThread) (racy overflow : Bool) : PSys :=
  { inner := inner, usage := usage, limit := limit, threads := [t], racy := racy, overflow := overflow }

theorem run_cons (s : PSys) (now : Nat) (e : Nat × Option Key) (rest : List (Nat × Option Key)) :
    s.run now (e :: rest) = (s.step now e.1 e.2).run now rest := rfl

theorem run_append (s : PSys) (now : Nat) (a b : List (Nat × Option Key)) :
    s.run now (a ++ b) = (s.run now a).run now b := by
  simp [PSys.run, List.foldl_append]

theorem loop_agree (now : Nat) (k : Key) (r : Record) (res : List CRes) (racy overflow : Bool)
    (tape : List Key) (p : Policy) (hb : (Policy.evictLoop r.len tape p p.usage).bad = false) :
    (oneThread p.inner p.usage p.limit ⟨[], .looping k r p.usage, res⟩ racy overflow).run now (seqSched tape) =
      oneThread ((Policy.evictLoop r.len tape p p.usage).inner.set now k r).1 (Policy.evictLoop r.len tape p p.usage).usage p.limit
        ⟨[], .idle, res ++ [resOfCas ((Policy.evictLoop r.len tape p p.usage).inner.set now k r).2]⟩ racy overflow := by
  induction tape generalizing p with
  | nil =>
    unfold Policy.evictLoop at hb ⊢
    by_cases hg : p.usage > p.limit
    · by_cases he : p.inner.len = 0
      · simp only [hg, he, if_true] at hb ⊢
        simp [seqSched, PSys.run, PSys.step, PSys.stepThread, oneThread, hg, he, PSys.othersIdle]
      · simp [hg, he] at hb
    · simp only [hg, if_false] at hb ⊢
      simp [seqSched, PSys.run, PSys.step, PSys.stepThread, oneThread, hg]
  | cons v rest ih =>
    unfold Policy.evictLoop at hb ⊢
    by_cases hg : p.usage > p.limit
    · by_cases he : p.inner.len = 0
      · simp [hg, he] at hb
      · simp only [hg, he, if_true, if_false] at hb ⊢
        cases hl : p.inner.mem.lookup v with
        | none => simp [hl] at hb
        | some vr =>
          simp only [hl] at hb ⊢
          have hstep : (oneThread p.inner p.usage p.limit ⟨[], .looping k r p.usage, res⟩ racy overflow).run now
              [(0, none), (0, some v), (0, none)] =
              oneThread { p.inner with mem := p.inner.mem.erase v } (wsub p.usage vr.len) p.limit
                ⟨[], .looping k r (wsub p.usage vr.len), res⟩ racy overflow := by
            simp [PSys.run, PSys.step, PSys.stepThread, oneThread, hg, he, hl]
          have : seqSched (v :: rest) = [(0, none), (0, some v), (0, none)] ++ seqSched rest := by
            simp [seqSched]
          rw [this, run_append, hstep]
          exact ih { p with inner := { p.inner with mem := p.inner.mem.erase v }, usage := wsub p.usage vr.len } hb
    · simp [hg] at hb

/-- **the sequential model is the micro-step model run by one thread**: for every store state, counter, limit,
    record and victim tape the loop accepts, a single thread performing `set k r` with the tape's victims reaches the
    store, counter and answer of `Policy.set` -/
theorem set_agree (inner : MemStore) (usage limit now : Nat) (k : Key) (r : Record) (tape : List Key)
    (hno : usage + r.len < U64)
    (hb : ((⟨inner, usage, limit, tape, false⟩ : Policy).set now k r).1.bad = false) :
    (oneThread inner usage limit ⟨[.set k r], .idle, []⟩ false false).run now ((0, none) :: seqSched tape) =
      oneThread ((⟨inner, usage, limit, tape, false⟩ : Policy).set now k r).1.inner
        ((⟨inner, usage, limit, tape, false⟩ : Policy).set now k r).1.usage limit
        ⟨[], .idle, [resOfCas ((⟨inner, usage, limit, tape, false⟩ : Policy).set now k r).2]⟩ false false := by
  have h1 : (oneThread inner usage limit ⟨[.set k r], .idle, []⟩ false false).step now 0 none =
      oneThread inner (wadd usage r.len) limit ⟨[], .looping k r (wadd usage r.len), []⟩ false false := by
    simp [PSys.step, PSys.stepThread, oneThread]
    apply decide_eq_false
    omega
  rw [run_cons, h1]
  have hb' : (Policy.evictLoop r.len tape ⟨inner, wadd usage r.len, limit, tape, false⟩ (wadd usage r.len)).bad = false := hb
  have := loop_agree now k r [] false false tape ⟨inner, wadd usage r.len, limit, tape, false⟩ hb'
  simp only [List.nil_append] at this
  exact this

end Memc
