import MemcVerif.Model.Bytes
/-! `parseU64 (toDec n) = some n`: the text a counter update stores parses back to the number returned. -/
namespace Memc

/-- value of a digit string (most significant first), starting from accumulator `a` -/
def valOf (ds : Bytes) (a : Nat) : Nat := ds.foldl (fun acc b => acc * 10 + (b.toNat - 48)) a

@[simp] theorem valOf_nil (a : Nat) : valOf [] a = a := by simp [valOf]
@[simp] theorem valOf_cons (b : UInt8) (t : Bytes) (a : Nat) : valOf (b :: t) a = valOf t (a * 10 + (b.toNat - 48)) := by
  simp [valOf]

theorem valOf_split (ds : Bytes) (a : Nat) : valOf ds a = a * 10 ^ ds.length + valOf ds 0 := by
  induction ds generalizing a with
  | nil => simp
  | cons b t ih =>
    simp only [valOf_cons, List.length_cons]
    rw [ih (a * 10 + (b.toNat - 48)), ih (0 * 10 + (b.toNat - 48))]
    generalize (b.toNat - 48) = x
    generalize valOf t 0 = v
    grind

theorem valOf_ge (ds : Bytes) (a : Nat) : a ≤ valOf ds a := by
  induction ds generalizing a with
  | nil => simp
  | cons b t ih => simp only [valOf_cons]; have := ih (a * 10 + (b.toNat - 48)); omega

/-- a digit string whose value fits in u64 parses to that value (Rust's checked accumulate) -/
theorem parseDigits_digits (ds : Bytes) (a : Nat) (hd : ∀ b ∈ ds, isDigit b = true) (hv : valOf ds a < U64) :
    parseDigits ds a = some (valOf ds a) := by
  induction ds generalizing a with
  | nil => simp [parseDigits]
  | cons b t ih =>
    simp only [valOf_cons] at hv ⊢
    have hb : isDigit b = true := hd b (List.mem_cons_self ..)
    have hlt : a * 10 + (b.toNat - 48) < U64 := Nat.lt_of_le_of_lt (valOf_ge t _) hv
    simp only [parseDigits, hb, hlt, if_true]
    exact ih _ (fun x hx => hd x (List.mem_cons_of_mem _ hx)) hv

theorem digit_toNat (n : Nat) : (UInt8.ofNat (48 + n % 10)).toNat = 48 + n % 10 := by
  rw [UInt8.toNat_ofNat']; omega

theorem digit_isDigit (n : Nat) : isDigit (UInt8.ofNat (48 + n % 10)) = true := by
  simp only [isDigit, digit_toNat]; simp; omega

/-- `toDecAux` with enough fuel writes the decimal digits of `n` in front of `acc` -/
theorem toDecAux_spec (fuel n : Nat) (acc : Bytes) (hf : n < fuel) :
    valOf (toDecAux fuel n acc) 0 = n * 10 ^ acc.length + valOf acc 0 ∧
    ((∀ b ∈ acc, isDigit b = true) → ∀ b ∈ toDecAux fuel n acc, isDigit b = true) ∧
    toDecAux fuel n acc ≠ [] := by
  induction fuel generalizing n acc with
  | zero => omega
  | succ f ih =>
    simp only [toDecAux]
    by_cases h0 : n / 10 = 0
    · simp only [h0, if_true]
      refine ⟨?_, ?_, by simp⟩
      · simp only [valOf_cons, digit_toNat]
        rw [valOf_split acc]
        have : n % 10 = n := by omega
        simp [this]
      · intro hacc b hb
        rcases List.mem_cons.mp hb with rfl | hb
        · exact digit_isDigit n
        · exact hacc b hb
    · simp only [h0, if_false]
      have hlt : n / 10 < f := by omega
      obtain ⟨h1, h2, h3⟩ := ih (n / 10) (UInt8.ofNat (48 + n % 10) :: acc) hlt
      refine ⟨?_, ?_, h3⟩
      · rw [h1]
        simp only [valOf_cons, List.length_cons, digit_toNat]
        rw [valOf_split acc (0 * 10 + (48 + n % 10 - 48))]
        have hn : n = 10 * (n / 10) + n % 10 := by omega
        have hx : 0 * 10 + (48 + n % 10 - 48) = n % 10 := by omega
        rw [hx]
        generalize valOf acc 0 = v
        generalize hq : n / 10 = q at *
        generalize hr : n % 10 = r at *
        subst hn
        grind
      · intro hacc
        apply h2
        intro b hb
        rcases List.mem_cons.mp hb with rfl | hb
        · exact digit_isDigit n
        · exact hacc b hb

theorem toDec_spec (n : Nat) :
    valOf (toDec n) 0 = n ∧ (∀ b ∈ toDec n, isDigit b = true) ∧ toDec n ≠ [] := by
  obtain ⟨h1, h2, h3⟩ := toDecAux_spec (n + 1) n [] (by omega)
  exact ⟨by simpa [toDec] using h1, by simpa [toDec] using h2 (by simp), by simpa [toDec] using h3⟩

/-- digit strings are parsed as such (no `+` handling interferes) -/
theorem parseU64_digits (ds : Bytes) (hne : ds ≠ []) (hd : ∀ b ∈ ds, isDigit b = true) (hv : valOf ds 0 < U64) :
    parseU64 ds = some (valOf ds 0) := by
  cases ds with
  | nil => exact absurd rfl hne
  | cons b t =>
    have hb : isDigit b = true := hd b (List.mem_cons_self ..)
    have h43 : b ≠ 43 := by
      intro e; subst e; simp [isDigit] at hb
    simp only [parseU64, h43, if_false]
    exact parseDigits_digits (b :: t) 0 hd hv

/-- **round trip**: the decimal text of any u64 parses back to it -/
theorem parseU64_toDec (n : Nat) (h : n < U64) : parseU64 (toDec n) = some n := by
  obtain ⟨h1, h2, h3⟩ := toDec_spec n
  have := parseU64_digits (toDec n) h3 h2 (by rw [h1]; exact h)
  rw [h1] at this; exact this

/-- anything containing a byte that is neither a digit nor a leading `+` is rejected -/
theorem parseDigits_nondigit (ds : Bytes) (a : Nat) (h : ∃ b ∈ ds, isDigit b = false) : parseDigits ds a = none := by
  induction ds generalizing a with
  | nil => simp at h
  | cons b t ih =>
    simp only [parseDigits]
    by_cases hb : isDigit b = true
    · simp only [hb, if_true]
      split
      · apply ih
        obtain ⟨x, hx, hxd⟩ := h
        simp at hx
        rcases hx with rfl | hx
        · rw [hb] at hxd; simp at hxd
        · exact ⟨x, hx, hxd⟩
      · rfl
    · simp [hb]

theorem parseU64_empty : parseU64 [] = none := rfl

theorem parseU64_nondigit (b : UInt8) (t : Bytes) (hb : b ≠ 43) (h : ∃ x ∈ b :: t, isDigit x = false) :
    parseU64 (b :: t) = none := by
  simp only [parseU64, hb, if_false]
  exact parseDigits_nondigit _ 0 h

/-- whatever parses is a u64 -/
theorem parseDigits_lt (ds : Bytes) (a n : Nat) (ha : a < U64) (h : parseDigits ds a = some n) : n < U64 := by
  induction ds generalizing a with
  | nil => simp [parseDigits] at h; omega
  | cons b t ih =>
    simp only [parseDigits] at h
    split at h
    · split at h
      · rename_i hlt; exact ih _ hlt h
      · simp at h
    · simp at h

theorem parseU64_lt (v : Bytes) (n : Nat) (h : parseU64 v = some n) : n < U64 := by
  cases v with
  | nil => simp [parseU64] at h
  | cons b t =>
    simp only [parseU64] at h
    split at h
    · split at h
      · simp at h
      · exact parseDigits_lt t 0 n (by simp [U64]) h
    · exact parseDigits_lt (b :: t) 0 n (by simp [U64]) h

end Memc
