import MemcVerif.Model.Bytes
import MemcVerif.Model.Store
import MemcVerif.Model.Cmd
import MemcVerif.Model.Wire
import MemcVerif.Model.Handler
import MemcVerif.Model.Conn
import MemcVerif.Model.Ops
import MemcVerif.Model.Policy
