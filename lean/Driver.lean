import MemcVerif.Model.Conn
import MemcVerif.Model.Policy
import MemcVerif.Model.Server
import MemcVerif.Model.Conc
import MemcVerif.Model.PolConc
import MemcVerif.Model.Timed
/-!
# Line-protocol driver: runs the executable model on the operations the harness ran on the real code.
One input line, one output line.
-/
open Memc

structure DState where
  limit : Nat := 1048576
  now : Nat := 0
  store : MemStore := MemStore.init
  conn : Conn := Conn.init
  cst : CodecState := .none
  cbuf : Bytes := []
  acc : Bytes := []
  pol : Option Policy := none
  srv : Srv := Srv.init 1
  stalled : List Nat := []
  cthreads : List (List CCmd) := []
  pthreads : List (List PCall) := []
  psetup : List PCall := []
  plimit : Nat := 0

/-- the `MemcStore` command a decoded request stands for (loud opcodes of the sched suite) -/
def reqCCmd (req : Req) : Option CCmd :=
  let h := req.header
  match req with
  | .get _ key => some (.get key)
  | .delete _ key => some (.delete key h.cas)
  | .set _ flags exp key value =>
    let nr := Record.new value h.cas flags exp
    some (if isSetOp h.opcode then .set key nr else if isAddOp h.opcode then .add key nr else .replace key nr)
  | .append _ key value =>
    let nr := Record.new value h.cas 0 0
    some (if isAppendOp h.opcode then .append key nr else .prepend key nr)
  | .delta _ delta initial exp key => some (.delta key (Meta.new h.cas h.opaq exp) delta initial (isIncrOp h.opcode))
  | .flush _ exp => some (.flush exp)
  | _ => none

def canonRes : CRes → String
  | .hit r => s!"hit:{toHexD r.value}:{r.header.flags}:{r.header.cas}"
  | .stored c => s!"ok:{c}"
  | .counter c v => s!"cnt:{c}:{v}"
  | .deleted => "ok:0"
  | .done => "ok:0"
  | .err e => s!"err:{e.code}"

def canonResp (o : Option Resp) : String :=
  match o with
  | none => "silent"
  | some (.error h _) => s!"err:{h.status}"
  | some (.get h fl _ v) => s!"hit:{toHexD v}:{fl}:{h.cas}"
  | some (.counter h v) => s!"cnt:{h.cas}:{v}"
  | some (.plain h) => s!"ok:{h.cas}"
  | some (.quit h) => s!"ok:{h.cas}"
  | some (.version h _) => s!"ok:{h.cas}"

def insertSorted (x : String × String) : List (String × String) → List (String × String)
  | [] => [x]
  | y :: ys => if x.1 ≤ y.1 then x :: y :: ys else y :: insertSorted x ys

def dumpMem (m : Mem) : String :=
  let entries := m.map (fun e =>
    (toHex e.1, s!"k={toHexD e.1} v={toHexD e.2.value} f={e.2.header.flags} c={e.2.header.cas} ts={e.2.header.timestamp} ttl={e.2.header.ttl}"))
  let sorted := entries.foldl (fun acc e => insertSorted e acc) []
  "dump " ++ ";".intercalate (sorted.map (·.2))

def showResp (o : Option Resp) : String :=
  match o with
  | some r => toHex (encode r)
  | none => "silent"

def reqLine (d : DState) (b : Bytes) : DState × String :=
  match Codec.decode d.limit .none b with
  | (.needMore, _, _) => (d, "more")
  | (.err, _, _) => (d, "err")
  | (.frame r, _, rest) =>
    let tail := if rest.isEmpty then "" else s!" rest={rest.length}"
    match d.pol with
    | none =>
      let (s', o) := handleRequest memOps d.store d.now r
      ({ d with store := s' }, "resp " ++ showResp o ++ tail)
    | some p =>
      let (p', o) := handleRequest polOps p d.now r
      ({ d with pol := some p' }, "resp " ++ showResp o ++ tail)

def decLoop (limit now : Nat) : Nat → MemStore → CodecState → Bytes → List String → MemStore × CodecState × Bytes × List String
  | 0, s, st, buf, acc => (s, st, buf, acc)
  | fuel + 1, s, st, buf, acc =>
    match Codec.decode limit st buf with
    | (.needMore, st', buf') => (s, st', buf', s!"M{buf'.length}" :: acc)
    | (.err, st', buf') => (s, st', buf', "E" :: acc)
    | (.frame r, st', buf') =>
      let (s', o) := handleRequest memOps s now r
      decLoop limit now fuel s' st' buf' (("F" ++ showResp o) :: acc)

def ccmdPCall : CCmd → Option PCall
  | .set k r => some (.set k r)
  | .get k => some (.get k)
  | .delete k c => some (.delete k c)
  | .flush t => some (.flush t)
  | _ => none

def framesPCalls (limit : Nat) (frames : List String) : List PCall :=
  frames.filterMap (fun hx => match fromHex hx with
    | some b => match Codec.decode limit .none b with
      | (.frame r, _, _) => (reqCCmd r).bind ccmdPCall
      | _ => none
    | none => none)

def phaseName : PPhase → String
  | .idle => "idle" | .looping _ _ _ => "looping" | .evicting _ _ _ => "evicting" | .evicted _ _ _ => "evicted"
  | .resetting _ _ _ => "resetting" | .ready _ _ => "ready" | .deleted _ _ => "deleted"

/-- one granted call of the real execution → the model's atomic steps it stands for; `none` = the model's
    thread is not where the implementation's thread was -/
def pgrant (s : PSys) (now i : Nat) (what : String) (victim : Option Key) : Option PSys :=
  match s.threads[i]? with
  | none => none
  | some t =>
    match what, t.phase, t.todo with
    | "pset", .idle, .set _ _ :: _ => some (s.step now i none)
    | "len", .looping _ _ u, _ =>
      if u > s.limit then
        let s1 := s.step now i none
        match s1.threads[i]? with
        | some t1 => (match t1.phase with | .resetting _ _ _ => some (s1.step now i none) | _ => some s1)
        | none => none
      else none
    | "rm", .evicting _ _ _, _ =>
      let s1 := s.step now i victim
      match s1.threads[i]? with
      | some t1 => (match t1.phase with
        | .evicted _ _ _ => some (s1.step now i none)
        | _ => if victim.isSome then none else some s1)   -- a reported victim that is not stored
      | none => none
    | "set", .looping _ _ u, _ => if u > s.limit then none else some (s.step now i none)
    | "set", .ready _ _, _ => some (s.step now i none)
    | "delete", .idle, .delete _ _ :: _ =>
      let s1 := s.step now i none
      match s1.threads[i]? with
      | some t1 => (match t1.phase with | .deleted _ _ => some (s1.step now i none) | _ => some s1)
      | none => none
    | "get", .idle, .get _ :: _ => some (s.step now i none)
    | "flush", .idle, .flush _ :: _ => some (s.step now i none)
    | _, _, _ => none

def pgrants (s : PSys) (now : Nat) : List String → Nat → PSys × Option String
  | [], _ => (s, none)
  | tok :: rest, n =>
    match tok.splitOn ":" with
    | i :: what :: vs =>
      match i.toNat? with
      | some k =>
        let victim : Option Key := match vs with
          | [hx] => if hx == "-" then none else fromHex hx
          | _ => none
        match pgrant s now k what victim with
        | some s' => pgrants s' now rest (n + 1)
        | none =>
          let ph := match s.threads[k]? with | some t => phaseName t.phase | none => "absent"
          (s, some s!"desync at call {n} ({tok}): model thread {k} is {ph}")
      | none => (s, some s!"bad token {tok}")
    | _ => (s, some s!"bad token {tok}")

/-- `tcase`: arrivals `t:hex` on a fresh connection of a fresh store under the receive timeout `rx`, then the instant at which
    the client looks: (connection closed by then?, everything written) -/
def tcaseRun (limit rx now : Nat) : TConn → MemStore → Bytes → List String → Option (Bool × Bytes)
  | _, _, _, [] => none
  | tc, _, acc, [fin] =>
    match fin.toNat? with
    | some tf => some (tc.conn.closed || decide (tc.deadline ≤ tf), acc)
    | none => none
  | tc, s, acc, tok :: rest =>
    match tok.splitOn ":" with
    | [t, hx] =>
      match t.toNat?, fromHex hx with
      | some tv, some b =>
        let r := tfeed memOps limit rx now tv tc s b
        tcaseRun limit rx now r.1 r.2.1 (acc ++ r.2.2) rest
      | _, _ => none
    | _ => none

def step (d : DState) (line : String) : DState × String :=
  match line.trimAscii.toString.splitOn " " with
  | ["new", n] =>
    match n.toNat? with
    | some k => ({ limit := k }, "ok")
    | none => (d, "bad-op")
  | ["now", n] =>
    match n.toNat? with
    | some k => ({ d with now := k }, "ok")
    | none => (d, "bad-op")
  | ["req", hx] =>
    match fromHex hx with
    | some b => reqLine d b
    | none => (d, "bad-op")
  | ["dump"] =>
    match d.pol with
    | none => (d, dumpMem d.store.mem)
    | some p => (d, dumpMem p.inner.mem ++ s!" | usage={p.usage} stored={p.stored} tape={if p.bad || !p.tape.isEmpty then "bad" else "ok"}")
  | ["newp", n, m] =>
    match n.toNat?, m.toNat? with
    | some k, some l => ({ limit := k, pol := some (Policy.init l) }, "ok")
    | _, _ => (d, "bad-op")
  | ["chunk", hx] =>
    match fromHex hx with
    | some b =>
      let (c', s', out) := feed memOps d.limit d.now d.conn d.store b
      ({ d with conn := c', store := s', acc := d.acc ++ out }, "sent")
    | none => (d, "bad-op")
  | ["eof"] =>
    let (c', s', out) := eof memOps d.now d.conn d.store
    ({ d with conn := c', store := s', acc := [] }, s!"out {toHexD (d.acc ++ out)} closed")
  | ["fin"] =>
    ({ d with acc := [] }, s!"out {toHexD d.acc} {if d.conn.closed then "closed" else "open"}")
  | ["conn"] => ({ d with conn := Conn.init, acc := [] }, "ok")
  | "tcase" :: rx :: now :: rest =>
    match rx.toNat?, now.toNat? with
    | some rxv, some nowv =>
      match tcaseRun d.limit rxv nowv (TConn.start 0 rxv) MemStore.init [] rest with
      | some (closed, out) => (d, s!"out {toHexD out} {if closed then "closed" else "open"}")
      | none => (d, "bad-op")
    | _, _ => (d, "bad-op")
  | ["obs", hx] =>
    -- a second connection: the bytes, then half-close
    match fromHex hx with
    | some b =>
      let (c1, s1, out1) := feed memOps d.limit d.now Conn.init d.store b
      let (_, s2, out2) := eof memOps d.now c1 s1
      ({ d with store := s2 }, s!"obs {toHexD (out1 ++ out2)}")
    | none => (d, "bad-op")
  | ["blast", _, _] => (d, "ok")   -- abortive end: which prefix was executed is the implementation's choice (oracle-only)
  | ["dec", hx] =>
    match fromHex hx with
    | some b =>
      let buf := d.cbuf ++ b
      let (s', st', buf', acc) := decLoop d.limit d.now (buf.length + 2) d.store d.cst buf []
      ({ d with store := s', cst := st', cbuf := buf' }, "dec " ++ " ".intercalate acc.reverse)
    | none => (d, "bad-op")
  | ["codec"] => ({ d with cst := .none, cbuf := [] }, "ok")
  | ["srv", l, _] =>
    match l.toNat? with
    | some k => ({ d with srv := Srv.init k, stalled := [] }, "ok")
    | none => (d, "bad-op")
  | ["open", i] =>
    match i.toNat? with
    | some k => ({ d with srv := d.srv.step (.connect k) }, "ok")
    | none => (d, "bad-op")
  | ["stall", i, _] =>
    match i.toNat? with
    | some k => (if d.srv.served.contains k then { d with stalled := k :: d.stalled } else d, "ok")
    | none => (d, "bad-op")
  | ["end", i, _] =>
    match i.toNat? with
    | some k => ({ d with srv := d.srv.step (.finish k), stalled := d.stalled.erase k }, "ok")
    | none => (d, "bad-op")
  | "idle" :: keep =>
    let ks := keep.filterMap (·.toNat?)
    let victims := d.srv.active.filter (fun i => !ks.contains i)
    ({ d with srv := victims.foldl (fun s i => s.step (.finish i)) d.srv, stalled := d.stalled.filter (fun i => ks.contains i) }, "ok")
  | ["probe"] =>
    (d, ("served " ++ " ".intercalate (((d.srv.served.filter (fun i => !d.stalled.contains i)).toArray.qsort (· < ·)).toList.map toString)).trimAsciiEnd.toString)
  | ["cnew", n] =>
    match n.toNat? with
    | some k => ({ limit := k }, "ok")
    | none => (d, "bad-op")
  | ["cnow", n] =>
    match n.toNat? with
    | some k => ({ d with now := k }, "ok")
    | none => (d, "bad-op")
  | ["creq", hx] =>
    match fromHex hx with
    | some b =>
      match Codec.decode d.limit .none b with
      | (.frame r, _, _) =>
        let (s', o) := handleRequest memOps d.store d.now r
        ({ d with store := s' }, canonResp o)
      | _ => (d, "silent")
    | none => (d, "bad-op")
  | "thread" :: i :: frames =>
    match i.toNat? with
    | some k =>
      let cmds := frames.filterMap (fun hx => match fromHex hx with
        | some b => match Codec.decode d.limit .none b with
          | (.frame r, _, _) => reqCCmd r
          | _ => none
        | none => none)
      let padded := d.cthreads ++ List.replicate (k + 1 - d.cthreads.length) []
      ({ d with cthreads := padded.set k cmds }, "ok")
    | none => (d, "bad-op")
  | "sched" :: ids =>
    -- tokens: `i` = thread i makes its next call; `T` = the clock ticks; `i~` = thread i makes its next call with the clock
    -- reading from before the last tick
    let n := d.cthreads.length
    let completion := (List.replicate 12 (List.range n)).flatten
    let sys : Sys := { store := d.store, threads := d.cthreads.map (fun c => { todo := c }) }
    let toks : List Tok := ids.filterMap (fun tok =>
      if tok == "T" then some Tok.tick
      else if tok.endsWith "~" then (tok.dropRight 1).toNat?.map Tok.stale
      else tok.toNat?.map Tok.grant)
    let (sys1, now1) := sys.runToks d.now toks
    let sys' := sys1.run now1 completion
    let d := { d with now := now1 }
    let res := (List.range n).zip sys'.threads |>.map (fun (i, t) => s!"t{i}=" ++ ",".intercalate (t.results.map canonRes))
    ({ d with store := sys'.store, cthreads := [] }, "res " ++ " ".intercalate res ++ " | " ++ dumpMem sys'.store.mem)
  | ["pcnew", n, l] =>
    match n.toNat?, l.toNat? with
    | some k, some pl => ({ limit := k, plimit := pl }, "ok")
    | _, _ => (d, "bad-op")
  | "psetup" :: frames => ({ d with psetup := framesPCalls d.limit frames }, "ok")
  | "pthread" :: i :: frames =>
    match i.toNat? with
    | some k =>
      let padded := d.pthreads ++ List.replicate (k + 1 - d.pthreads.length) []
      ({ d with pthreads := padded.set k (framesPCalls d.limit frames) }, "ok")
    | none => (d, "bad-op")
  | "psched" :: n0 :: n1 :: toks =>
    match n0.toNat?, n1.toNat? with
    | some t0, some t1 =>
      let n := d.pthreads.length
      -- the setup runs sequentially (thread n) at time t0 before the concurrent phase at time t1
      let sys0 := PSys.init d.plimit (d.pthreads ++ [d.psetup])
      let sys1 := (List.replicate (4 * d.psetup.length + 1) (n, (none : Option Key))).foldl (fun s e => s.step t0 e.1 e.2) sys0
      let setupOk := (match sys1.threads[n]? with | some t => t.finished | none => false)
      let sys1 := { sys1 with racy := false }
      let (sys2, err) := pgrants sys1 t1 toks 0
      let res := (List.range n).zip sys2.threads |>.map (fun (i, t) => s!"t{i}=" ++ ",".intercalate (t.results.map canonRes))
      let tail := match err with | some e => " | " ++ e | none => ""
      ({ d with pthreads := [], psetup := [] },
        "pres " ++ " ".intercalate res ++ " | " ++ dumpMem sys2.inner.mem ++ s!" | usage={sys2.usage} racy={sys2.racy} rest={sys2.quiescent} setup={setupOk}" ++ tail)
    | _, _ => (d, "bad-op")
  | "stress" :: _ => (d, "ok")
  | "note" :: _ => (d, "ok")
  | "ext" :: n :: _ =>
    match n.toNat? with
    | some k => ({ limit := k }, "ok")
    | none => (d, "bad-op")
  | "evict" :: ks =>
    match d.pol with
    | none => (d, "bad-op")
    | some p =>
      let keys := ks.filterMap fromHex
      if keys.length != ks.length then (d, "bad-op")
      else ({ d with pol := some { p with tape := keys, bad := false } }, "ok")
  | _ => (d, "bad-op")

partial def loop (h : IO.FS.Stream) (out : IO.FS.Stream) (d : DState) : IO Unit := do
  let line ← h.getLine
  if line.isEmpty then return ()
  let (d', o) := step d line
  out.putStrLn o
  loop h out d'

def main : IO Unit := do
  let out ← IO.getStdout
  loop (← IO.getStdin) out {}
